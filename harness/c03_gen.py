"""C03 generator: schema-expressible scenarios + planning-problem sets as JSON-able specs, built through the public
constructors of commonroad-io.  (A spec is what is stored in a replay; `build(spec)` re-creates the objects.)

"Schema-expressible" (the property's own restriction) means here: the scenario can be written as a 2020a document at all —
  * >= 1 lanelet, >= 1 planning problem; bounds with >= 2 points, polygons with >= 3 vertices,
  * every enum member used has a value that the XSD enumerates (weather 'clear', time of day 'noon', a few foreign
    traffic-sign ids ... have no schema value and are left out: fixed lists below, proved against the XSD in C03_enum_*),
  * initial states at time step 0 with position+orientation (planning problems: + velocity, yaw rate, slip angle),
    trajectory / series states at time steps >= 1, goal states with *interval* time and interval orientation/velocity,
    state attributes that the `state` type names, goal positions of one shape kind,
  * every dynamic obstacle has a prediction, every phantom obstacle a set-based prediction, every traffic light a cycle,
  * lengths / radii / scaling > 0, finite numbers, ids > 0 and unique, every reference points at an existing id.
Magnitudes are deliberately extreme: 1e-6 rad, 1e5 m, lengths below 1e-4, numbers whose repr is in exponent form on both
sides (<1e-4, >=1e16), ids up to 10**18, precisions 1..12.
"""
from __future__ import annotations

import math
import os

import numpy as np

XSD_REL = "commonroad/scenario_definition/xml_definition_files/XML_commonRoad_XSD.xsd"
# Members whose value the 2020a XSD does not enumerate (not schema-expressible).  The lists are fixed here (and repeated in
# lean/CRProps/C03.lean, theorems C03_enum_*) instead of being filtered against the XSD at run time, so that a member whose
# written value *changes* is still generated and caught.
TIME_OF_DAY = ["NIGHT", "UNKNOWN"]
WEATHER = ["LIGHT_RAIN", "HEAVY_RAIN", "FOG", "SNOW", "HAIL"]
UNDERGROUND_NOT = ["UNKNOWN"]
OBSTACLE_STATIC = ["UNKNOWN", "PARKED_VEHICLE", "CONSTRUCTION_ZONE", "ROAD_BOUNDARY"]
OBSTACLE_DYNAMIC = ["UNKNOWN", "CAR", "TRUCK", "BUS", "MOTORCYCLE", "BICYCLE", "PEDESTRIAN", "PRIORITY_VEHICLE", "TRAIN", "TAXI"]
OBSTACLE_ENVIRONMENT = ["UNKNOWN", "BUILDING", "PILLAR", "MEDIAN_STRIP"]
SIGN_NOT = {  # besides every UNKNOWN (value "")
    ("TrafficSignIDArgentina", "MAX_SPEED"), ("TrafficSignIDAustralia", "STOP"), ("TrafficSignIDAustralia", "YIELD"),
    ("TrafficSignIDBelgium", "MAX_SPEED"), ("TrafficSignIDCroatia", "MAX_SPEED"), ("TrafficSignIDFrance", "MAX_SPEED"),
    ("TrafficSignIDGreece", "MAX_SPEED"), ("TrafficSignIDRussia", "MAX_SPEED"),
    ("TrafficSignIDUsa", "STOP"), ("TrafficSignIDUsa", "STOP_4_WAY"), ("TrafficSignIDUsa", "NO_TURN_ON_RED"), ("TrafficSignIDUsa", "ONEWAY"),
} | {(c, m) for c in ("TrafficSignIDGermany", "TrafficSignIDZamunda")
     for m in ("KEEP_STRAIGHT_AHEAD", "LANE_BOARD_3_LANES_NO_OPPOSITE_WITH_SIGNS", "ADDITION_SCHOOL", "ADDITION_KINDERGARTEN",
               "ADDITION_RETIREMENT_HOME", "ADDITION_HOSPITAL")}


# ------------------------------------------------------------------------------------------------ numbers

ORD = [0.0, 1.0, -1.0, 0.5, 2.25, -3.75, 12.5, 100.0, 0.1, 0.3, 1.7, 4.3, 8.9, 48.262333, 11.668775, 1 / 3, 2 / 3, math.pi,
       123456789.123456, 12327.0, -0.0, 7, 0, -2, 35]
TINY = [1e-6, -1e-6, 1e-5, 9.9e-5, 3.7e-7, -2.5e-5, 1e-23, 5e-324, 1.2345678901234e-9, 9.999999e-5, 0.0001, 0.00011]
BIG = [1e5, -1e5, 123456.789012, 99999.99995, 654321.123456789, 1e15, 999999999999999.9, 123456789012345.67]
HUGE = [1e16, -1e16, 1.5e17, 1e22, 1.7976931348623157e308, 12345678901234567890.0]


def num(r, tiny=0.25, big=0.2, huge=0.05):
    """A finite number of any magnitude (float, sometimes int / numpy scalar)."""
    x = r.random()
    if x < tiny:
        v = r.choice(TINY) if r.random() < 0.6 else r.choice([-1, 1]) * r.random() * 10.0 ** (-r.randint(4, 12))
    elif x < tiny + big:
        v = r.choice(BIG) if r.random() < 0.6 else r.choice([-1, 1]) * r.random() * 10.0 ** r.randint(5, 15)
    elif x < tiny + big + huge:
        v = r.choice(HUGE) if r.random() < 0.6 else r.choice([-1, 1]) * (1 + r.random()) * 10.0 ** r.randint(16, 30)
    else:
        v = r.choice(ORD) if r.random() < 0.4 else round(r.uniform(-200, 200), r.randint(0, 8))
    return v


def pos_num(r, tiny=0.35):
    """A positive finite number; lengths below 1e-4 are frequent."""
    x = r.random()
    if x < tiny:
        return r.choice([1e-5, 9.9e-5, 3.7e-7, 1e-6, 5e-324, 1e-23, 2.5e-5, 0.00009]) if r.random() < 0.7 \
            else r.random() * 10.0 ** (-r.randint(4, 12)) + 1e-300
    if x < tiny + 0.1:
        return r.choice([1e5, 1e16, 1.5e17, 123456.789, 1e22])
    return r.choice([4.3, 8.9, 2.0, 1.0, 0.5, 1.8, 4.5, 2, 5, 0.1, 0.3, 1 / 3, 12.75, 0.0001, 0.00011]) if r.random() < 0.7 \
        else round(r.uniform(0.06, 30), r.randint(1, 8))


def angle(r):
    x = r.random()
    if x < 0.3:
        return r.choice([1e-6, -1e-6, 1e-5, -3e-5, 9.9e-5, 1e-9, 4e-7, 5e-5])
    if x < 0.5:
        return r.choice([0.0, 0, math.pi, -math.pi, math.pi / 2, 1.7, -0.0, 6.283185307179586, -6.28])
    return round(r.uniform(-6.2, 6.2), r.randint(1, 9))


TWO_PI = 2 * math.pi


def near_full_circle(r, p, kind=None):
    """An orientation interval [a, b] (-2 pi <= a <= b <= 2 pi, b - a < 2 pi as AngleInterval demands) whose length is within a
    few units of the p-th decimal of a full turn: what 'any direction' looks like in a goal region.  Kinds:
      pm-pi   +-pi cut off after d > p decimals (AngleInterval(-3.14159, 3.14159)),
      slack   length 2 pi - k * 10**-p (k from 0.04 to 2.5) from a random start, bounds not representable with p decimals,
      grid    both bounds multiples of 10**-p (written exactly), the longest such interval below 2 pi,
      tiny    one bound with an exponent-form repr (0 < |a| < 1e-4) just beside zero, the other the largest multiple of 10**-p
              below 2 pi (float_to_str ROUNDS such a bound and cuts the digits of every other one)."""
    p = max(0, min(int(p), 15))
    u = 10.0 ** -p
    kind = kind or r.choice(["pm-pi", "pm-pi", "slack", "slack", "grid", "tiny"])
    a = b = None
    if kind == "slack":
        L = TWO_PI - r.choice([0.04, 0.3, 0.5, 0.9, 1.0, 1.5, 1.9, 2.5]) * u
        a = round(r.uniform(-TWO_PI, TWO_PI - L - 1e-12), min(15, p + r.randint(1, 3)))
        b = a + L
    elif kind == "grid":
        n = math.floor(TWO_PI * 10 ** p)
        n -= 1 if n / 10 ** p >= TWO_PI - 1e-12 else 0
        k = r.randint(-math.floor(TWO_PI * 10 ** p), 0)
        a, b = k / 10 ** p, (k + n) / 10 ** p
    elif kind == "tiny":
        b = math.floor(TWO_PI * 10 ** p) / 10 ** p
        gap = TWO_PI - b
        t = (0.5 * u + min(u, gap)) / 2 if gap > 0.5 * u else gap * r.choice([0.3, 0.9])
        if 0 < t < 1e-4:
            a = -t
            if r.random() < 0.5:
                a, b = -b, t
    if a is None or not (-TWO_PI <= a <= b <= TWO_PI and b - a < TWO_PI - 1e-12):
        d = min(15, p + r.randint(1, 3))
        h = math.floor(math.pi * 10 ** d) / 10 ** d
        a, b = -h, h
    return [float(a), float(b)]


def effective_precision(spec):
    w = ((spec.get("var") or {}).get("writer") or {}).get("precision", "spec")
    return spec["precision"] if w == "spec" else (4 if w == "default" else w)


def _interval_states(o, out):
    if isinstance(o, dict):
        if isinstance(o.get("ori"), dict) and "iv" in o["ori"]:
            out.append(o)
        for v in o.values():
            _interval_states(v, out)
    elif isinstance(o, list):
        for v in o:
            _interval_states(v, out)


def widen_orientations(r, spec, force=False):
    """Dimension 'almost a full turn': some (force: the first goal and every) interval-valued orientation of the goal states and
    of the uncertain obstacle / trajectory states becomes near_full_circle at the precision the writer will use."""
    p = effective_precision(spec)
    first = True
    for pr in spec["problems"]:
        for g in pr["goals"]:
            if (force and first) or (g["ori"] is not None and r.random() < 0.25):
                g["ori"] = near_full_circle(r, p)
            first = False
    states = []
    _interval_states({k: v for k, v in spec.items() if k != "problems"}, states)
    for s in states:
        if force or r.random() < 0.3:
            s["ori"] = {"iv": near_full_circle(r, p)}
    return spec


def pt(r, tiny=0.25, big=0.2, huge=0.04):
    return [num(r, tiny, big, huge), num(r, tiny, big, huge)]


def big_id(r):
    return r.choice([10 ** 18, 2 ** 63 - 1, 10 ** 12 + 7, 999999999999999999, 2 ** 31, 2 ** 53 + 1, 10 ** 9])


class Ids:
    def __init__(self, r):
        self.r = r
        self.used = set()

    def new(self):
        r = self.r
        while True:
            i = big_id(r) - r.randint(0, 50) if r.random() < 0.12 else r.randint(1, 5000)
            if i not in self.used:
                self.used.add(i)
                return i


# ------------------------------------------------------------------------------------------------ spec generation

def gen_shape(r, group_ok=True, kinds=("rect", "circ", "poly")):
    k = r.choice(kinds + (("group",) if group_ok and r.random() < 0.5 else ()))
    if k == "rect":
        return {"k": "rect", "l": pos_num(r), "w": pos_num(r), "o": angle(r), "c": pt(r)}
    if k == "circ":
        return {"k": "circ", "r": pos_num(r), "c": pt(r)}
    if k == "poly":
        n = r.randint(3, 6)
        c = pt(r, 0.1, 0.2, 0.0)
        rad = r.choice([1.0, 5.0, 1e-5, 1e4, 0.001])
        vs = []
        for i in range(n):
            a = 2 * math.pi * i / n + r.uniform(0, 0.3)
            vs.append([c[0] + rad * math.cos(a) * r.uniform(0.5, 1.0), c[1] + rad * math.sin(a) * r.uniform(0.5, 1.0)])
        return {"k": "poly", "v": vs}
    return {"k": "group", "s": [gen_shape(r, False, kinds) for _ in range(r.randint(1, 3))]}


STATE_ATTRS = {  # python attribute -> xml element name (file_writer_xml.py:966-978)
    "velocity": "velocity", "acceleration": "acceleration", "yaw_rate": "yawRate", "slip_angle": "slipAngle",
    "steering_angle": "steeringAngle", "roll_angle": "rollAngle", "roll_rate": "rollRate", "pitch_angle": "pitchAngle",
    "pitch_rate": "pitchRate", "velocity_y": "velocityY", "position_z": "positionZ", "velocity_z": "velocityZ",
    "roll_angle_front": "rollAngleFront", "roll_rate_front": "rollRateFront", "velocity_y_front": "velocityYFront",
    "position_z_front": "positionZFront", "velocity_z_front": "velocityZFront", "roll_angle_rear": "rollAngleRear",
    "roll_rate_rear": "rollRateRear", "velocity_y_rear": "velocityYRear", "position_z_rear": "positionZRear",
    "velocity_z_rear": "velocityZRear", "left_front_wheel_angular_speed": "leftFrontWheelAngularSpeed",
    "right_front_wheel_angular_speed": "rightFrontWheelAngularSpeed",
    "left_rear_wheel_angular_speed": "leftRearWheelAngularSpeed",
    "right_rear_wheel_angular_speed": "rightRearWheelAngularSpeed", "delta_y_f": "deltaYFront", "delta_y_r": "deltaYRear",
    "curvature": "curvature", "curvature_rate": "curvatureChange", "jerk": "jerk", "jounce": "jounce",
}
STATE_CLASSES = {
    "InitialState": ["velocity", "acceleration", "yaw_rate", "slip_angle"],
    "PMState": ["velocity", "velocity_y"],          # needs orientation -> only as CustomState; kept out of 'state' (no orientation)
    "KSState": ["steering_angle", "velocity"],
    "STState": ["steering_angle", "velocity", "slip_angle", "yaw_rate"],
    "ExtendedPMState": ["velocity", "acceleration"],
    "MBState": ["steering_angle", "velocity", "yaw_rate", "roll_angle", "roll_rate", "pitch_angle", "pitch_rate", "velocity_y",
                "position_z", "velocity_z", "roll_angle_front", "roll_rate_front", "velocity_y_front", "position_z_front",
                "velocity_z_front", "roll_angle_rear", "roll_rate_rear", "velocity_y_rear", "position_z_rear",
                "velocity_z_rear", "left_front_wheel_angular_speed", "right_front_wheel_angular_speed",
                "left_rear_wheel_angular_speed", "right_rear_wheel_angular_speed", "delta_y_f", "delta_y_r"],
    "CustomState": ["velocity", "acceleration", "jerk", "jounce", "curvature", "curvature_rate", "yaw_rate", "slip_angle"],
}


def val_or_interval(r, f, p_int=0.2):
    if r.random() < p_int:
        a, b = f(r), f(r)
        return {"iv": sorted([float(a), float(b)])}
    return f(r)


def gen_state(r, t, cls=None, initial=False, uncertain_ok=True, schema_state=None):
    """Spec of a state of the `state` / `initialState` complex type (position, orientation, time required)."""
    cls = cls or r.choice(["KSState", "KSState", "STState", "ExtendedPMState", "MBState", "CustomState", "InitialState"])
    attrs = STATE_CLASSES[cls]
    if schema_state is not None:
        attrs = [a for a in attrs if STATE_ATTRS[a] in schema_state]
    s = {"cls": cls, "t": t}
    if uncertain_ok and r.random() < 0.12:
        s["pos"] = gen_shape(r, True, (r.choice(["rect", "circ", "poly"]),))
    else:
        s["pos"] = pt(r)
    s["ori"] = val_or_interval(r, lambda q: round(q.uniform(-3.1, 3.1), 6) if q.random() < 0.5 else angle(q),
                               0.15 if uncertain_ok else 0.0)
    if isinstance(s["ori"], dict):
        a, b = s["ori"]["iv"]
        if not (-2 * math.pi <= a <= b <= 2 * math.pi and b - a < 2 * math.pi - 1e-9):
            s["ori"] = {"iv": [-0.5, 0.5]}
    vals = {}
    for a in attrs:
        p = 1.0 if cls in ("KSState",) else (0.35 if cls == "MBState" else 0.7)
        if r.random() < p:
            vals[a] = val_or_interval(r, lambda q: num(q, 0.3, 0.15, 0.05), 0.12 if uncertain_ok else 0.0)
    s["vals"] = vals
    return s


def gen_signal(r, t):
    s = {"t": t}
    for a in ("horn", "indicator_left", "indicator_right", "braking_lights", "hazard_warning_lights", "flashing_blue_lights"):
        if r.random() < 0.6:
            s[a] = r.random() < 0.5
    return s


def gen_occupancies(r, n=None):
    occ = []
    t = 1
    for _ in range(n or r.randint(1, 4)):
        if r.random() < 0.3:
            tt = {"iv": [t, t + r.randint(1, 5)]}
            t = tt["iv"][1] + 1
        else:
            tt = t
            t += 1
        occ.append({"t": tt, "shape": gen_shape(r)})
    return occ


def gen_spec(r, repo, size=None):
    from commonroad.common.common_lanelet import LaneletType, LineMarking, RoadUser
    from commonroad.scenario.obstacle import ObstacleType
    from commonroad.scenario.scenario import Tag, TimeOfDay, Underground, Weather
    from commonroad.scenario.traffic_light import TrafficLightDirection, TrafficLightState
    from commonroad.scenario import traffic_sign as ts_mod
    size = size if size is not None else r.choice([0, 1, 1, 2, 2, 3])
    ids = Ids(r)
    spec = {"precision": r.randint(1, 12), "size": size}
    spec["dt"] = r.choice([0.1, 0.1, 0.04, 1, 0.5, 1e-5, 2e-6, 0.025, 1e-4, 1e16, 0.0001])
    spec["author"] = r.choice(["A", "Jane Doe, John <j@x.org>", "Müller & Söhne", "a\"b'c", "", "x" * 40])
    spec["affiliation"] = r.choice(["TUM", "", "T&U <M>", "Technical University of Munich, Germany"])
    spec["source"] = r.choice(["test", "", "OpenStreetMap (OSM), SUMO", "a&b"])
    tags = list(Tag)
    spec["tags"] = sorted(t.name for t in r.sample(tags, r.choice([0, 1, 2, 3, len(tags)])))
    spec["benchmark"] = r.choice([["ZAM", "Test", 1, 1, "T", 1], ["DEU", "Muc", 30, 2, "T", 1], ["USA", "Lanker", 1, 1, "S", 3],
                                  ["ZAM", "Tjunction", 1, None, None, None]])
    # location
    if r.random() < 0.25:
        spec["location"] = None
    else:
        loc = {"geo_name_id": r.choice([-999, 2867714, 0, 1, 10 ** 12]), "lat": r.choice([999, 48.262333, -33.9, 1e-5, 0.0]),
               "lon": r.choice([999, 11.668775, 151.2, -5e-6, -0.0, 1e-7]), "geo": None, "env": None}
        if r.random() < 0.6:
            loc["geo"] = {"ref": r.choice(["+proj=utm +zone=32 +ellps=WGS84", "", "+proj=tmerc +lat_0=0 <x> & y", "EPSG:25832"]),
                          "x": num(r), "y": num(r), "rot": angle(r), "scale": pos_num(r)}
        if r.random() < 0.6:
            tod, we = TIME_OF_DAY, WEATHER
            un = [t.name for t in Underground if t.name not in UNDERGROUND_NOT]
            loc["env"] = {"h": r.choice([0, 7, 12, 23, 24 if False else 9]), "m": r.choice([0, 5, 30, 59]), "tod": r.choice(tod),
                          "weather": r.choice(we), "underground": r.choice(un)}
        spec["location"] = loc

    n_l = [1, 2, 3, 5][size]
    lids = [ids.new() for _ in range(n_l)]
    n_s = [0, 1, 2, 3][size] if r.random() < 0.8 else 0
    n_t = [0, 1, 2, 3][size] if r.random() < 0.8 else 0
    sids = [ids.new() for _ in range(n_s)]
    tids = [ids.new() for _ in range(n_t)]

    lm_all = [m.name for m in LineMarking]
    lt_all = [m.name for m in LaneletType]
    ru_all = [m.name for m in RoadUser]

    def subset(pool, pmax=3, p0=0.5):
        if not pool or r.random() < p0:
            return []
        return sorted(r.sample(pool, r.randint(1, min(pmax, len(pool)))))

    lanelets = []
    for i, lid in enumerate(lids):
        n = r.choice([2, 2, 3, 4, 7])
        mode = r.random()
        x0, y0 = (num(r, 0.1, 0.3, 0.0), num(r, 0.1, 0.3, 0.0))
        step = r.choice([1.0, 10.0, 1e-5, 0.5, 1e3, 3e-7])
        wid = r.choice([3.5, 1e-5, 2.0, 7e-5, 100.0])
        left = [[x0 + k * step, y0 + wid / 2] for k in range(n)]
        right = [[x0 + k * step, y0 - wid / 2] for k in range(n)]
        if mode < 0.25:
            left = [pt(r) for _ in range(n)]
            right = [pt(r) for _ in range(n)]
        others = [x for x in lids if x != lid]
        la = {"id": lid, "left": left, "right": right,
              "pred": subset(others, 2), "succ": subset(others, 2),
              # adjacency is kept geometrically consistent (right neighbours later, left neighbours earlier in the row):
              # the reader walks adjacent_right/left chains to place signs/lights and never returns on a cyclic chain
              "adjl": [r.choice(lids[:i]), r.random() < 0.5] if lids[:i] and r.random() < 0.4 else None,
              "adjr": [r.choice(lids[i + 1:]), r.random() < 0.5] if lids[i + 1:] and r.random() < 0.4 else None,
              "lml": r.choice(lm_all), "lmr": r.choice(lm_all),
              "types": subset(lt_all, 3, 0.3), "oneway": subset(ru_all, 3, 0.6), "bidir": subset(ru_all, 2, 0.7),
              "signs": subset(sids, 2, 0.4), "lights": subset(tids, 2, 0.4), "stop": None}
        if r.random() < 0.35:
            st = {"lm": r.choice(lm_all), "signs": subset(sids, 2, 0.5), "lights": subset(tids, 2, 0.5), "start": None, "end": None,
                  "refs_none": r.random() < 0.3}
            if r.random() < 0.7:
                st["start"], st["end"] = pt(r), pt(r)
            la["stop"] = st
        lanelets.append(la)
    # the library's reader demands (and add_traffic_sign/add_traffic_light establish) that every sign / light is referenced
    for x in sids:
        if not any(x in la["signs"] for la in lanelets):
            la = r.choice(lanelets)
            la["signs"] = sorted(la["signs"] + [x])
    for x in tids:
        if not any(x in la["lights"] for la in lanelets):
            la = r.choice(lanelets)
            la["lights"] = sorted(la["lights"] + [x])
    spec["lanelets"] = lanelets

    # traffic signs: every enum class of the module; only members whose value the XSD lists
    sign_pool = []
    for cname in dir(ts_mod):
        c = getattr(ts_mod, cname)
        if isinstance(c, type) and cname.startswith("TrafficSignID") and cname != "TrafficSignID":
            for m in c:
                if m.name != "UNKNOWN" and (cname, m.name) not in SIGN_NOT:
                    sign_pool.append([cname, m.name])
    spec["signs"] = []
    for sid in sids:
        els = []
        for _ in range(r.choice([1, 1, 2, 3])):
            c, m = r.choice(sign_pool)
            els.append({"cls": c, "name": m, "vals": r.choice([[], ["50"], ["13.88", "x"], ["1e-05"], ["<&>"], [""]])})
        spec["signs"].append({"id": sid, "els": els, "pos": pt(r) if r.random() < 0.7 else None,
                              "virtual": r.choice([True, False, False, None]), "first": subset(lids, 2, 0.3)})
    col = [m.name for m in TrafficLightState]
    dirs = [m.name for m in TrafficLightDirection]
    spec["lights"] = []
    for tid in tids:
        cyc = [[r.choice(col), r.choice([1, 1, 5, 30, 10 ** 6, 10 ** 12])] for _ in range(r.randint(1, 4))]
        spec["lights"].append({"id": tid, "cycle": cyc, "offset": r.choice([0, 0, 1, 7, 10 ** 9]), "pos": pt(r) if r.random() < 0.7 else None,
                               "dir": r.choice(dirs), "active": r.choice([True, False, None])})
    spec["intersections"] = []
    if len(lids) >= 2 and r.random() < 0.6:
        for _ in range(r.choice([1, 1, 2])):
            incs = []
            for _ in range(r.randint(1, 3)):
                incs.append({"id": ids.new(), "lanelets": sorted(r.sample(lids, r.randint(1, min(2, len(lids))))),
                             "right": subset(lids, 2), "straight": subset(lids, 2), "left": subset(lids, 2), "left_of": None})
            for inc in incs:
                o = [x["id"] for x in incs if x is not inc]
                if o and r.random() < 0.5:
                    inc["left_of"] = r.choice(o)
            spec["intersections"].append({"id": ids.new(), "incomings": incs, "crossings": subset(lids, 2, 0.6)})

    st_types, dy_types, en_types = OBSTACLE_STATIC, OBSTACLE_DYNAMIC, OBSTACLE_ENVIRONMENT
    schema_state = None
    n_o = [0, 1, 2, 3][size]
    spec["static"] = [{"id": ids.new(), "type": r.choice(st_types), "shape": gen_shape(r),
                       "init": gen_state(r, 0, "InitialState", True, uncertain_ok=False, schema_state=schema_state)}
                      for _ in range(r.randint(0, n_o))]
    spec["dynamic"] = []
    for _ in range(r.randint(0, n_o)):
        dshape = gen_shape(r, group_ok=False)
        # the shape of a dynamic obstacle lives in the obstacle's frame: usually centred and unrotated (then the writer omits
        # orientation / center), sometimes rotated and / or off-centre (then it writes them)
        x = r.random()
        if "c" in dshape and x < 0.5:
            dshape["c"] = [0.0, 0.0]
        if "o" in dshape and (x < 0.35 or 0.5 <= x < 0.65):
            dshape["o"] = r.choice([0.0, 0, -0.0])
        d = {"id": ids.new(), "type": r.choice(dy_types), "shape": dshape,
             "init": gen_state(r, 0, "InitialState", True, uncertain_ok=False, schema_state=schema_state),
             "sig0": gen_signal(r, 0) if r.random() < 0.4 else None, "series": None}
        if r.random() < 0.65:
            cls = r.choice(["KSState", "STState", "ExtendedPMState", "MBState", "CustomState"])
            unc = r.random() < 0.3
            first = gen_state(r, 1, cls, uncertain_ok=unc, schema_state=schema_state)
            traj = [first]
            for t in range(2, r.randint(2, 5)):   # Trajectory demands the same attribute set in every state
                s = gen_state(r, t, cls, uncertain_ok=unc, schema_state=schema_state)
                s["vals"] = {k: (s["vals"].get(k, num(r))) for k in first["vals"]}
                traj.append(s)
            d["traj"] = traj
        else:
            d["occ"] = gen_occupancies(r)
        if r.random() < 0.4:
            d["series"] = [gen_signal(r, t) for t in range(1, r.randint(2, 4))]
        elif r.random() < 0.25:
            d["series"] = []        # an empty signal series: the writer must not emit <signalSeries/> (minOccurs 1 inside)
        spec["dynamic"].append(d)
    spec["phantom"] = [{"id": ids.new(), "occ": gen_occupancies(r)} for _ in range(r.randint(0, 1 if size < 2 else 2))]
    spec["envobs"] = [{"id": ids.new(), "type": r.choice(en_types), "shape": gen_shape(r)} for _ in range(r.randint(0, 1 if size < 2 else 2))]

    spec["problems"] = []
    for _ in range(r.choice([1, 1, 2, 3]) if size else 1):
        init = gen_state(r, 0, "InitialState", True, uncertain_ok=False)
        for a in ("velocity", "yaw_rate", "slip_angle"):
            init["vals"].setdefault(a, num(r, 0.3, 0.1, 0.03))
        goals = []
        for _ in range(r.choice([1, 1, 2, 3])):
            a = r.choice([0, 1, 5, 10 ** 6])
            g = {"time": [a, a + r.choice([0 if a > 0 else 1, 1, 1, 10, 10 ** 9])], "pos": None, "lanelets": [], "ori": None, "vel": None}
            x = r.random()
            if x < 0.35:
                k = r.choice(["rect", "circ", "poly"])
                g["pos"] = gen_shape(r, True, (k,))
            elif x < 0.6:
                g["pos"] = "lanelets"
                g["lanelets"] = sorted(r.sample(lids, r.randint(1, min(3, len(lids)))))
            if r.random() < 0.5:
                a0 = round(r.uniform(-3, 2), r.randint(0, 8)) if r.random() < 0.6 else r.choice([1e-6, -1e-6, -3e-5, 0.0])
                g["ori"] = [a0, a0 + r.choice([0.5, 1e-6, 1.0, 3.0, 2e-5])]
            if r.random() < 0.5:
                v0 = num(r, 0.3, 0.1, 0.03)
                g["vel"] = [v0, v0 + pos_num(r)]
            goals.append(g)
        spec["problems"].append({"id": ids.new(), "init": init, "goals": goals})
    spec["var"] = gen_var(r, spec)
    widen_orientations(r, spec)
    return spec


# ------------------------------------------------------------------------------------------------ building objects

def mk_shape(s):
    from commonroad.geometry.shape import Circle, Polygon, Rectangle, ShapeGroup
    k = s["k"]
    if k == "rect":
        return Rectangle(s["l"], s["w"], np.array(s["c"], dtype=float), s["o"])
    if k == "circ":
        return Circle(s["r"], np.array(s["c"], dtype=float))
    if k == "poly":
        return Polygon(np.array(s["v"], dtype=float))
    return ShapeGroup([mk_shape(x) for x in s["s"]])


def mk_val(v, angle_iv=False):
    from commonroad.common.util import AngleInterval, Interval
    if isinstance(v, dict):
        a, b = v["iv"]
        return AngleInterval(a, b) if angle_iv else Interval(a, b)
    return v


def mk_state(s):
    from commonroad.scenario import state as st
    cls = getattr(st, s["cls"])
    pos = mk_shape(s["pos"]) if isinstance(s["pos"], dict) else np.array(s["pos"], dtype=float)
    kw = {"time_step": s["t"], "position": pos, "orientation": mk_val(s["ori"], True)}
    for a, v in s["vals"].items():
        kw[a] = mk_val(v)
    return cls(**kw)


def mk_signal(s):
    from commonroad.scenario.state import SignalState
    kw = {k: v for k, v in s.items() if k != "t"}
    return SignalState(time_step=s["t"], **kw)


def mk_occ(occ):
    from commonroad.common.util import Interval
    from commonroad.prediction.prediction import Occupancy, SetBasedPrediction
    out = []
    for o in occ:
        t = Interval(*o["t"]["iv"]) if isinstance(o["t"], dict) else o["t"]
        out.append(Occupancy(t, mk_shape(o["shape"])))
    first = occ[0]["t"]
    return SetBasedPrediction(first["iv"][0] if isinstance(first, dict) else first, out)


Z_PROFILES = ["ramp", "ground-start", "ground-end", "cross-zero", "neg-zero", "all-zero", "tiny-big"]


def z_profile(kind, n):
    """Elevations of the n vertices of a bound (both bounds of a lanelet get the same)."""
    if kind is True or kind == "ramp":            # nowhere zero (the profile of earlier corpus files: lanelet3d = true)
        return [0.25 + 1.25 * i / (n - 1) for i in range(n)]
    if kind == "ground-start":                    # 0.0, 0.5, 1.0, ...
        return [0.5 * i for i in range(n)]
    if kind == "ground-end":
        return [0.5 * (n - 1 - i) for i in range(n)]
    if kind == "cross-zero":                      # ..., -0.5, 0.0, 0.5, ... (exactly 0.0 at an inner or the last vertex)
        return [0.5 * (i - n // 2) for i in range(n)]
    if kind == "neg-zero":                        # -0.0 at one vertex, non-zero elsewhere
        return [-0.0 if i == n // 2 else -1.5 - i for i in range(n)]
    if kind == "all-zero":
        return [0.0] * n
    if kind == "tiny-big":
        return [[1e-6, 123456.789012, -3.7e-7, 0.0, 1e5, -2.5e-5, 0][i % 7] for i in range(n)]
    raise ValueError(kind)


def gen_var(r, spec):
    """The dimensions beyond the object content (harness/c03_dims.py lists them): construction path, entry points, value
    classes, histories before the write, and what the writer object is / did before.  Every field is optional; a spec
    without "var" is built the plain way (corpus files of earlier rounds)."""
    hist_ops = ["reassign", "queries", "fail", "remove", "transform", "copy", "pickle", "convert2d"]
    v = {
        "setters": r.random() < 0.3,                  # objects assembled through setters / add_* methods instead of constructors
        "np": r.random() < 0.3,                       # numpy scalar types where Python floats are usual
        "np32": r.random() < 0.15,                    # np.float32 lengths / radii / dt
        "entry": r.choice(["single", "single", "list", "scenario"]),
        "refs_by_library": r.random() < 0.3,          # sign / light references added by add_traffic_sign(sign, lanelet_ids)
        "cleanup": r.random() < 0.3,                  # explicit cleanup_*_references() after assembling
        # 3-D lanelet vertices: an elevation profile (zero / negative-zero elevations at some or at all vertices are values an
        # "optional-looking" number takes: a ramp starting at ground level, a road crossing z = 0)
        "lanelet3d": r.choice(Z_PROFILES) if r.random() < 0.2 else False,
        "dup_refs": r.random() < 0.15,
        "goal_cls": r.choice(["CustomState", "CustomState", "KSState", "InitialState"]),
        "sid": {"cooperative": r.random() < 0.2, "prediction": r.choice([None, None, [1, 2]])},
        "pos_list": r.random() < 0.2,                 # state positions given as Python lists
        "geo_default": r.random() < 0.05,             # GeoTransformation() with every argument left at its default
        "np_state": r.random() < 0.05,                 # exact state values as np.float32 (orientations kept within [-2 pi, 2 pi] after rounding)
        "hist": [op for op in hist_ops if r.random() < 0.18],
        "hseed": r.randrange(10 ** 6),
        "writer": {
            "cls": r.choice(["facade", "facade", "xml"]),
            "override": r.random() < 0.3,             # author / affiliation / source / tags / location given to the writer
            "precision": r.choice(["spec"] * 6 + ["default", 0, 15, 20]),
            "first": r.choice([None, None, None, "write_to_file", "write_scenario_to_file", "fail", "fail_mid", "skip"]),
            "decoy": r.random() < 0.25,               # another writer with another precision constructed in between
            "pb_between": r.random() < 0.1,           # a protobuf write in between
            "check_validity": r.random() < 0.25,
            "filename_none": r.random() < 0.08,       # filename=None: the benchmark id in the working directory
        },
    }
    return v


def build(spec):
    """-> (scenario, planning_problem_set, writer_kwargs)."""
    from commonroad.common.common_lanelet import LaneletType, LineMarking, RoadUser, StopLine
    from commonroad.common.util import AngleInterval, Interval, Time
    from commonroad.geometry.shape import Circle, Rectangle, ShapeGroup
    from commonroad.planning.goal import GoalRegion
    from commonroad.planning.planning_problem import PlanningProblem, PlanningProblemSet
    from commonroad.prediction.prediction import TrajectoryPrediction
    from commonroad.scenario import state as st
    from commonroad.scenario import traffic_sign as ts_mod
    from commonroad.scenario.intersection import Intersection, IntersectionIncomingElement
    from commonroad.scenario.lanelet import Lanelet, LaneletNetwork
    from commonroad.scenario.obstacle import (DynamicObstacle, EnvironmentObstacle, ObstacleType, PhantomObstacle,
                                              StaticObstacle)
    from commonroad.scenario.scenario import (Environment, GeoTransformation, Location, Scenario, ScenarioID, Tag, TimeOfDay,
                                              Underground, Weather)
    from commonroad.scenario.traffic_light import (TrafficLight, TrafficLightCycle, TrafficLightCycleElement,
                                                   TrafficLightDirection, TrafficLightState)
    from commonroad.scenario.traffic_sign import TrafficSign, TrafficSignElement
    from commonroad.scenario.trajectory import Trajectory

    V = spec.get("var") or {}
    setters = bool(V.get("setters"))

    def N(x):        # value class: numpy scalar where a Python float is usual
        if V.get("np") and isinstance(x, float):
            return np.float64(x)
        return x

    def N32(x):      # lengths / radii / dt as np.float32 (changes the value: the data is read back from the objects)
        if V.get("np32") and isinstance(x, float) and 1e-30 < abs(x) < 1e30:
            return np.float32(x)
        return N(x)

    def shape(s):
        k = s["k"]
        if k == "rect":
            if setters:
                rect = Rectangle(1.0, 1.0)
                rect.length, rect.width, rect.center, rect.orientation = N32(s["l"]), N32(s["w"]), np.array(s["c"], dtype=float), N(s["o"])
                return rect
            return Rectangle(N32(s["l"]), N32(s["w"]), np.array(s["c"], dtype=float), N(s["o"]))
        if k == "circ":
            if setters:
                c = Circle(1.0)
                c.radius, c.center = N32(s["r"]), np.array(s["c"], dtype=float)
                return c
            return Circle(N32(s["r"]), np.array(s["c"], dtype=float))
        if k == "poly":
            return mk_shape(s)
        return ShapeGroup([shape(x) for x in s["s"]])

    def val(v, angle_iv=False):
        if isinstance(v, dict):
            a, b = v["iv"]
            return AngleInterval(N(a), N(b)) if angle_iv else Interval(N(a), N(b))
        if V.get("np_state") and isinstance(v, float) and 1e-30 < abs(v) < 1e30:
            x = np.float32(v)
            # rounding to float32 must not leave the range of valid orientations: np.float32(2 pi) > 2 pi (is_valid_orientation)
            if angle_iv and abs(float(x)) > 2 * math.pi:
                x = np.nextafter(x, np.float32(0))
            return x
        return N(v)

    def state(s, cls=None, as_list=False):
        c = getattr(st, cls or s["cls"])
        if isinstance(s["pos"], dict):
            pos = shape(s["pos"])
        else:   # a Python list is a position the writer accepts (obstacle constructors do not: only planning problems get one)
            pos = [float(x) for x in s["pos"]] if (as_list and V.get("pos_list")) else np.array(s["pos"], dtype=float)
        kw = {"time_step": s["t"], "position": pos, "orientation": val(s["ori"], True)}
        for a, v in s["vals"].items():
            kw[a] = val(v)
        if setters and c is st.CustomState:      # attributes added one by one
            cs = st.CustomState(time_step=kw.pop("time_step"))
            for a, v in kw.items():
                cs.add_attribute(a)
                cs.set_value(a, v)
            return cs
        return c(**kw)

    b = spec["benchmark"]
    sidv = V.get("sid") or {}
    sid = ScenarioID(bool(sidv.get("cooperative")), b[0], b[1], b[2], b[3], b[4],
                     sidv.get("prediction") if (sidv.get("prediction") is not None and b[5] is not None) else b[5])
    loc = None
    if spec["location"] is not None:
        L = spec["location"]
        geo = env = None
        if L["geo"] is not None:
            g = L["geo"]
            if V.get("geo_default"):
                geo = GeoTransformation()
            elif setters:
                geo = GeoTransformation()
                geo.geo_reference, geo.x_translation, geo.y_translation = g["ref"], N(g["x"]), N(g["y"])
                geo.z_rotation, geo.scaling = N(g["rot"]), N32(g["scale"])
            else:
                geo = GeoTransformation(g["ref"], N(g["x"]), N(g["y"]), N(g["rot"]), N32(g["scale"]))
        if L["env"] is not None:
            e = L["env"]
            if setters:
                env = Environment()
                env.time, env.time_of_day = Time(e["h"], e["m"], day=3, month=2, year=2020), TimeOfDay[e["tod"]]
                env.weather, env.underground = Weather[e["weather"]], Underground[e["underground"]]
            else:
                env = Environment(Time(e["h"], e["m"]), TimeOfDay[e["tod"]], Weather[e["weather"]], Underground[e["underground"]])
        if setters:
            loc = Location()
            loc.geo_name_id, loc.gps_latitude, loc.gps_longitude = L["geo_name_id"], N(L["lat"]), N(L["lon"])
            loc.geo_transformation, loc.environment = geo, env
        else:
            loc = Location(L["geo_name_id"], N(L["lat"]), N(L["lon"]), geo, env)
    tags = {Tag[t] for t in spec["tags"]}
    if setters:
        sc = Scenario(0.1, sid)
        sc.dt = N32(spec["dt"])
        sc.author, sc.tags, sc.affiliation, sc.source, sc.location = spec["author"], tags, spec["affiliation"], spec["source"], loc
    else:
        sc = Scenario(N32(spec["dt"]), sid, author=spec["author"], tags=tags, affiliation=spec["affiliation"], source=spec["source"],
                      location=loc)
    by_lib = bool(V.get("refs_by_library"))
    lanelets = []
    for la in spec["lanelets"]:
        left = np.array(la["left"], dtype=float)
        right = np.array(la["right"], dtype=float)
        if V.get("lanelet3d"):
            z = np.array(z_profile(V["lanelet3d"], len(left)), dtype=float).reshape(-1, 1)
            left, right = np.hstack([left, z]), np.hstack([right, z])
        stop = None
        if la["stop"] is not None:
            s = la["stop"]
            sargs = (np.array(s["start"], dtype=float) if s["start"] is not None else None,
                     np.array(s["end"], dtype=float) if s["end"] is not None else None, LineMarking[s["lm"]],
                     None if s["refs_none"] and not s["signs"] else set(s["signs"]),
                     None if s["refs_none"] and not s["lights"] else set(s["lights"]))
            if setters:
                stop = StopLine(None, None, LineMarking.SOLID)
                stop.start, stop.end, stop.line_marking, stop.traffic_sign_ref, stop.traffic_light_ref = sargs
            else:
                stop = StopLine(*sargs)
        pred = list(la["pred"]) + (list(la["pred"][:1]) if V.get("dup_refs") else [])
        signs, lights = (set(), set()) if by_lib else (set(la["signs"]), set(la["lights"]))
        if setters:
            ll = Lanelet(left, (left + right) / 2, right, la["id"] + 7)      # id re-assigned before the lanelet joins a network
            ll.lanelet_id = la["id"]
            for x in pred:
                ll.add_predecessor(x)
            ll.successor = list(la["succ"])
            if la["adjl"]:
                ll.adj_left, ll.adj_left_same_direction = la["adjl"][0], la["adjl"][1]
            if la["adjr"]:
                ll.adj_right, ll.adj_right_same_direction = la["adjr"][0], la["adjr"][1]
            ll.line_marking_left_vertices, ll.line_marking_right_vertices = LineMarking[la["lml"]], LineMarking[la["lmr"]]
            if stop is not None:
                ll.stop_line = stop
            ll.lanelet_type = {LaneletType[t] for t in la["types"]}
            ll.user_one_way = {RoadUser[t] for t in la["oneway"]}
            ll.user_bidirectional = {RoadUser[t] for t in la["bidir"]}
            for x in sorted(signs):
                ll.add_traffic_sign_to_lanelet(x)
            for x in sorted(lights):
                ll.add_traffic_light_to_lanelet(x)
            lanelets.append(ll)
        else:
            lanelets.append(Lanelet(
                left, (left + right) / 2, right, la["id"], pred, list(la["succ"]),
                la["adjl"][0] if la["adjl"] else None, la["adjl"][1] if la["adjl"] else None,
                la["adjr"][0] if la["adjr"] else None, la["adjr"][1] if la["adjr"] else None,
                LineMarking[la["lml"]], LineMarking[la["lmr"]], stop,
                {LaneletType[t] for t in la["types"]}, {RoadUser[t] for t in la["oneway"]}, {RoadUser[t] for t in la["bidir"]},
                signs, lights))
    if setters:
        net = LaneletNetwork()
        for ll in lanelets:
            net.add_lanelet(ll)
    else:
        net = LaneletNetwork.create_from_lanelet_list(lanelets, cleanup_ids=False)
    via_scenario = V.get("entry") == "scenario"
    later = []

    def refs(kind, oid):
        return {la["id"] for la in spec["lanelets"] if oid in la[kind]} if by_lib else set()
    for s in spec["signs"]:
        els = [TrafficSignElement(getattr(ts_mod, e["cls"])[e["name"]], list(e["vals"])) for e in s["els"]]
        pos = np.array(s["pos"], dtype=float) if s["pos"] is not None else None
        if setters:
            sign = TrafficSign(s["id"] + 7, els, set(s["first"]), None)
            sign.traffic_sign_id, sign.position, sign.virtual = s["id"], pos, s["virtual"]
        else:
            sign = TrafficSign(s["id"], els, set(s["first"]), pos, s["virtual"])
        if via_scenario:
            later.append((sign, refs("signs", s["id"])))
        else:
            net.add_traffic_sign(sign, refs("signs", s["id"]))
    for t in spec["lights"]:
        elems = [TrafficLightCycleElement(TrafficLightState[c], d) for c, d in t["cycle"]]
        pos = np.array(t["pos"], dtype=float) if t["pos"] is not None else None
        if setters:
            cyc = TrafficLightCycle()
            cyc.cycle_elements, cyc.time_offset = elems, t["offset"]
            light = TrafficLight(t["id"] + 7, pos)
            light.traffic_light_id = t["id"]
            light.traffic_light_cycle, light.active, light.direction = cyc, t["active"], TrafficLightDirection[t["dir"]]
        else:
            cyc = TrafficLightCycle(elems, t["offset"])
            light = TrafficLight(t["id"], pos, cyc, active=t["active"], direction=TrafficLightDirection[t["dir"]])
        if via_scenario:
            later.append((light, refs("lights", t["id"])))
        else:
            net.add_traffic_light(light, refs("lights", t["id"]))
    for it in spec["intersections"]:
        incs = []
        for i in it["incomings"]:
            if setters:
                inc = IntersectionIncomingElement(i["id"] + 7)
                inc.incoming_id = i["id"]
                inc.incoming_lanelets, inc.successors_right, inc.successors_straight = set(i["lanelets"]), set(i["right"]), set(i["straight"])
                inc.successors_left, inc.left_of = set(i["left"]), i["left_of"]
            else:
                inc = IntersectionIncomingElement(i["id"], set(i["lanelets"]), set(i["right"]), set(i["straight"]), set(i["left"]),
                                                  i["left_of"])
            incs.append(inc)
        if setters:
            inter = Intersection(it["id"] + 7, incs[:1], set(it["crossings"]) if it["crossings"] else None)
            inter.intersection_id, inter.incomings = it["id"], incs
        else:
            inter = Intersection(it["id"], incs, set(it["crossings"]))
        if via_scenario:
            later.append((inter, None))
        else:
            net.add_intersection(inter)
    sc.add_objects(net)
    for obj, ids in later:
        if ids is None:
            sc.add_objects(obj)
        else:
            sc.add_objects(obj, ids)
    if V.get("cleanup"):
        sc.lanelet_network.cleanup_lanelet_references()
        sc.lanelet_network.cleanup_traffic_sign_references()
        sc.lanelet_network.cleanup_traffic_light_references()
    obstacles = []
    for o in spec["static"]:
        obstacles.append(StaticObstacle(o["id"], ObstacleType[o["type"]], shape(o["shape"]), state(o["init"])))
    for o in spec["dynamic"]:
        shp = shape(o["shape"])
        if o.get("traj"):
            pred = TrajectoryPrediction(Trajectory(o["traj"][0]["t"], [state(s) for s in o["traj"]]), shp)
        else:
            pred = mk_occ(o["occ"])
        sig0 = mk_signal(o["sig0"]) if o["sig0"] else None
        series = [mk_signal(s) for s in o["series"]] if o["series"] is not None else None
        if setters:
            d = DynamicObstacle(o["id"], ObstacleType[o["type"]], shp, state(o["init"]))
            d.prediction = pred
            if sig0 is not None:
                d.initial_signal_state = sig0
            if series is not None:
                d.signal_series = series
        else:
            d = DynamicObstacle(o["id"], ObstacleType[o["type"]], shp, state(o["init"]), pred, initial_signal_state=sig0,
                                signal_series=series)
        obstacles.append(d)
    for o in spec["phantom"]:
        obstacles.append(PhantomObstacle(o["id"], mk_occ(o["occ"])))
    for o in spec["envobs"]:
        obstacles.append(EnvironmentObstacle(o["id"], ObstacleType[o["type"]], shape(o["shape"])))
    if V.get("entry") == "list":
        if obstacles:
            sc.add_objects(obstacles)
    else:
        for o in obstacles:
            sc.add_objects(o)
    pps = []
    gcls = getattr(st, V.get("goal_cls", "CustomState"))
    for p in spec["problems"]:
        goals, lan = [], {}
        for gi, g in enumerate(p["goals"]):
            kw = {"time_step": Interval(g["time"][0], g["time"][1])}
            if isinstance(g["pos"], dict):
                kw["position"] = shape(g["pos"])
            elif g["pos"] == "lanelets":
                polys = [net.find_lanelet_by_id(i).polygon for i in g["lanelets"]]
                kw["position"] = ShapeGroup(polys)
                lan[gi] = list(g["lanelets"])
            if g["ori"] is not None:
                kw["orientation"] = AngleInterval(N(g["ori"][0]), N(g["ori"][1]))
            if g["vel"] is not None:
                kw["velocity"] = Interval(N(g["vel"][0]), N(g["vel"][1]))
            goals.append(gcls(**kw))
        if setters:
            pp = PlanningProblem(p["id"], state(p["init"], as_list=True), GoalRegion([goals[0]]))
            gr = GoalRegion([goals[0]], lan if lan else None)      # lanelets_of_goal_position: the setter only warns once set
            gr.state_list = goals
            pp.goal = gr
        else:
            pp = PlanningProblem(p["id"], state(p["init"], as_list=True), GoalRegion(goals, lan if lan else None))
        pps.append(pp)
    if setters:
        pp_set = PlanningProblemSet()
        for pp in pps:
            pp_set.add_planning_problem(pp)
    else:
        pp_set = PlanningProblemSet(pps)
    kw = {"decimal_precision": spec["precision"]}
    return sc, pp_set, kw
