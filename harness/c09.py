"""C09 — object ids in a scenario stay unique and the id pool stays exact.
model: lean/CRModel/IdPool.lean; theorems: lean/CRProps/C09.lean.

A case is {"universe": [object specs], "ops": [operations over universe indices]}.  The implementation is run
step by step on the real Scenario; after every step (a) the outcome and the observable state are recorded for the
lock-step comparison with the Lean model and (b) the oracle evaluates the property sentence on the real objects.
"""
import copy
import glob
import json
import os

from common import CORPUS_DIR, call, shrink_list

RULE = ("a universe of 12-20 objects (lanelets with sign/light references, traffic signs, traffic lights, intersections with "
        "0-3 incoming elements (each with 0-2 incoming lanelets / straight successors taken mostly from the universe's lanelets, optional crossings), obstacles of the four roles with or without lanelet assignment, 1-3 lanelet networks with own members built by add_* or by the alternative constructors; optional constructor arguments per harness/c09_dimensions.py; ids partly numpy.int64) whose ids are drawn from a "
        "pool of 6-12 numbers so that they collide; a history of up to 40 (thorough: up to 400) operations chosen online from "
        "add_objects (single / list / LaneletNetwork / wrong type), remove_obstacle|lanelet|traffic_sign|traffic_light|"
        "intersection (single and list forms), replace_lanelet_network, erase_lanelet_network, remove_hanging_lanelet_members, generate_object_id, empty-list forms, setters on lanelet references (also of contained lanelets), id re-assignment of objects outside the scenario, interleaved read-only queries and neutral operations, biased towards removing contained "
        "objects and adding removed ones again; a case is one (universe, history); non-trivial = every case (each has >= 1 add "
        "and is checked after every step); distinct = distinct canonical JSON")
ASSUMPTIONS = [
    "remove_obstacle looks an obstacle up by id: steps that hand it an obstacle whose id is held by a contained obstacle of "
    "ANOTHER role are skipped (the code then reads role-specific attributes of the argument and raises AttributeError "
    "before anything changes; counted as excluded) — every other removal argument, contained or not, is exercised",
    "static / dynamic obstacles carry lanelet assignments (initial_shape/center_lanelet_ids) in part of the cases; add_objects then "
    "registers them on their lanelets AFTER storing them and raises AttributeError for a lanelet that does not exist (modelled: "
    "Obj.obstacleOn; oracle: the obstacle must be in, its id reserved, the pool exact — the exception itself is property C07's "
    "business); obstacles have no prediction",
    "ids of objects are re-assigned (setters) only while the object is outside the scenario and outside every network; re-assigning "
    "the id of a contained object, or editing the scenario's own LaneletNetwork through network-level add_* / remove_*, bypasses the "
    "id pool by design and is outside the property's quantifier (steps of that kind are skipped)",
    "interleaved read-only queries and neutral operations (assign_obstacles_to_lanelets, translate_rotate) may raise for reasons of "
    "their own; only the invariant (ids unique, pool exact) is judged after them",
    "a lanelet object is member of at most one network at a time (steps that would alias one mutable Lanelet into two "
    "networks are skipped): the model passes lanelets by value",
]
TRUSTED = ["Scenario._id_set / _id_counter are read (never written) by the harness for the comparison and for the exactness "
           "clause; everything else is observed through public accessors"]
REQUIRED_BUCKETS = [
    "op:query", "op:neutral", "op:mutate", "op:set_refs", "set_refs-on-contained", "op:erase", "op:rm_hanging", "empty-list-form",
    "add-fails-halfway", "numpy-id", "network-from-alt-constructor", "obstacle-with-lanelet-assignment",
    "op:add", "op:add_list", "op:add[network]", "op:add_invalid", "op:rm_obstacle", "op:rm_obstacle_list", "op:rm_lanelet",
    "op:rm_lanelet_list", "op:rm_sign", "op:rm_sign_list", "op:rm_light", "op:rm_light_list", "op:rm_inter",
    "op:rm_inter_list", "op:replace_net", "op:gen", "add-rejected", "add-rejected[inter]", "add-rejected[network]",
    "add[network]-over-nonempty", "list-add-partial", "re-add-after-remove", "re-add-after-list-remove[inter]",
    "hanging-member-removed", "rm-not-contained", "gen-after-remove", "readd-checked-on-copy", "size>=6", "add-frame-checked", "lanelets-of-an-incoming-all-removed",
]
WORKERS = {"quick": 1, "thorough": 8}
# translator tie: Gen.SrcC09 (regenerated from the working tree's scenario.py on every run by harness/translate/src_c09.py) = hand model
EXTRA_MODULES = ["CRProps.T09"]

OBST = ("static", "dynamic", "env", "phantom")
NETKINDS = ("lanelet", "sign", "light", "inter")


# ------------------------------------------------------------------------------------------------ building objects

def build(spec, built):
    """Build one universe object from its spec with the repo's own constructors."""
    import numpy as np
    from commonroad.geometry.shape import Rectangle
    from commonroad.scenario.intersection import Intersection, IntersectionIncomingElement
    from commonroad.scenario.lanelet import Lanelet, LaneletNetwork
    from commonroad.scenario.obstacle import (DynamicObstacle, EnvironmentObstacle, ObstacleType, PhantomObstacle,
                                              StaticObstacle)
    from commonroad.scenario.state import InitialState
    from commonroad.scenario.traffic_light import TrafficLight
    from commonroad.scenario.traffic_sign import TrafficSign, TrafficSignElement, TrafficSignIDGermany
    from commonroad.common.common_lanelet import LineMarking, StopLine
    k, i = spec["k"], spec.get("id")
    npi = (lambda v: np.int64(v)) if spec.get("np") else (lambda v: v)     # numpy integer ids where the code admits them
    if k == "lanelet":
        x = float(i % 1000)
        sl = spec.get("stop_line")
        stop = None if sl is None else StopLine(np.array([x, 0.0]), np.array([x, 1.0]), LineMarking.SOLID,
                                                traffic_sign_ref=set(sl["signs"]), traffic_light_ref=set(sl["lights"]))
        ts, tl = spec["signs"], spec["lights"]
        return Lanelet(np.array([[x, 1.0], [x + 1, 1.0]]), np.array([[x, 0.5], [x + 1, 0.5]]),
                       np.array([[x, 0.0], [x + 1, 0.0]]), npi(i), predecessor=spec.get("pred"), successor=spec.get("succ"),
                       adjacent_left=spec.get("adj_left"), adjacent_left_same_direction=None if spec.get("adj_left") is None else True,
                       stop_line=stop, traffic_signs=None if (not ts and spec.get("none_refs")) else set(ts),
                       traffic_lights=None if (not tl and spec.get("none_refs")) else set(tl))
    if k == "sign":
        return TrafficSign(i, [TrafficSignElement(TrafficSignIDGermany.MAX_SPEED, ["10"])], set(spec.get("first", [])),
                           np.array([0.0, 0.0]), virtual=bool(spec.get("virtual", False)))
    if k == "light":
        return TrafficLight(i, np.array([0.0, 0.0]), active=bool(spec.get("active", True)))
    if k == "inter":
        n = len(spec["incs"])
        lan = spec.get("inc_lanelets") or [[] for _ in range(n)]
        suc = spec.get("inc_succ") or [[] for _ in range(n)]
        rig = spec.get("inc_right") or [[] for _ in range(n)]
        lef = spec.get("inc_left") or [[] for _ in range(n)]
        lof = spec.get("inc_left_of") or [None for _ in range(n)]
        cr = spec.get("crossings", [])
        return Intersection(npi(i), [IntersectionIncomingElement(npi(j), incoming_lanelets=set(a) if a or not spec.get("none_refs") else None,
                                                                 successors_right=set(c), successors_straight=set(b),
                                                                 successors_left=set(d), left_of=e)
                                     for j, a, b, c, d, e in zip(spec["incs"], lan, suc, rig, lef, lof)],
                            crossings=None if (not cr and spec.get("none_refs")) else set(cr))
    if k in ("static", "dynamic"):
        on = None if spec.get("on") is None else set(spec["on"])
        ce = None if spec.get("center") is None else set(spec["center"])
        st = InitialState(position=np.array([0.0, 0.0]), orientation=0.0, velocity=0.0, time_step=spec.get("t0", 0))
        if k == "static":
            return StaticObstacle(i, ObstacleType.PARKED_VEHICLE, Rectangle(2, 1), st, initial_center_lanelet_ids=ce,
                                  initial_shape_lanelet_ids=on)
        return DynamicObstacle(i, ObstacleType.CAR, Rectangle(2, 1), st, initial_center_lanelet_ids=ce,
                               initial_shape_lanelet_ids=on)
    if k == "env":
        return EnvironmentObstacle(i, ObstacleType.BUILDING, Rectangle(2, 1))
    if k == "phantom":
        return PhantomObstacle(i)
    if k == "network":
        n = LaneletNetwork()
        for m in spec["members"]:
            o = built[m]
            mk = built_kind(o)
            if mk == "lanelet":
                n.add_lanelet(o, rtree=not spec.get("no_rtree", False))
            elif mk == "sign":
                n.add_traffic_sign(o, set())
            elif mk == "light":
                n.add_traffic_light(o, set())
            elif mk == "inter":
                n.add_intersection(o)
        ctor = spec.get("ctor", "plain")        # alternative constructors: they copy their input
        if ctor == "from_list":
            return LaneletNetwork.create_from_lanelet_list(n.lanelets, cleanup_ids=bool(spec.get("cleanup_ids", True)))
        if ctor == "from_network":
            try:    # raises for a lanelet that refers to a sign / light the source network does not have (dangling
                    # references: property C10's subject) — then the plain network is used
                return LaneletNetwork.create_from_lanelet_network(n, cleanup_ids=bool(spec.get("cleanup_ids", True)))
            except (AssertionError, AttributeError, KeyError):
                return n
        return n
    raise ValueError(k)


def built_kind(o):
    from commonroad.scenario.intersection import Intersection
    from commonroad.scenario.lanelet import Lanelet, LaneletNetwork
    from commonroad.scenario.obstacle import DynamicObstacle, EnvironmentObstacle, PhantomObstacle, StaticObstacle
    from commonroad.scenario.traffic_light import TrafficLight
    from commonroad.scenario.traffic_sign import TrafficSign
    for cls, k in ((Lanelet, "lanelet"), (TrafficSign, "sign"), (TrafficLight, "light"), (Intersection, "inter"),
                   (StaticObstacle, "static"), (DynamicObstacle, "dynamic"), (EnvironmentObstacle, "env"),
                   (PhantomObstacle, "phantom"), (LaneletNetwork, "network")):
        if isinstance(o, cls):
            return k
    return "invalid"


def ids_of(o):
    """The ids an object brings into a scenario (from the object's public attributes)."""
    k = built_kind(o)
    if k == "lanelet":
        return [int(o.lanelet_id)]
    if k == "sign":
        return [int(o.traffic_sign_id)]
    if k == "light":
        return [int(o.traffic_light_id)]
    if k == "inter":
        return [int(o.intersection_id)] + [int(inc.incoming_id) for inc in o.incomings]
    if k in OBST:
        return [int(o.obstacle_id)]
    if k == "network":
        out = []
        for m in o.lanelets + o.traffic_signs + o.traffic_lights + o.intersections:
            out += ids_of(m)
        return out
    return []


def contained(sc):
    """Contained objects by kind, through the public accessors only."""
    n = sc.lanelet_network
    return {"lanelet": n.lanelets, "sign": n.traffic_signs, "light": n.traffic_lights, "inter": n.intersections,
            "static": sc.static_obstacles, "dynamic": sc.dynamic_obstacles, "env": sc.environment_obstacle,
            "phantom": sc.phantom_obstacle}


def all_objs(cont):
    return [o for k in cont for o in cont[k]]


def all_ids(cont):
    return [i for o in all_objs(cont) for i in ids_of(o)]


def ser(o):
    """Current value of an object as the model sees it."""
    k = built_kind(o)
    if k == "lanelet":
        return {"k": k, "id": int(o.lanelet_id), "signs": sorted(int(x) for x in o.traffic_signs),
                "lights": sorted(int(x) for x in o.traffic_lights)}
    if k == "inter":
        return {"k": k, "id": int(o.intersection_id), "incs": [int(inc.incoming_id) for inc in o.incomings]}
    if k == "network":
        return {"k": k, "lanelets": [ser(x) for x in o.lanelets], "signs": [int(x.traffic_sign_id) for x in o.traffic_signs],
                "lights": [int(x.traffic_light_id) for x in o.traffic_lights], "inters": [ser(x) for x in o.intersections]}
    if k == "invalid":
        return {"k": k}
    if k in ("static", "dynamic") and o.initial_shape_lanelet_ids is not None:
        # the lanelet assignment decides whether add_objects fails half-way (AttributeError after the obstacle is in)
        return {"k": k + "_on", "id": ids_of(o)[0], "on": sorted(int(x) for x in o.initial_shape_lanelet_ids)}
    return {"k": k, "id": ids_of(o)[0]}


def unresolved(o, lanelet_ids):
    """add_objects of this obstacle raises AttributeError after storing it: it is assigned to a lanelet that does not
    exist while the network has lanelets (registration on lanelets: property C07's business, here only a failing step)."""
    return (built_kind(o) in ("static", "dynamic") and o.initial_shape_lanelet_ids is not None and len(lanelet_ids) > 0
            and any(int(x) not in lanelet_ids for x in o.initial_shape_lanelet_ids))


def observe(sc):
    """Canonical observable state for the lock-step comparison (same shape as Driver/C09.stJ, lists sorted)."""
    c = contained(sc)
    return {"idset": sorted(int(x) for x in sc._id_set), "counter": None if sc._id_counter is None else int(sc._id_counter),
            "lanelets": sorted([int(o.lanelet_id), sorted(int(x) for x in o.traffic_signs), sorted(int(x) for x in o.traffic_lights)]
                               for o in c["lanelet"]),
            "signs": sorted(int(o.traffic_sign_id) for o in c["sign"]), "lights": sorted(int(o.traffic_light_id) for o in c["light"]),
            "inters": sorted([int(o.intersection_id), [int(i.incoming_id) for i in o.incomings]] for o in c["inter"]),
            "static": sorted(o.obstacle_id for o in c["static"]), "dynamic": sorted(o.obstacle_id for o in c["dynamic"]),
            "env": sorted(o.obstacle_id for o in c["env"]), "phantom": sorted(o.obstacle_id for o in c["phantom"])}


def canon_model_state(st):
    return {"idset": sorted(st["idset"]), "counter": st["counter"],
            "lanelets": sorted([l[0], sorted(l[1]), sorted(l[2])] for l in st["lanelets"]),
            "signs": sorted(st["signs"]), "lights": sorted(st["lights"]), "inters": sorted(st["inters"]),
            "static": sorted(st["static"]), "dynamic": sorted(st["dynamic"]), "env": sorted(st["env"]),
            "phantom": sorted(st["phantom"])}


# ------------------------------------------------------------------------------------------------ universe generation

def lanelet_refs(r, incs, lanelet_ids, pid):
    """References of an intersection to lanelets: incoming lanelets / straight successors per incoming element, crossings —
    mostly ids of lanelets of the universe (so that removing lanelets can empty them), sometimes arbitrary pool ids."""
    def some(p_empty):
        if r.random() < p_empty or not lanelet_ids:
            return []
        return sorted(set(r.choice(lanelet_ids) if r.random() < 0.85 else pid() for _ in range(r.choice([1, 1, 2]))))
    return {"inc_lanelets": [some(0.35) for _ in incs], "inc_succ": [some(0.6) for _ in incs], "crossings": some(0.7)}


def gen_universe(r):
    pool = list(range(r.choice([6, 7, 8, 10, 12])))
    if r.random() < 0.3:
        pool[-1] = r.choice([0, 57, 10 ** 6, 2 ** 40 + 1])
    pid = lambda: r.choice(pool)  # noqa: E731
    sign_ids = [pid() for _ in range(r.randint(2, 3))]
    light_ids = [pid() for _ in range(r.randint(1, 3))]

    def refs(own):  # references of a lanelet: mostly to signs / lights that exist in the universe
        return sorted(set(r.choice(own) if r.random() < 0.7 else pid() for _ in range(r.choice([0, 0, 1, 1, 2, 3]))))

    uni = []
    for _ in range(r.randint(3, 5)):
        uni.append({"k": "lanelet", "id": pid(), "signs": refs(sign_ids), "lights": refs(light_ids)})
    for i in sign_ids:
        uni.append({"k": "sign", "id": i})
    for i in light_ids:
        uni.append({"k": "light", "id": i})
    for _ in range(r.randint(2, 3)):
        incs = [pid() for _ in range(r.choice([0, 1, 1, 2, 2, 3]))]
        if r.random() < 0.75:  # mostly well-formed (distinct) incoming ids
            incs = list(dict.fromkeys(incs))
        uni.append({"k": "inter", "id": pid(), "incs": incs, **lanelet_refs(r, incs, [u["id"] for u in uni if u["k"] == "lanelet"], pid)})
    for k in OBST:
        for _ in range(r.choice([1, 1, 2])):
            uni.append({"k": k, "id": pid()})
    # networks with their own members (own lanelet objects; ids mostly distinct inside one network)
    for _ in range(r.choice([1, 2, 2, 3])):
        members = []
        ids = pool[:]
        r.shuffle(ids)
        clean = r.random() < 0.8
        take = (lambda: ids.pop() if ids else pid()) if clean else pid
        for _ in range(r.choice([0, 1, 2, 2, 3])):
            uni.append({"k": "lanelet", "id": take(), "signs": refs(sign_ids), "lights": refs(light_ids), "owned": True})
            members.append(len(uni) - 1)
        for k, cnt in (("sign", r.choice([0, 1, 1, 2])), ("light", r.choice([0, 0, 1])), ("inter", r.choice([0, 0, 1]))):
            for _ in range(cnt):
                if k == "inter":
                    incs = [take() for _ in range(r.choice([0, 1, 2]))]
                    uni.append({"k": k, "id": take(), "incs": incs,
                                **lanelet_refs(r, incs, [uni[m]["id"] for m in members if uni[m]["k"] == "lanelet"], pid)})
                else:
                    uni.append({"k": k, "id": take()})
                members.append(len(uni) - 1)
        uni.append({"k": "network", "members": members})
    return decorate(r, uni, pid)


def decorate(r, uni, pid):
    """Optional constructor arguments and attributes (DIMENSIONS): each present / absent / empty with some probability."""
    lan_ids = [u["id"] for u in uni if u["k"] == "lanelet"] or [0]
    some = lambda src, p_empty=0.5: ([] if r.random() < p_empty else  # noqa: E731
                                     sorted(set(r.choice(src) if r.random() < 0.8 else pid() for _ in range(r.choice([1, 1, 2])))))
    for u in uni:
        k = u["k"]
        if k == "lanelet":
            if r.random() < 0.15:
                u["np"] = True
            if r.random() < 0.3:
                u["stop_line"] = {"signs": some([x["id"] for x in uni if x["k"] == "sign"] or [0]),
                                  "lights": some([x["id"] for x in uni if x["k"] == "light"] or [0])}
            if r.random() < 0.3:
                u["pred"], u["succ"] = some(lan_ids), some(lan_ids)
            if r.random() < 0.2:
                u["adj_left"] = r.choice(lan_ids)
            if r.random() < 0.2:
                u["none_refs"] = True
        elif k == "sign":
            u["first"] = some(lan_ids, 0.6)
            u["virtual"] = r.random() < 0.2
        elif k == "light":
            u["active"] = r.random() < 0.8
        elif k == "inter":
            n = len(u["incs"])
            u["inc_right"] = [some(lan_ids, 0.7) for _ in range(n)]
            u["inc_left"] = [some(lan_ids, 0.7) for _ in range(n)]
            u["inc_left_of"] = [r.choice(u["incs"]) if r.random() < 0.2 else None for _ in range(n)]
            if r.random() < 0.15:
                u["np"] = True
            if r.random() < 0.15:
                u["none_refs"] = True
        elif k in ("static", "dynamic"):
            if r.random() < 0.4:      # lanelet assignment: mostly to lanelets of the universe (may or may not be contained)
                u["on"] = some(lan_ids, 0.2)
            if r.random() < 0.25:
                u["center"] = some(lan_ids, 0.2)
            if r.random() < 0.2:
                u["t0"] = r.choice([0, 3])
        elif k == "network":
            if r.random() < 0.15:
                u["no_rtree"] = True
            c = r.random()
            if c < 0.12:
                u["ctor"], u["cleanup_ids"] = "from_network", r.random() < 0.6
            elif c < 0.2 and all(uni[m]["k"] == "lanelet" for m in u["members"]):
                u["ctor"], u["cleanup_ids"] = "from_list", r.random() < 0.6
    return uni


def build_universe(uni):
    built = []
    for spec in uni:
        built.append(build(spec, built))
    return built


# ------------------------------------------------------------------------------------------------ one step on the real code

class Sink:
    """Stand-in for Ctx when only the oracle is wanted (shrinking)."""

    def __init__(self):
        self.failures, self.excluded, self.hist = [], 0, {}

    def fail(self, key, what, case, detail=None):
        self.failures.append((key, what))

    def tag(self, *t):
        for x in t:
            self.hist[x] = self.hist.get(x, 0) + 1


def snapshot(sc):
    c = contained(sc)
    return {"cont": c, "ident": {k: [id(o) for o in v] for k, v in c.items()}, "ids": all_ids(c), "idset": set(sc._id_set),
            "net": sc.lanelet_network}


def wf_removal(kind, objs, snap):
    """remove_obstacle looks the obstacle up by id: the holder of the id (if any) has to be an obstacle of the same role,
    otherwise the code reads role-specific attributes of the argument (AttributeError before anything changes — not an id
    matter).  Every other removal argument is admissible, contained or not."""
    if kind != "obstacle":
        return True
    for o in objs:
        role = built_kind(o)
        if any(c.obstacle_id == o.obstacle_id for r2 in OBST if r2 != role for c in snap["cont"][r2]):
            return False
    return True


class Run:
    """Executes a history on a fresh Scenario; records model ops + observations; evaluates the oracle."""

    def __init__(self, ctx, uni, case_ref):
        from commonroad.scenario.scenario import Scenario, ScenarioID
        self.ctx = ctx
        self.uni = uni
        self.objs = build_universe(uni)
        self.kinds = [built_kind(o) for o in self.objs]
        self.nets = [o for o, k in zip(self.objs, self.kinds) if k == "network"]
        self.sc = Scenario(0.1, ScenarioID())
        self.case_ref = case_ref          # dict that will hold the executed ops (for failure reports)
        self.model_ops, self.impl = [], []
        self.generated = set()            # ids returned by generate_object_id so far
        self.ever_removed = set()         # id() of objects that left the scenario at some step
        self.last_vanished = []           # universe indices that left at the previous step
        self.last_vanished_by = None
        self.executed = []
        self.dead = False                 # an oracle failure was reported: later steps would only repeat it

    # -- operations that the id bookkeeping must not care about (queries, geometry, edits of objects outside the scenario)
    def step_aux(self, op, before):
        import numpy as np
        ctx, sc = self.ctx, self.sc
        name = op["op"]
        cid = {id(x) for x in all_objs(before["cont"])}
        mop = None
        if name == "query":
            k = op["arg"]
            q = {"obstacle_by_id": lambda: sc.obstacle_by_id(k), "by_role": lambda: sc.obstacles_by_role_and_type(),
                 "obstacles": lambda: [sc.obstacles, sc.static_obstacles, sc.dynamic_obstacles, sc.environment_obstacle,
                                       sc.phantom_obstacle],
                 "str": lambda: str(sc), "find": lambda: [sc.lanelet_network.find_lanelet_by_id(k),
                                                          sc.lanelet_network.find_traffic_sign_by_id(k),
                                                          sc.lanelet_network.find_traffic_light_by_id(k),
                                                          sc.lanelet_network.find_intersection_by_id(k)],
                 "inc_map": lambda: sc.lanelet_network.map_inc_lanelets_to_intersections,
                 "occupancies": lambda: sc.occupancies_at_time_step(0), "deepcopy": lambda: copy.deepcopy(sc),
                 "eq": lambda: sc == copy.deepcopy(sc), "is_used": lambda: sc._is_object_id_used(k),
                 "referenced": lambda: [sc.lanelet_network.get_traffic_sign_referenced_lanelets(k),
                                        sc.lanelet_network.get_traffic_lights_referenced_lanelets(k)],
                 "proximity": lambda: sc.lanelet_network.lanelets_in_proximity(np.array([float(k), 0.5]), 2.0)}[op["q"]]
            call(q)
            site = f"query[{op['q']}]"
            ctx.tag("op:query")
        elif name == "neutral":
            f = {"assign": lambda: sc.assign_obstacles_to_lanelets(), "assign_center": lambda: sc.assign_obstacles_to_lanelets(use_center_only=True),
                 "assign_some": lambda: sc.assign_obstacles_to_lanelets(time_steps=[0], obstacle_ids={op["arg"]}),
                 "translate": lambda: sc.translate_rotate(np.array([1.0, -2.0]), 0.3)}[op["q"]]
            call(f)
            site = f"neutral[{op['q']}]"
            ctx.tag("op:neutral")
        elif name == "mutate":
            o, kind = self.objs[op["o"]], self.kinds[op["o"]]
            member = kind != "network" and any(x is o for n in self.nets for x in n.lanelets + n.traffic_signs + n.traffic_lights +
                                               n.intersections)
            if id(o) in cid or member or kind == "network":
                ctx.tag("skipped-mutation-of-contained")     # ids of contained objects are not re-assigned (ASSUMPTIONS)
                return False
            what, v = op["what"], op.get("v")
            if what == "id":
                attr = {"lanelet": "lanelet_id", "sign": "traffic_sign_id", "light": "traffic_light_id",
                        "inter": "intersection_id"}.get(kind, "obstacle_id")
                if kind == "phantom":
                    return False
                call(setattr, o, attr, v)            # obstacle ids are immutable: the setter only warns
            elif kind == "inter" and what == "inc_id" and o.incomings:
                call(setattr, o.incomings[op["j"] % len(o.incomings)], "incoming_id", v)
            elif kind == "inter" and what == "incomings_same":
                o.incomings = o.incomings                 # the same list handed back to the setter
            elif kind == "inter" and what == "incomings_rev":
                o.incomings = list(reversed(o.incomings))
            elif kind == "inter" and what == "incomings_drop" and o.incomings:
                o.incomings = o.incomings[:-1]
            else:
                return False
            site = f"mutate[{kind}.{what}]"
            ctx.tag("op:mutate")
        else:  # set_refs: sign / light references of a lanelet, in or outside the scenario
            o = self.objs[op["o"]]
            mode = op["mode"]
            if mode == "assign":
                o.traffic_signs = set(op["signs"])
                o.traffic_lights = set(op["lights"])
            elif mode == "same":
                o.traffic_signs = o.traffic_signs
                o.traffic_lights = o.traffic_lights
            else:
                for k in op["signs"]:
                    o.add_traffic_sign_to_lanelet(k)
                for k in op["lights"]:
                    o.add_traffic_light_to_lanelet(k)
            site = "lanelet.traffic_signs/lights="
            ctx.tag("op:set_refs")
            if id(o) in cid:
                ctx.tag("set_refs-on-contained")
                v = ser(o)
                mop = {"op": "set_refs", "id": v["id"], "signs": v["signs"], "lights": v["lights"]}
        self.executed.append(op)
        after = snapshot(sc)
        if mop is not None:
            self.model_ops.append(mop)
            self.impl.append({"out": "ok", "st": observe(sc)})
        nfail = len(ctx.failures)
        self.oracle_invariant(site, after, ("ok", None))
        if len(ctx.failures) > nfail:
            self.dead = True
        return True

    # -- helpers
    def fail(self, site, obs, what):
        self.ctx.fail(f"C09/{site}/{obs}", what, {"universe": self.uni, "ops": list(self.executed)})

    def aliasing(self, op):
        """Steps that would put one mutable Lanelet object into two networks (harness limitation, not the property)."""
        cur = self.sc.lanelet_network
        name = op["op"]
        if name in ("add", "add_list"):
            for i in ([op["o"]] if name == "add" else op["os"]):
                o, k = self.objs[i], self.kinds[i]
                if k == "lanelet" and any(n is not cur and n.find_lanelet_by_id(o.lanelet_id) is o for n in self.nets):
                    return True
                if k == "network" and o is not cur and any(cur.find_lanelet_by_id(x.lanelet_id) is x for x in o.lanelets):
                    return True
                if k == "network" and name == "add_list":
                    return True
        if name == "replace_net":
            o = self.objs[op["o"]]
            if o is cur or any(cur.find_lanelet_by_id(x.lanelet_id) is x for x in o.lanelets):
                return True
        return False

    def step(self, op):
        """Returns False if the step was skipped."""
        ctx, sc = self.ctx, self.sc
        name = op["op"]
        if self.aliasing(op):
            ctx.tag("skipped-alias")
            return False
        before = snapshot(sc)
        if name in ("query", "neutral", "mutate", "set_refs"):
            return self.step_aux(op, before)
        refs = op.get("refs")
        lanelet_ids = None if refs is None else set(refs)
        mrefs = [] if refs is None else sorted(set(refs))
        # ---- resolve arguments, admissibility, model op
        if name == "add":
            o = self.objs[op["o"]]
            kind = self.kinds[op["o"]]
            f = lambda: sc.add_objects(o, lanelet_ids) if refs is not None else sc.add_objects(o)  # noqa: E731
            mop = {"op": "add", "obj": ser(o), "refs": mrefs}
            site = f"add_objects[{kind}]"
            ctx.tag("op:add[network]" if kind == "network" else "op:add")
        elif name == "add_invalid":
            o, kind = "not a scenario object", "invalid"
            f = lambda: sc.add_objects(o)  # noqa: E731
            mop = {"op": "add", "obj": {"k": "invalid"}, "refs": []}
            site = "add_objects[wrong-type]"
            ctx.tag("op:add_invalid")
        elif name == "add_list":
            os_ = [self.objs[i] for i in op["os"]]
            f = lambda: sc.add_objects(os_, lanelet_ids) if refs is not None else sc.add_objects(os_)  # noqa: E731
            mop = {"op": "add_list", "objs": [ser(x) for x in os_], "refs": mrefs}
            site = "add_objects[list]"
            ctx.tag("op:add_list")
        elif name == "gen":
            f = sc.generate_object_id
            mop = {"op": "gen"}
            site = "generate_object_id"
            ctx.tag("op:gen")
        elif name == "erase":
            f = sc.erase_lanelet_network
            mop = {"op": "erase"}
            site = "erase_lanelet_network"
            ctx.tag("op:erase")
        elif name == "rm_hanging":
            args = [self.objs[i] for i in op["os"]]
            f = lambda: sc.remove_hanging_lanelet_members(args)  # noqa: E731
            mop = {"op": "rm_hanging", "ls": [ser(x) for x in args]}
            site = "remove_hanging_lanelet_members"
            ctx.tag("op:rm_hanging")
        elif name == "replace_net":
            o = self.objs[op["o"]]
            f = lambda: sc.replace_lanelet_network(o)  # noqa: E731
            mop = {"op": "replace_net", "net": ser(o)}
            site = "replace_lanelet_network"
            ctx.tag("op:replace_net")
        else:  # removals
            base, lst = (name[:-5], True) if name.endswith("_list") else (name, False)
            args = [self.objs[i] for i in (op["os"] if lst else [op["o"]])]
            kind = {"rm_obstacle": "obstacle", "rm_lanelet": "lanelet", "rm_sign": "sign", "rm_light": "light",
                    "rm_inter": "inter"}[base]
            if not wf_removal(kind, args, before):
                ctx.tag("skipped-not-wf")
                ctx.excluded += 1
                return False
            arg = args if lst else args[0]
            if base == "rm_obstacle":
                f = lambda: sc.remove_obstacle(arg)  # noqa: E731
                mop = {"op": name, "ids": [ids_of(x)[0] for x in args]} if lst else {"op": name, "id": ids_of(arg)[0]}
            elif base == "rm_lanelet":
                f = lambda: sc.remove_lanelet(arg, op["refd"])  # noqa: E731
                mop = ({"op": name, "ls": [ser(x) for x in args], "refd": op["refd"]} if lst
                       else {"op": name, "l": ser(arg), "refd": op["refd"]})
            elif base == "rm_sign":
                f = lambda: sc.remove_traffic_sign(arg)  # noqa: E731
                mop = {"op": name, "ids": [ids_of(x)[0] for x in args]} if lst else {"op": name, "id": ids_of(arg)[0]}
            elif base == "rm_light":
                f = lambda: sc.remove_traffic_light(arg)  # noqa: E731
                mop = {"op": name, "ids": [ids_of(x)[0] for x in args]} if lst else {"op": name, "id": ids_of(arg)[0]}
            else:
                f = lambda: sc.remove_intersection(arg)  # noqa: E731
                mop = {"op": name, "is": [ser(x) for x in args]} if lst else {"op": name, "i": ser(arg)}
            site = {"rm_obstacle": "remove_obstacle", "rm_lanelet": "remove_lanelet", "rm_sign": "remove_traffic_sign",
                    "rm_light": "remove_traffic_light", "rm_inter": "remove_intersection"}[base] + ("[list]" if lst else "")
            ctx.tag("op:" + name)
        # ---- does this step remove every incoming lanelet of an incoming element of a contained intersection?
        gone_lanelets = None
        if (name.startswith("rm_lanelet") and op["refd"]) or name == "rm_hanging":
            gone_lanelets = {x.lanelet_id for x in args}
        elif name in ("replace_net", "erase"):
            gone_lanelets = {x.lanelet_id for x in before["cont"]["lanelet"]}
        if gone_lanelets is not None and any(len(inc.incoming_lanelets) > 0 and set(inc.incoming_lanelets) <= gone_lanelets
                                             for it in before["cont"]["inter"] for inc in it.incomings):
            ctx.tag("lanelets-of-an-incoming-all-removed")
        if name.endswith("_list") and not op["os"] or (name == "rm_hanging" and not op["os"]):
            ctx.tag("empty-list-form")
        if name == "add":
            spec = self.uni[op["o"]]
            if spec.get("np"):
                ctx.tag("numpy-id")
            if spec.get("ctor", "plain") != "plain":
                ctx.tag("network-from-alt-constructor")
            if kind in ("static", "dynamic") and o.initial_shape_lanelet_ids is not None:
                ctx.tag("obstacle-with-lanelet-assignment")
        # ---- run on the real code
        self.executed.append(op)
        res = call(f)
        out = "ok" if res[0] == "ok" else {"err": res[1]}
        if name == "gen" and res[0] == "ok":
            out = {"id": int(res[1])}
        after = snapshot(sc)
        self.model_ops.append(mop)
        self.impl.append({"out": out, "st": observe(sc)})
        # ---- oracle: the property sentence on the real objects
        nfail = len(ctx.failures)
        self.oracle_invariant(site, after, res)
        if name in ("add", "add_invalid"):
            self.oracle_add(site, kind, o, res, before, after)
        elif name == "add_list":
            self.oracle_add_list(site, os_, res, before, after)
        elif name == "gen":
            self.oracle_gen(site, res, before, after)
        elif name == "replace_net":
            self.oracle_replace(site, o, res, before, after)
            self.oracle_removed(site, before, after, op)
        elif name in ("erase", "rm_hanging"):
            if res[0] != "ok":
                self.fail(site, f"raises-{res[1]}", f"{site} raises {res[2]}")
            elif name == "erase" and any(after["cont"][k] for k in NETKINDS):
                self.fail(site, "network-not-empty", f"{site} returned but the network still has members (ids {sorted(after['ids'])})")
            self.oracle_removed(site, before, after, op)
        else:
            self.oracle_removal(site, kind, args, res, before, after, op)
        if len(ctx.failures) > nfail:
            self.dead = True
        return True

    # -- clause 1 + exactness of the pool, after every step
    def oracle_invariant(self, site, after, res):
        ids = after["ids"]
        if res[0] != "ok":
            site = site + "/after-" + res[2].split(":")[0]
        if len(set(ids)) != len(ids):
            dup = sorted(i for i in set(ids) if ids.count(i) > 1)
            self.fail(site, "two-contained-objects-share-an-id", f"after {site}: contained objects share id(s) {dup}")
        leaked = sorted(after["idset"] - set(ids))
        missing = sorted(set(ids) - after["idset"])
        if leaked:
            self.fail(site, "id-pool-not-exact/reserved-but-unused",
                      f"after {site}: id(s) {leaked} are reserved in the id pool but no contained object has them")
        if missing:
            self.fail(site, "id-pool-not-exact/used-but-free",
                      f"after {site}: id(s) {missing} of contained objects are not reserved in the id pool")

    @staticmethod
    def unchanged(before, after):
        return before["ident"] == after["ident"] and before["idset"] == after["idset"] and before["net"] is after["net"]

    def is_contained(self, o, kind, snap):
        if kind == "network":
            return snap["net"] is o
        return id(o) in snap["ident"].get(kind, [])

    # -- clause 2 (+ clause 4 seen from the add side)
    def oracle_add(self, site, kind, o, res, before, after):
        ids = ids_of(o) if kind != "invalid" else []
        collide = kind == "invalid" or len(set(ids)) != len(ids) or bool(set(ids) & set(before["ids"]))
        if kind == "network" and before["ids"] and any(before["cont"][k] for k in NETKINDS):
            self.ctx.tag("add[network]-over-nonempty")
        if collide:
            self.ctx.tag("add-rejected", f"add-rejected[{kind}]")
            if res[0] == "ok":
                self.fail(site, "used-id-accepted", f"{site} with ids {ids} succeeded although an id is in use "
                          f"(contained ids {sorted(before['ids'])})")
            elif res[1] != "value":
                self.fail(site, f"raises-{res[1]}", f"{site} with a used id raises {res[2]} instead of ValueError")
            if not self.unchanged(before, after):
                self.fail(site, "failed-add-changed-scenario",
                          f"{site} with ids {ids} raised but changed the scenario: id pool {sorted(before['idset'])} -> "
                          f"{sorted(after['idset'])}, contained ids {sorted(before['ids'])} -> {sorted(after['ids'])}")
        else:
            again = id(o) in self.ever_removed or (kind == "network" and any(id(x) in self.ever_removed for x in
                                                                             o.lanelets + o.traffic_signs +
                                                                             o.traffic_lights + o.intersections))
            if again:
                self.ctx.tag("re-add-after-remove")
                if kind == "inter" and self.last_vanished_by == "rm_inter_list":
                    self.ctx.tag("re-add-after-list-remove[inter]")
            self.ctx.tag("add-ok")
            halfway = (res[0] != "ok" and res[1] == "attr" and kind in ("static", "dynamic")
                       and unresolved(o, {x.lanelet_id for x in before["cont"]["lanelet"]}))
            if halfway:
                # registration on a missing lanelet raised AFTER the obstacle was stored: the id bookkeeping has to be right
                self.ctx.tag("add-fails-halfway")
                res = ("ok", None)
            if res[0] != "ok":
                obs = "removed-object-cannot-be-added-again" if again else "free-id-rejected"
                self.fail(site, obs, f"{site} with ids {ids} raises {res[2]} although no contained object uses them "
                          f"(contained ids {sorted(before['ids'])})")
            elif not self.is_contained(o, kind, after):
                self.fail(site, "added-object-not-contained", f"{site} with ids {ids} returned but the object is not contained")
            else:
                # frame of an accepted add (C09_add_frame / C09_add_network_frame): nothing else came or went
                was = {k: list(v) for k, v in before["ident"].items()}
                now = {k: list(v) for k, v in after["ident"].items()}
                if kind == "network":
                    was = {k: v for k, v in was.items() if k not in NETKINDS}
                    now = {k: v for k, v in now.items() if k not in NETKINDS}
                else:
                    now[kind] = [i for i in now[kind] if i != id(o)]
                if {k: sorted(v) for k, v in was.items()} != {k: sorted(v) for k, v in now.items()}:
                    self.ctx.tag("add-frame-broken")
                    self.fail(site, "accepted-add-changed-other-objects",
                              f"{site} with ids {ids} succeeded but other objects came or went: contained ids "
                              f"{sorted(before['ids'])} -> {sorted(after['ids'])}")
                self.ctx.tag("add-frame-checked")
        self.last_vanished, self.last_vanished_by = [], None

    def oracle_add_list(self, site, objs, res, before, after):
        used = set(before["ids"])
        lan = {x.lanelet_id for x in before["cont"]["lanelet"]}
        expect_new = []
        failed_at = None
        halfway_at = None
        for j, o in enumerate(objs):
            ids = ids_of(o)
            if len(set(ids)) != len(ids) or set(ids) & used:
                failed_at = j
                break
            used |= set(ids)
            expect_new.append(o)
            if built_kind(o) == "lanelet":
                lan.add(o.lanelet_id)
            if unresolved(o, lan):
                halfway_at = j        # stored, then AttributeError while registering it on its lanelets: the list stops here
                break
        if halfway_at is not None and failed_at is None:
            self.ctx.tag("add-fails-halfway")
            if res[0] == "ok" or res[1] != "attr":
                self.fail(site, "unexpected-outcome", f"{site}: element {halfway_at} is assigned to a missing lanelet, got {res}")
            res = ("ok", None)
        now = {id(x) for x in all_objs(after["cont"])}
        was = {id(x) for x in all_objs(before["cont"])}
        if failed_at is None:
            if res[0] != "ok":
                self.fail(site, "free-id-rejected", f"{site}: raises {res[2]} although all ids were free and distinct")
        else:
            self.ctx.tag("add-rejected")
            if failed_at > 0:
                self.ctx.tag("list-add-partial")
            if res[0] == "ok":
                self.fail(site, "used-id-accepted", f"{site}: element {failed_at} has an id in use but the call succeeded")
            elif res[1] != "value":
                self.fail(site, f"raises-{res[1]}", f"{site}: raises {res[2]} instead of ValueError")
        if res[0] == "ok" or failed_at is not None or halfway_at is not None:
            want = was | {id(x) for x in expect_new}
            if now != want:
                self.fail(site, "wrong-objects-added", f"{site}: objects contained afterwards are not 'before + the elements in "
                          f"front of the first one with a used id' (ids now {sorted(after['ids'])})")
        self.last_vanished, self.last_vanished_by = [], None

    # -- clause 3
    def oracle_gen(self, site, res, before, after):
        if res[0] != "ok":
            self.fail(site, f"raises-{res[1]}", f"generate_object_id raises {res[2]}")
            return
        n = res[1]
        if self.ever_removed:
            self.ctx.tag("gen-after-remove")
        if n in after["ids"] or n in before["ids"]:
            self.fail(site, "returns-id-of-contained-object", f"generate_object_id returned {n}, used by a contained object")
        if n in self.generated:
            self.fail(site, "returns-id-twice", f"generate_object_id returned {n} a second time")
        if not self.unchanged(before, after):
            self.fail(site, "changed-scenario", "generate_object_id changed the contained objects or the id pool")
        self.generated.add(n)

    # -- clause 4
    def oracle_replace(self, site, net, res, before, after):
        """Replacing the network releases the ids of the old network's members, so the new network only has to avoid the ids of
        what stays (the obstacles) and duplicates of its own."""
        ids = ids_of(net)
        staying = set()
        for k, objs in before["cont"].items():
            if k not in NETKINDS:
                for x in objs:
                    staying.update(ids_of(x))
        if len(set(ids)) == len(ids) and not (set(ids) & staying):
            if res[0] != "ok":
                self.fail(site, "ids-of-replaced-network-not-released",
                          f"{site} with member ids {sorted(ids)} raises {res[2]} although only ids of the replaced network "
                          f"({sorted(set(before['ids']) - staying)}) are reused and the ids of the remaining objects are {sorted(staying)}")
            elif after["net"] is not net:
                self.fail(site, "network-not-replaced", f"{site} returned but the scenario does not hold the new network")

    def oracle_removed(self, site, before, after, op):
        """Every object that left the scenario at this step can be added again (on a copy), unless one of its ids is
        used by an object that is contained now."""
        now = {id(x) for x in all_objs(after["cont"])}
        gone = [x for x in all_objs(before["cont"]) if id(x) not in now]
        self.last_vanished = [i for i, o in enumerate(self.objs) if any(o is g for g in gone)]
        self.last_vanished_by = op["op"]
        for g in gone:
            self.ever_removed.add(id(g))
        used = set(after["ids"])
        cand = [g for g in gone if not (set(ids_of(g)) & used)]
        if not cand:
            return
        self.ctx.tag("readd-checked-on-copy")
        sc2, cand2 = copy.deepcopy((self.sc, cand))
        for g in cand2:
            lan2 = {x.lanelet_id for x in sc2.lanelet_network.lanelets}
            r = call(sc2.add_objects, g)
            if r[0] != "ok" and r[1] == "attr" and unresolved(g, lan2) and any(x is g for x in sc2.obstacles):
                continue            # stored, the AttributeError comes from registering it on a lanelet that is gone
            if r[0] != "ok":
                self.fail(site, "removed-object-cannot-be-added-again",
                          f"{built_kind(g)} with ids {ids_of(g)} left the scenario by {site} but adding it again raises {r[2]} "
                          f"(contained ids {sorted(after['ids'])})")
                break

    def oracle_removal(self, site, kind, args, res, before, after, op):
        akind = (lambda o: built_kind(o)) if kind == "obstacle" else (lambda o: kind)
        in_before = [o for o in args if id(o) in before["ident"].get(akind(o), [])]
        if len(in_before) < len(args):
            self.ctx.tag("rm-not-contained")
        if len(in_before) == len(args) and len({id(o) for o in args}) == len(args):
            # all arguments are (distinct) objects of the scenario: the removal has to work
            if res[0] != "ok":
                self.fail(site, f"raises-{res[1]}", f"{site} of contained {kind}(s) {[ids_of(o) for o in args]} raises {res[2]}")
            else:
                still = [ids_of(o) for o in args if id(o) in after["ident"].get(akind(o), [])]
                if still:
                    self.fail(site, "object-still-contained", f"{site} returned but {kind}(s) {still} are still contained")
        if op["op"].startswith("rm_lanelet"):
            gone_members = [k for k in ("sign", "light") if len(after["cont"][k]) < len(before["cont"][k])]
            if gone_members:
                self.ctx.tag("hanging-member-removed")
        self.oracle_removed(site, before, after, op)


# ------------------------------------------------------------------------------------------------ choosing operations online

def choose_op(r, run):
    sc, objs, kinds = run.sc, run.objs, run.kinds
    cont = contained(sc)
    cid = {id(o) for o in all_objs(cont)}
    idx_in = [i for i, o in enumerate(objs) if kinds[i] != "network" and id(o) in cid]
    idx_out = [i for i, o in enumerate(objs) if kinds[i] != "network" and id(o) not in cid]
    nets = [i for i, k in enumerate(kinds) if k == "network"]
    pool = sorted({i for spec in run.uni for i in ([spec["id"]] if "id" in spec else [])})

    def some_refs():
        if r.random() < 0.5:
            return None
        return sorted(set(r.choice(pool) for _ in range(r.choice([0, 1, 2, 3]))))

    # after a removal: often add one of the objects that just left again (on the real scenario)
    if len(idx_in) >= 6:
        run.ctx.tag("size>=6")
    if run.last_vanished and r.random() < 0.6:
        return {"op": "add", "o": r.choice(run.last_vanished), "refs": None}
    # ---- the new dimensions (generator audit): each with a small share of the steps
    a = r.random()
    lan_all = [i for i, k in enumerate(kinds) if k == "lanelet"]
    if a < 0.06:
        return {"op": "query", "q": r.choice(["obstacle_by_id", "by_role", "obstacles", "str", "find", "inc_map", "occupancies",
                                              "deepcopy", "eq", "is_used", "referenced", "proximity"]), "arg": r.choice(pool)}
    if a < 0.08:
        return {"op": "neutral", "q": r.choice(["assign", "assign_center", "assign_some", "translate"]), "arg": r.choice(pool)}
    if a < 0.11 and idx_out:
        i = r.choice(idx_out)
        what = r.choice(["id", "id", "inc_id", "incomings_same", "incomings_rev", "incomings_drop"]) if kinds[i] == "inter" else "id"
        return {"op": "mutate", "o": i, "what": what, "v": r.choice(pool), "j": r.randrange(3)}
    if a < 0.145 and lan_all:
        in_l = [i for i in lan_all if id(objs[i]) in cid]
        i = r.choice(in_l if in_l and r.random() < 0.7 else lan_all)
        return {"op": "set_refs", "o": i, "mode": r.choice(["assign", "assign", "same", "add"]),
                "signs": sorted(set(r.choice(pool) for _ in range(r.choice([0, 1, 2])))),
                "lights": sorted(set(r.choice(pool) for _ in range(r.choice([0, 0, 1]))))}
    if a < 0.16:
        return {"op": "erase"}
    if a < 0.18 and lan_all:
        in_l = [i for i in lan_all if id(objs[i]) in cid]
        src = in_l if in_l and r.random() < 0.8 else lan_all
        return {"op": "rm_hanging", "os": r.sample(src, min(len(src), r.choice([1, 1, 2])))}
    if a < 0.19:      # empty list forms
        return r.choice([{"op": "add_list", "os": [], "refs": None}, {"op": "rm_obstacle_list", "os": []},
                         {"op": "rm_lanelet_list", "os": [], "refd": True}, {"op": "rm_sign_list", "os": []},
                         {"op": "rm_light_list", "os": []}, {"op": "rm_inter_list", "os": []}, {"op": "rm_hanging", "os": []}])
    w = r.random()
    if len(idx_in) < 3 and w > 0.6:
        w = r.random() * 0.4      # keep the scenario populated
    if w < 0.27:
        src = idx_out if (idx_out and r.random() < 0.85) or not idx_in else idx_in
        i = r.choice(src)
        return {"op": "add", "o": i, "refs": some_refs() if kinds[i] in ("sign", "light") else None}
    if w < 0.33:
        k = r.choice([2, 2, 3, 4])
        src = idx_out if len(idx_out) >= 1 else idx_in
        os_ = [r.choice(src) for _ in range(k)]
        if r.random() < 0.3 and idx_in:
            os_[r.randrange(len(os_))] = r.choice(idx_in)
        return {"op": "add_list", "os": os_, "refs": some_refs()}
    if w < 0.40:
        return {"op": "add", "o": r.choice(nets), "refs": None}
    if w < 0.45:
        return {"op": "replace_net", "o": r.choice(nets)}
    if w < 0.53:
        return {"op": "gen"}
    if w < 0.54:
        return {"op": "add_invalid"}
    # removals
    groups = {"rm_obstacle": [i for i in idx_in if kinds[i] in OBST], "rm_lanelet": [i for i in idx_in if kinds[i] == "lanelet"],
              "rm_sign": [i for i in idx_in if kinds[i] == "sign"], "rm_light": [i for i in idx_in if kinds[i] == "light"],
              "rm_inter": [i for i in idx_in if kinds[i] == "inter"]}
    outs = {"rm_obstacle": [i for i in idx_out if kinds[i] in OBST], "rm_lanelet": [i for i in idx_out if kinds[i] == "lanelet"],
            "rm_sign": [i for i in idx_out if kinds[i] == "sign"], "rm_light": [i for i in idx_out if kinds[i] == "light"],
            "rm_inter": [i for i in idx_out if kinds[i] == "inter"]}
    avail = [b for b in groups if groups[b]]
    if not avail and idx_out and r.random() < 0.9:
        i = r.choice(idx_out)
        return {"op": "add", "o": i, "refs": some_refs() if kinds[i] in ("sign", "light") else None}
    foreign = r.random() < 0.08 or not avail
    cands = [b for b in outs if outs[b]] if foreign else avail
    if not cands:
        return {"op": "gen"}
    base = r.choice(cands)
    src = outs[base] if foreign else groups[base]
    if r.random() < 0.5:
        op = {"op": base, "o": r.choice(src)}
    else:
        k = r.choice([1, 1, 2, 2, 3])
        os_ = r.sample(src, min(k, len(src)))
        if r.random() < 0.1 and outs[base]:
            os_.append(r.choice(outs[base]))
        if r.random() < 0.05:
            os_.append(os_[0])
        op = {"op": base + "_list", "os": os_}
    if base == "rm_lanelet":
        op["refd"] = r.random() < 0.85
        # sometimes: exactly the incoming lanelets of one incoming element of a contained intersection
        targets = [sorted(inc.incoming_lanelets) for it in cont["inter"] for inc in it.incomings if inc.incoming_lanelets]
        if targets and r.random() < 0.3:
            want = r.choice(targets)
            idx = [i for i in groups["rm_lanelet"] if objs[i].lanelet_id in want]
            if idx:
                op = {"op": "rm_lanelet_list" if len(idx) > 1 or r.random() < 0.5 else "rm_lanelet", "refd": True}
                op.update({"os": idx} if op["op"].endswith("_list") else {"o": idx[0]})
    return op


# ------------------------------------------------------------------------------------------------ cases

def compare(ctx, run, case):
    if not run.model_ops:
        return
    model = ctx.driver.ask("C09", "run", {"ops": run.model_ops})
    model = [{"out": m["out"], "st": canon_model_state(m["st"])} for m in model]
    if not ctx.compare(case, run.impl, model, "Scenario id bookkeeping vs CR.IdPool.step (lock-step)"):
        # keep the disagreement small: first differing step only
        d = ctx.disagreements[-1] if ctx.disagreements else None
        if d is not None:
            for j, (a, b) in enumerate(zip(run.impl, model)):
                if a != b:
                    d["impl"], d["model"], d["what"] = a, b, d["what"] + f" — first difference at step {j}: {run.model_ops[j]}"
                    break


def run_case(ctx, case, model=True):
    """Replay a recorded history."""
    run = Run(ctx, case["universe"], case)
    for op in case["ops"]:
        if run.dead:
            break
        run.step(op)
    if hasattr(ctx, "case"):
        ctx.case(case)
    if model:
        compare(ctx, run, case)
    return run


def gen_case(ctx):
    """Generate a history online (the next operation looks at the real scenario through public accessors)."""
    r = ctx.rng
    uni = gen_universe(r)
    case = {"universe": uni, "ops": []}
    run = Run(ctx, uni, case)
    longest = 40 if ctx.tier == "quick" else r.choice([40, 40, 100, 400])
    n = r.randint(8, longest)
    tries = 0
    while len(run.executed) < n and tries < 3 * n and not run.dead:
        tries += 1
        run.step(choose_op(r, run))
    case["ops"] = list(run.executed)
    ctx.case(case)
    compare(ctx, run, case)
    return case


def check_dimensions(ctx):
    """DIMENSIONS (harness/c09_dimensions.py) against the real signatures: unknown parameter / attribute / method => exit 2."""
    from common import InfraError
    import c09_dimensions
    n, problems = c09_dimensions.check_table()
    if problems:
        raise InfraError("C09 dimension table out of date:\n  " + "\n  ".join(problems))
    ctx.tag("dimension-table-checked")
    return n


def run(ctx):
    check_dimensions(ctx)
    for p in sorted(glob.glob(os.path.join(CORPUS_DIR, "C09", "*.json"))):
        run_case(ctx, json.load(open(p)))
    for _ in range(ctx.n(1200)):
        gen_case(ctx)


search = run


def replay(ctx, case):
    run_case(ctx, case, model=False)


def shrink(case, key):
    def still(ops):
        s = Sink()
        try:
            run_case(s, {"universe": case["universe"], "ops": ops}, model=False)
        except Exception:  # noqa
            return False
        return any(k == key for k, _ in s.failures)

    if not still(case["ops"]):
        return case
    ops = shrink_list(case["ops"], still)
    return prune({"universe": case["universe"], "ops": ops})


def prune(case):
    """Drop universe objects no operation refers to (indices are renumbered)."""
    uni = case["universe"]
    keep = set()
    for op in case["ops"]:
        keep.update(([op["o"]] if "o" in op else []) + list(op.get("os", [])))
    for i in sorted(keep):
        keep.update(uni[i].get("members", []))
    order = sorted(keep)
    ren = {old: new for new, old in enumerate(order)}
    nu = []
    for i in order:
        spec = dict(uni[i])
        if "members" in spec:
            spec["members"] = [ren[m] for m in spec["members"]]
        nu.append(spec)
    ops = []
    for op in case["ops"]:
        op = dict(op)
        if "o" in op:
            op["o"] = ren[op["o"]]
        if "os" in op:
            op["os"] = [ren[i] for i in op["os"]]
        ops.append(op)
    return {"universe": nu, "ops": ops}
