"""C11 — derived data never goes stale under mutation.
model: lean/CRModel/Cache.lean; theorems: lean/CRProps/C11.lean (helpers: lean/CRProofs/Cache.lean).

Four families of histories (query -> mutate -> query interleavings on real objects):
  obs  a Static/DynamicObstacle (optionally inside a Scenario) with a Trajectory/SetBased prediction:
       _initial_occupancy_shape, TrajectoryPrediction.occupancy_set, state_at_time, the four history lists
  net  a LaneletNetwork (optionally inside a Scenario): spatial index (_buffered_polygons/_strtee/id map),
       and the polygon / distance / inner_distance caches of its lanelets
  lan  a single Lanelet (2-D or 3-D): _polygon, _distance, _inner_distance
  cyc  a TrafficLightCycle (optionally inside a TrafficLight): _cycle_init_timesteps

correspondence: every answer of the real object is compared with the answer the Lean model predicts.  The
  model speaks in version tokens ("computed from the trajectory as of mutation 3"); the harness materialises a
  token by building a fresh object from the snapshot of the primary data taken after that mutation.
oracle (independent of the model): at every query a fresh object is built through the public constructors
  from the primary data read through the public getters NOW, the same query is asked, answers must agree
  (floats to 1e-9).  History: an independently kept list of previous initial states.
"""
import copy
import glob
import json
import math
import os
import pickle

from common import CORPUS_DIR, InfraError, call

RULE = ("histories of 2..14 operations: public mutators (translate_rotate on scenario / obstacle / prediction / network level, on a "
        "free lanelet, on a lanelet a network holds and on the trajectory a prediction holds; Trajectory.append_state on a held "
        "trajectory; setters of prediction shape / trajectory, obstacle initial_state and cycle_elements — each with a new object or with the "
        "SAME object edited in place and handed back to the setter (incl. `cycle_elements += [...]`); setters of "
        "wheelbase / assignments, obstacle initial_state / prediction / update_prediction / update_initial_state with bounds 1..6, "
        "the default and bounds lowered later, add_lanelet / add_lanelets_from_network / remove_lanelet with and without rtree, "
        "convert_to_2d on network / scenario / free lanelet / held lanelet, deepcopy, pickle, cycle_elements / time_offset / active "
        "setters, replacing a light's cycle) interleaved with queries (occupancy_at_time at / after the initial step, "
        "prediction.occupancy_at_time_step, state_at_time, history lists, find_lanelet_by_position / by_shape at places the lanelets "
        "occupy now and occupied before, lanelet polygon / distance / inner_distance, get_state_at_time_step around the phase "
        "boundaries of the old and the new cycle); every mutator is preceded by a query that fills the cache it could leave stale and "
        "followed by one that reads it. distinct = canonical JSON of the history; non-trivial = contains query -> mutator -> query on "
        "the same cache. Round 6: Scenario.remove_lanelet with a lanelet or a list that names a stranger / a lanelet twice / a lanelet the "
        "scenario has not registered, and replace_lanelet_network over such a lanelet — the call raises half way and lookups follow; family "
        "duo: TWO networks alive side by side, the second derived from the first (at any point of its history) by "
        "create_from_lanelet_list(first.lanelets, cleanup_ids True / False), create_from_lanelet_network, deepcopy, pickle or "
        "add_lanelets_from_network, each optionally inside its own Scenario; mutators on either network, each followed by queries on BOTH at "
        "the places the lanelets of both networks occupy and occupied")
ASSUMPTIONS = [
    "DIMENSIONS lists every constructor parameter, settable attribute, public method and read-only attribute of the 12 anchored "
    "classes with one decision each (varied / query / fixed / outside / n/a); check_dimensions() compares it with the real classes on "
    "every run (a new or vanished name is exit 2)",
    "three (cache, mutator) pairs are stale on the real code and recorded in known-findings.txt with their own keys (C11_unsound_pairs): "
    "Trajectory.translate_rotate / append_state on the trajectory a prediction holds vs occupancy_set, Lanelet.translate_rotate on a "
    "lanelet a network holds vs the spatial index; while such a cache is tainted a stale answer is attributed to that mutator "
    "(the model still has to predict the exact stale answer)",
    "NOT generated (outside the mutators the property lists; see the 'outside' entries of DIMENSIONS): assignments to attributes of a "
    "state object the obstacle holds other than through initial_state=, vertex setters and the distance setter of a lanelet, edits of "
    "an Occupancy returned by a TrajectoryPrediction query, Trajectory.initial_time_step= (it produces a trajectory the public "
    "constructor rejects), history lists of unequal length handed to the DynamicObstacle constructor, DynamicObstacle wheelbase_lengths "
    "with more than one shape",
    "update_initial_state calls REJECTED by a validating setter (op update_rej: a state that is no InitialState, a signal state that is no "
    "SignalState, lanelet ids that are a list / tuple / frozenset / set of numpy integers / of strings / of floats, one or several "
    "arguments at once) ARE generated; the caller catches the AssertionError and goes on. The oracle demands of such a call only what the "
    "property sentence states: the four lists are left as they were, or all four are one entry longer by the four values that were current "
    "together when the call began (equal length, entry i of each list from the same previous state); the bound max_history_length is owed "
    "again by the next accepted call (the real code appends first and raises before it cuts: m + 1 entries until then; model "
    "Obs.rejectedUpdate, C11_rejected_update_step / C11_rejected_then_accepted)",
    "add_lanelet / remove_lanelet with rtree=False ask for the index NOT to be rebuilt: lookups are compared with the model but "
    "not judged by the oracle until an add/remove with rtree=True has rebuilt it; likewise after a network translate_rotate that raised "
    "half way on a 3-D lanelet (the model says which lanelets moved) until a later translate_rotate / replacement rebuilds the index",
    "raising mutators: fail/* raise before they change anything (the model: state unchanged) and the history goes on; the "
    "oracle reports a mutator that leaves primary data the public constructors reject. Scenario.remove_lanelet / replace_lanelet_network "
    "raise HALF WAY (KeyError after some removals; the model says where they stop, given the harness's own account of the ids the scenario "
    "has registered): the lookups that follow are judged by the oracle like any other",
    "family duo: a fourth pair-instance is stale on the real code and recorded in known-findings.txt — add_lanelets_from_network hands the "
    "source network's own Lanelet objects to the second network, so either network's translate_rotate moves lanelets the other one holds "
    "without telling it (C11_witness_shared_lanelets; the model predicts the exact stale answer); while the harness's own account says "
    "a network holds such a moved shared lanelet, a stale lookup is attributed to that; every copying derivation must be independent",
    "version tokens of the model are materialised by fresh objects built from snapshots (copy.deepcopy of the public getters' values)",
]
TRUSTED = ["copy.deepcopy / pickle of numpy arrays and commonroad value objects reproduce the primary data"]
# translator tie: Gen.SrcC11 (regenerated from the working tree on every run by translate/src_c11.py) vs the hand model
EXTRA_MODULES = ["CRProps.T11"]

# pairs (cache, mutator) of CR.Cache.act that the histories must exercise with the cache filled before the mutator: every pair in
# which the mutator can reach the cache (action other than keep, or it writes a field the cache reads) — check_table() verifies
# that none of those is missing here — plus the `keep` pairs whose harmlessness the histories confirm
ROWS = [
    ("occupancySet", "predSetShape"), ("occupancySet", "predSetTrajectory"), ("occupancySet", "predSetWheelbase"),
    ("occupancySet", "predSetAssignment"), ("occupancySet", "predTranslateRotate"), ("occupancySet", "obsTranslateRotate"),
    ("occupancySet", "obsSetPrediction"), ("occupancySet", "obsUpdateInitialState"),
    ("occupancySet", "trajTranslateRotate"), ("occupancySet", "trajAppendState"),
    ("initialOccupancy", "obsSetInitialState"), ("initialOccupancy", "obsSetShape"), ("initialOccupancy", "obsTranslateRotate"),
    ("initialOccupancy", "obsSetPrediction"), ("initialOccupancy", "obsUpdateInitialState"),
    ("laneletPolygon", "lanTranslateRotate"), ("laneletPolygon", "lanConvert2d"),
    ("laneletDistance", "lanTranslateRotate"), ("laneletDistance", "lanConvert2d"),
    ("laneletInnerDistance", "lanTranslateRotate"), ("laneletInnerDistance", "lanConvert2d"),
    ("laneletPolygon", "netTranslateRotate"), ("laneletPolygon", "netConvert2d"),
    ("laneletDistance", "netTranslateRotate"), ("laneletDistance", "netConvert2d"),
    ("laneletInnerDistance", "netTranslateRotate"), ("laneletInnerDistance", "netConvert2d"),
    ("networkIndex", "netAddLanelet"), ("networkIndex", "netAddFromNetwork"), ("networkIndex", "netRemoveLanelet"), ("networkIndex", "netTranslateRotate"),
    ("networkIndex", "netConvert2d"), ("networkIndex", "netDeepcopy"), ("networkIndex", "netPickle"),
    ("networkIndex", "lanTranslateRotate"), ("networkIndex", "lanConvert2d"), ("networkIndex", "netCreateFrom"), ("networkIndex", "netReplace"),
    ("laneletPolygon", "netReplace"), ("laneletDistance", "netReplace"), ("laneletInnerDistance", "netReplace"),
    ("cycleInit", "cycSetElements"), ("cycleInit", "cycSetOffset"), ("cycleInit", "cycSetActive"),
    ("cycleInit", "elemSetDuration"), ("cycleInit", "elemSetState"), ("cycleInit", "elemsListEdit"),
]
# the pairs CR.Cache.unsoundPairs lists (C11_unsound_pairs): stale on the real code, recorded in known-findings.txt
UNSOUND = [("occupancySet", "trajTranslateRotate"), ("occupancySet", "trajAppendState"), ("networkIndex", "lanTranslateRotate")]
REQUIRED_BUCKETS = [f"row/{i}/{m}" for i, m in ROWS] + [
    "fam/obs", "fam/net", "fam/lan", "fam/cyc", "wrap/scenario", "wrap/light", "obs/static", "obs/setbased", "obs/new-pred-queried",
    "hist/truncated", "hist/not-truncated", "hist/m=1", "hist/default-bound", "hist/bad-bound", "net/3d", "net/rtree-false",
    "net/by-shape", "net/old-place", "net/add-from-refused", "lan/3d", "lan/3d-move-raises", "cyc/replace", "cyc/length-change",
    "mut/trajectory-same-object-reassigned", "hist/bound-lowered", "mut/held-trajectory-translate", "mut/held-trajectory-append",
    "mut/member-lanelet-translate", "mut/member-lanelet-convert2d", "net/stale-entry-survives-rebuild", "hist/moved",
    "mut/cycle-elements-same-list-reassigned", "mut/initial-state-same-object-reassigned",
    "dim/obstacle-id", "dim/signal-series", "dim/shape-group", "dim/obstacle-wheelbase", "dim/ctor-history", "dim/state-class-pm",
    "dim/state-class-unc", "dim/trajectory-gap", "dim/prediction-ctor-options", "dim/query-through-scenario", "dim/read-only-span",
    "dim/meta-setters", "dim/raising-mutator-then-queries", "dim/setbased-setter", "dim/setbased-tr", "dim/setbased-shape",
    "dim/setbased-time", "dim/lanelet-int-vertices", "dim/lanelet-stop-line", "dim/lanelet-reader-convert", "dim/lanelet-reader-contains",
    "dim/lanelet-reader-interpolate", "dim/index-reader-state", "dim/index-reader-subnet", "dim/create-from-network", "dim/replace-network",
    "dim/remove-lanelet-list", "dim/half-moved-network-then-queries", "dim/cycle-copy", "dim/cycle-set_dur", "dim/cycle-set_state",
    "dim/cycle-list_edit", "dim/cycle-aggregate-preserving-edit", "dim/next-state-agrees-pos", "dim/next-state-agrees-pos+ori",
    "dim/next-state-agrees-ori", "dim/next-state-agrees-pos+ori+vel",
    # round 7: update_initial_state calls REJECTED by a validating setter (each argument in turn), further calls and observations follow
    "dim/update-rejected-then-calls", "hist/rejected-arg-0", "hist/rejected-arg-1", "hist/rejected-arg-2", "hist/rejected-arg-3",
    "hist/rejected-several-args", "hist/rejected-numpy-ids", "hist/rejected-call-appended", "hist/accepted-after-rejected",
    "hist/observed-after-rejected",
    # round 6: a list removal that raises half way followed by lookups; a second network derived from the first, both alive
    "dim/remove-lanelet-list-raises-half-way", "dim/remove-lanelet-unregistered", "dim/half-removed-list-then-lookup",
    "dim/replace-network-raises-half-way",
    "fam/duo", "dim/sibling-from_list", "dim/sibling-from-list-no-cleanup", "dim/sibling-from-list-cleanup", "dim/sibling-from_network",
    "dim/sibling-deepcopy", "dim/sibling-pickle", "dim/sibling-add_from", "dim/sibling-shares-lanelets",
    "dim/sibling-mutated-then-other-queried"]

TOL = 1e-9

# ------------------------------------------------------------------------------------------------ comparing answers


def same(a, b):
    """Structural equality, floats to TOL."""
    if isinstance(a, bool) or isinstance(b, bool) or a is None or b is None or isinstance(a, str) or isinstance(b, str):
        return a == b
    if isinstance(a, (int, float)) and isinstance(b, (int, float)):
        if isinstance(a, int) and isinstance(b, int):
            return a == b
        return abs(a - b) <= TOL * max(1.0, abs(a), abs(b))
    if isinstance(a, (list, tuple)) and isinstance(b, (list, tuple)):
        return len(a) == len(b) and all(same(x, y) for x, y in zip(a, b))
    if isinstance(a, dict) and isinstance(b, dict):
        return a.keys() == b.keys() and all(same(a[k], b[k]) for k in a)
    return False


def plain(x):
    """numpy / commonroad values -> nested python lists, floats, ints, strings."""
    import numpy as np
    import enum
    if x is None or isinstance(x, (bool, str)):
        return x
    if isinstance(x, (int, np.integer)):
        return int(x)
    if isinstance(x, (float, np.floating)):
        return float(x)
    if isinstance(x, np.ndarray):
        return plain(x.tolist())
    if isinstance(x, (list, tuple)):
        return [plain(v) for v in x]
    if isinstance(x, (set, frozenset)):
        return sorted(plain(v) for v in x)
    if isinstance(x, dict):
        return {str(k): plain(v) for k, v in sorted(x.items(), key=lambda kv: str(kv[0]))}
    if isinstance(x, enum.Enum):
        return x.name
    from commonroad.common.util import Interval
    if isinstance(x, Interval):
        return ["interval", float(x.start), float(x.end)]
    return c_any(x)


def c_shape(s):
    from commonroad.geometry.shape import Circle, Polygon, Rectangle, ShapeGroup
    if s is None:
        return None
    if isinstance(s, Rectangle):
        return ["rect", float(s.length), float(s.width), plain(s.center), float(s.orientation)]
    if isinstance(s, Circle):
        return ["circle", float(s.radius), plain(s.center)]
    if isinstance(s, Polygon):
        return ["poly", plain(s.vertices)]
    if isinstance(s, ShapeGroup):
        return ["group", [c_shape(x) for x in s.shapes]]
    return ["?", repr(s)]


def c_occ(o):
    from commonroad.common.util import Interval
    if o is None:
        return None
    t = o.time_step
    return ["occ", [float(t.start), float(t.end)] if isinstance(t, Interval) else int(t), c_shape(o.shape)]


def c_state(s):
    if s is None:
        return None
    return ["state", type(s).__name__, {a: plain(getattr(s, a)) for a in sorted(s.used_attributes)}]


def c_signal(s):
    if s is None:
        return None
    return ["signal", {k: plain(getattr(s, k)) for k in sorted(s.__slots__) if getattr(s, k, None) is not None}]


def c_any(x):
    from commonroad.geometry.shape import Shape
    from commonroad.prediction.prediction import Occupancy
    from commonroad.scenario.state import SignalState, State
    if isinstance(x, Shape):
        return c_shape(x)
    if isinstance(x, Occupancy):
        return c_occ(x)
    if isinstance(x, State):
        return c_state(x)
    if isinstance(x, SignalState):
        return c_signal(x)
    return repr(x)


def res(r, conv=lambda v: v):
    """common.call result -> comparable value."""
    return {"err": r[1]} if r[0] == "err" else conv(r[1])


def move_cstate(cs, t, a):
    """The canonical state `cs` (c_state) after translate_rotate(t, a), by plain arithmetic: first translate, then rotate about the
    origin; the stored orientation turns by a."""
    if cs is None:
        return None
    at = dict(cs[2])
    x, y = at["position"][0] + t[0], at["position"][1] + t[1]
    at["position"] = [math.cos(a) * x - math.sin(a) * y, math.sin(a) * x + math.cos(a) * y]
    if "orientation" in at:
        at["orientation"] = at["orientation"] + a
    return [cs[0], cs[1], at]


def same_states(a, b):
    """Lists of canonical states; floats to TOL, orientations modulo 2 pi."""
    if len(a) != len(b):
        return False
    for x, y in zip(a, b):
        if x is None or y is None:
            if x != y:
                return False
            continue
        if x[:2] != y[:2] or x[2].keys() != y[2].keys():
            return False
        for k in x[2]:
            if k == "orientation":
                d = (x[2][k] - y[2][k] + math.pi) % (2 * math.pi) - math.pi
                if abs(d) > TOL:
                    return False
            elif not same(x[2][k], y[2][k]):
                return False
    return True


# ------------------------------------------------------------------------------------------------ dimension table

# Every constructor parameter, settable attribute, public method and read-only attribute of the classes C11 anchors, with the
# decision how the generator treats it: "varied: how" | "query: which query reads it" | "fixed: why it cannot reach a cache of C11" |
# "outside: why it is outside the property's quantifier" | "n/a: ...".  check_dimensions() compares the table with the real classes
# on every run: a name the code has and the table does not (or the other way round) is an infrastructure error (exit 2).
DIMENSIONS = {'TrajectoryPrediction': {'trajectory': 'varied: 1..8 states; KSState / PMState / uncertain position; contiguous steps or a gap (g_traj)',
                          'shape': 'varied: rectangle / circle / polygon, centred or off-centre, ShapeGroup (g_shape)',
                          'center_lanelet_assignment': "varied: None or a dict at construction (pred 'asg'); setter op p_asg",
                          'shape_lanelet_assignment': "varied: None or a dict at construction (pred 'asg'); setter op p_asg",
                          'kwargs': "varied: wheelbase_lengths keyword (pred 'wb') — reaches the setter below",
                          'wheelbase_lengths': 'varied: setter op p_wb (it assigns the dead attribute _wheelbase_lenghts; the cache is dropped)',
                          'occupancy_at_time_step': 'query: q_pocc, and through obstacle.occupancy_at_time',
                          'translate_rotate': 'varied: op p_tr; through obstacle / scenario op tr',
                          'final_time_step': 'query: q_span (read-only, read before observations)',
                          'initial_time_step': 'query: q_span',
                          'occupancy_set?': 'query: q_span reads len(occupancy_set) (fills the cache)'},
 'SetBasedPrediction': {'initial_time_step': 'varied: t_init + 0..2; query q_span',
                        'occupancy_set': 'varied: 1..4 occupancies, int steps or a closed Interval, sorted or shuffled (g_occs); setter op p_occs '
                                         "'setter'",
                        'occupancy_at_time_step': 'query: q_pocc, obstacle.occupancy_at_time',
                        'translate_rotate': 'varied: op p_tr, obstacle / scenario op tr',
                        'final_time_step': 'query: q_span (may raise for mixed int / Interval steps — compared as raised)'},
 'Occupancy': {'time_step': "varied: int or Interval (g_occs); setter op p_occs 'time' on an occupancy a set-based prediction holds",
               'shape': "varied: g_shape; setter op p_occs 'shape'",
               'translate_rotate': "varied: op p_occs 'tr' on a held occupancy (nothing is cached for set-based predictions)",
               'draw': 'n/a: rendering (C19)'},
 'Trajectory': {'initial_time_step': 'outside: the setter yields a trajectory the public constructor rejects (state_list[0].time_step != '
                                     "initial_time_step), 'freshly constructed' is undefined; as ctor argument varied with the prediction",
                'state_list': 'varied: see TrajectoryPrediction.trajectory',
                'append_state': 'varied: op t_app on the held trajectory, next step or a gap (known finding); failing variant fail/t_app_past',
                'translate_rotate': 'varied: op t_tr on the held trajectory (known finding)',
                'check_state_list': 'n/a: validation helper called by the constructor',
                'resample_continuous_time_state_list': 'n/a: classmethod building a new trajectory',
                'state_at_time_step': 'query: behind obstacle.state_at_time (q_state)',
                'states_in_time_interval': 'fixed: uncached loop over state_at_time_step',
                'final_state': 'query: read by the harness for t_app',
                'draw': 'n/a: rendering (C19)'},
 'StaticObstacle': {'obstacle_id': "varied: 7 / 0 / 10**6 ('oid'); the setter only warns (immutable)",
                    'obstacle_type': "varied: all ObstacleType members ('otype'); the setter only warns",
                    'obstacle_role': 'fixed: set by the subclass constructor; the setter only warns',
                    'obstacle_shape': 'varied: g_shape; setter op set_shape (immutable: warning only)',
                    'initial_state': 'varied: g_state; setter op set_init with a new object or the same object edited in place; failing variant '
                                     'fail/set_init_type',
                    'initial_center_lanelet_ids': "varied: None / a set ('cen'); setter op set_meta",
                    'initial_shape_lanelet_ids': "varied: None / a set ('shp'); setter op set_meta",
                    'initial_signal_state': "varied: None / SignalState ('sig'); setter op set_meta",
                    'signal_series': "varied: None / a list at construction ('series'); not read by any query of the property",
                    'occupancy_at_time': 'query: q_occ (also Scenario.occupancies_at_time_step)',
                    'state_at_time': 'query: q_state (also Scenario.obstacle_states_at_time_step)',
                    'signal_state_at_time_step': 'fixed: reads signal_series / initial_signal_state directly, not a query of the property',
                    'translate_rotate': 'varied: op tr (obstacle or scenario level); failing variant fail/tr_angle',
                    'draw': 'n/a: rendering (C19)'},
 'DynamicObstacle': {'prediction': 'varied: None / TrajectoryPrediction / SetBasedPrediction; setter and update_prediction op set_pred (also '
                                   'pre-queried objects); failing variant fail/set_pred_type',
                     'initial_meta_information_state': 'fixed: not read by any query of the property, not touched by any mutator modelled',
                     'meta_information_series': 'fixed: as above',
                     'external_dataset_id': 'fixed: as above',
                     'history': "varied: 0..4 states handed to the constructor ('hist0'), also longer than later bounds",
                     'signal_history': "varied: with 'hist0' (equal length; unequal lengths are outside the property's 'all history lists of equal "
                                       "length' premise)",
                     'center_lanelet_ids_history': "varied: with 'hist0'",
                     'shape_lanelet_ids_history': "varied: with 'hist0'",
                     'kwargs': "varied: wheelbase_lengths keyword with a one-shape ShapeGroup ('owb'); with more shapes the InitialState has no "
                               'hitch_angle (outside)',
                     'update_initial_state': 'varied: op update, bounds 1..6 / default / lowered / non-positive (raises, history goes on); op '
                                             'update_rej: each argument in turn (and several at once) of a kind its setter rejects, then '
                                             'further accepted / rejected calls and q_hist (buckets hist/rejected-arg-0..3)',
                     'update_prediction': "varied: op set_pred via 'update_prediction'"},
 'Lanelet': {'left_vertices': 'varied: 2..6 vertices, straight / bent / tapered, 2-D / 3-D, float / int arrays (g_lanelet); the setter is outside '
                              '(not a listed mutator; documented in the code as invalidating)',
             'center_vertices': 'varied: as left_vertices; setter outside',
             'right_vertices': 'varied: as left_vertices; setter outside',
             'lanelet_id': 'varied: 1..n; setter fixed (ids are C09)',
             'stop_line': "varied: None / a StopLine ('stop'): translate_rotate and convert_to_2d handle it before the polygon is rebuilt",
             'distance': 'query: q_dist; the setter overwrites the cache itself (outside)',
             'inner_distance': 'query: q_inner',
             'polygon': 'query: q_poly',
             'translate_rotate': 'varied: op tr (free lanelet), l_tr (held lanelet, known finding); raises on 3-D vertices, history goes on',
             'convert_to_2d': 'varied: op to2d (free), l_to2d (held)',
             'convert_to_polygon': "query: q_poly 'convert'",
             'contains_points': "query: q_poly 'contains'",
             'interpolate_position': "query: q_dist 'interp' (walks and fills the distance cache)",
             'orientation_by_position': 'fixed: reads the vertex arrays directly (behind find_most_likely_lanelet_by_state)',
             'get_obstacles': 'fixed: reads _polygon like contains_points; obstacle assignment is C07',
             'merge_lanelets': 'n/a: classmethod building a new lanelet',
             'predecessor': 'fixed: predecessor / successor / adjacency / types / users / signs / lights / areas / obstacle registries are not read '
                            'by polygon, distances or the index (C09/C10/C07)',
             'successor': 'fixed: predecessor / successor / adjacency / types / users / signs / lights / areas / obstacle registries are not read by '
                          'polygon, distances or the index (C09/C10/C07)',
             'adjacent_left': 'fixed: predecessor / successor / adjacency / types / users / signs / lights / areas / obstacle registries are not '
                              'read by polygon, distances or the index (C09/C10/C07)',
             'adjacent_left_same_direction': 'fixed: predecessor / successor / adjacency / types / users / signs / lights / areas / obstacle '
                                             'registries are not read by polygon, distances or the index (C09/C10/C07)',
             'adjacent_right': 'fixed: predecessor / successor / adjacency / types / users / signs / lights / areas / obstacle registries are not '
                               'read by polygon, distances or the index (C09/C10/C07)',
             'adjacent_right_same_direction': 'fixed: predecessor / successor / adjacency / types / users / signs / lights / areas / obstacle '
                                              'registries are not read by polygon, distances or the index (C09/C10/C07)',
             'line_marking_left_vertices': 'fixed: predecessor / successor / adjacency / types / users / signs / lights / areas / obstacle '
                                           'registries are not read by polygon, distances or the index (C09/C10/C07)',
             'line_marking_right_vertices': 'fixed: predecessor / successor / adjacency / types / users / signs / lights / areas / obstacle '
                                            'registries are not read by polygon, distances or the index (C09/C10/C07)',
             'lanelet_type': 'fixed: predecessor / successor / adjacency / types / users / signs / lights / areas / obstacle registries are not read '
                             'by polygon, distances or the index (C09/C10/C07)',
             'user_one_way': 'fixed: predecessor / successor / adjacency / types / users / signs / lights / areas / obstacle registries are not read '
                             'by polygon, distances or the index (C09/C10/C07)',
             'user_bidirectional': 'fixed: predecessor / successor / adjacency / types / users / signs / lights / areas / obstacle registries are '
                                   'not read by polygon, distances or the index (C09/C10/C07)',
             'traffic_signs': 'fixed: predecessor / successor / adjacency / types / users / signs / lights / areas / obstacle registries are not '
                              'read by polygon, distances or the index (C09/C10/C07)',
             'traffic_lights': 'fixed: predecessor / successor / adjacency / types / users / signs / lights / areas / obstacle registries are not '
                               'read by polygon, distances or the index (C09/C10/C07)',
             'adjacent_areas': 'fixed: predecessor / successor / adjacency / types / users / signs / lights / areas / obstacle registries are not '
                               'read by polygon, distances or the index (C09/C10/C07)',
             'adj_left': 'fixed: predecessor / successor / adjacency / types / users / signs / lights / areas / obstacle registries are not read by '
                         'polygon, distances or the index (C09/C10/C07)',
             'adj_left_same_direction': 'fixed: predecessor / successor / adjacency / types / users / signs / lights / areas / obstacle registries '
                                        'are not read by polygon, distances or the index (C09/C10/C07)',
             'adj_right': 'fixed: predecessor / successor / adjacency / types / users / signs / lights / areas / obstacle registries are not read by '
                          'polygon, distances or the index (C09/C10/C07)',
             'adj_right_same_direction': 'fixed: predecessor / successor / adjacency / types / users / signs / lights / areas / obstacle registries '
                                         'are not read by polygon, distances or the index (C09/C10/C07)',
             'dynamic_obstacles_on_lanelet': 'fixed: predecessor / successor / adjacency / types / users / signs / lights / areas / obstacle '
                                             'registries are not read by polygon, distances or the index (C09/C10/C07)',
             'static_obstacles_on_lanelet': 'fixed: predecessor / successor / adjacency / types / users / signs / lights / areas / obstacle '
                                            'registries are not read by polygon, distances or the index (C09/C10/C07)',
             'add_adjacent_area_to_lanelet': 'fixed: predecessor / successor / adjacency / types / users / signs / lights / areas / obstacle '
                                             'registries are not read by polygon, distances or the index (C09/C10/C07)',
             'add_dynamic_obstacle_to_lanelet': 'fixed: predecessor / successor / adjacency / types / users / signs / lights / areas / obstacle '
                                                'registries are not read by polygon, distances or the index (C09/C10/C07)',
             'add_predecessor': 'fixed: predecessor / successor / adjacency / types / users / signs / lights / areas / obstacle registries are not '
                                'read by polygon, distances or the index (C09/C10/C07)',
             'add_static_obstacle_to_lanelet': 'fixed: predecessor / successor / adjacency / types / users / signs / lights / areas / obstacle '
                                               'registries are not read by polygon, distances or the index (C09/C10/C07)',
             'add_successor': 'fixed: predecessor / successor / adjacency / types / users / signs / lights / areas / obstacle registries are not '
                              'read by polygon, distances or the index (C09/C10/C07)',
             'add_traffic_light_to_lanelet': 'fixed: predecessor / successor / adjacency / types / users / signs / lights / areas / obstacle '
                                             'registries are not read by polygon, distances or the index (C09/C10/C07)',
             'add_traffic_sign_to_lanelet': 'fixed: predecessor / successor / adjacency / types / users / signs / lights / areas / obstacle '
                                            'registries are not read by polygon, distances or the index (C09/C10/C07)',
             'all_lanelets_by_merging_predecessors_from_lanelet': 'fixed: predecessor / successor / adjacency / types / users / signs / lights / '
                                                                  'areas / obstacle registries are not read by polygon, distances or the index '
                                                                  '(C09/C10/C07)',
             'all_lanelets_by_merging_successors_from_lanelet': 'fixed: predecessor / successor / adjacency / types / users / signs / lights / areas '
                                                                '/ obstacle registries are not read by polygon, distances or the index (C09/C10/C07)',
             'dynamic_obstacle_by_time_step': 'fixed: predecessor / successor / adjacency / types / users / signs / lights / areas / obstacle '
                                              'registries are not read by polygon, distances or the index (C09/C10/C07)',
             'find_lanelet_predecessors_in_range': 'fixed: predecessor / successor / adjacency / types / users / signs / lights / areas / obstacle '
                                                   'registries are not read by polygon, distances or the index (C09/C10/C07)',
             'find_lanelet_successors_in_range': 'fixed: predecessor / successor / adjacency / types / users / signs / lights / areas / obstacle '
                                                 'registries are not read by polygon, distances or the index (C09/C10/C07)',
             'remove_predecessor': 'fixed: predecessor / successor / adjacency / types / users / signs / lights / areas / obstacle registries are '
                                   'not read by polygon, distances or the index (C09/C10/C07)',
             'remove_successor': 'fixed: predecessor / successor / adjacency / types / users / signs / lights / areas / obstacle registries are not '
                                 'read by polygon, distances or the index (C09/C10/C07)'},
 'LaneletNetwork': {'information': 'fixed: map meta data',
                    'add_lanelet': 'varied: op add, rtree True / False, duplicate id, through Scenario.add_objects; failing variant fail/add_type',
                    'add_lanelets_from_network': 'varied: op add_from incl. a refused lanelet; fam duo: a second network made by it, which then SHARES the '
                                                 "source's lanelet objects (derivation add_from; bucket dim/sibling-shares-lanelets)",
                    'remove_lanelet': 'varied: op remove, rtree True / False, unknown id, through Scenario.remove_lanelet single and list form '
                                      '(remove_many), which may raise half way',
                    'translate_rotate': 'varied: op tr (network / scenario); raises half way on a 3-D lanelet, history goes on; failing variants '
                                        'fail/tr_angle, fail/tr_vector',
                    'convert_to_2d': 'varied: op to2d (network / scenario)',
                    'create_from_lanelet_list': "varied: initial network, cleanup_ids True / False; also the oracle's rebuild; fam duo: called on the "
                                                "lanelets ANOTHER live network holds (network.lanelets / find_lanelet_by_id), cleanup_ids True / False, both networks "
                                                "mutated and queried afterwards (dim/sibling-from-list-no-cleanup, -cleanup)",
                    'create_from_lanelet_network': "varied: op create_from (continue on the result); with a region: query q_find 'subnet'; fam duo: source "
                                                   "and result both stay alive (dim/sibling-from_network)",
                    'find_lanelet_by_position': "query: q_find 'pos'",
                    'find_lanelet_by_shape': "query: q_find 'circle' / 'rect'",
                    'find_most_likely_lanelet_by_state': "query: q_find 'state'",
                    'find_lanelet_by_id': 'query: used to reach held lanelets',
                    'lanelets': 'query: read by the oracle',
                    'lanelet_polygons': 'fixed: the list of lanelet.polygon',
                    'filter_obstacles_in_network': 'fixed: wrapper of find_lanelet_by_shape (C07)',
                    'map_obstacles_to_lanelets': 'fixed: wrapper of find_lanelet_by_shape (C07)',
                    'lanelets_in_proximity': 'fixed: reads the vertex arrays directly',
                    '__deepcopy__': 'varied: ops deepcopy / pickle (network or whole scenario)',
                    '__getstate__': 'varied: ops deepcopy / pickle (network or whole scenario)',
                    '__setstate__': 'varied: ops deepcopy / pickle (network or whole scenario)',
                    'add_area': 'fixed: traffic signs / lights / areas / intersections and their add / remove / find / cleanup methods do not touch '
                                'the lanelet index (C09/C10)',
                    'add_intersection': 'fixed: traffic signs / lights / areas / intersections and their add / remove / find / cleanup methods do '
                                        'not touch the lanelet index (C09/C10)',
                    'add_traffic_light': 'fixed: traffic signs / lights / areas / intersections and their add / remove / find / cleanup methods do '
                                         'not touch the lanelet index (C09/C10)',
                    'add_traffic_sign': 'fixed: traffic signs / lights / areas / intersections and their add / remove / find / cleanup methods do '
                                        'not touch the lanelet index (C09/C10)',
                    'cleanup_lanelet_references': 'fixed: traffic signs / lights / areas / intersections and their add / remove / find / cleanup '
                                                  'methods do not touch the lanelet index (C09/C10)',
                    'cleanup_traffic_light_references': 'fixed: traffic signs / lights / areas / intersections and their add / remove / find / '
                                                        'cleanup methods do not touch the lanelet index (C09/C10)',
                    'cleanup_traffic_sign_references': 'fixed: traffic signs / lights / areas / intersections and their add / remove / find / '
                                                       'cleanup methods do not touch the lanelet index (C09/C10)',
                    'draw': 'fixed: traffic signs / lights / areas / intersections and their add / remove / find / cleanup methods do not touch the '
                            'lanelet index (C09/C10)',
                    'find_area_by_id': 'fixed: traffic signs / lights / areas / intersections and their add / remove / find / cleanup methods do not '
                                       'touch the lanelet index (C09/C10)',
                    'find_intersection_by_id': 'fixed: traffic signs / lights / areas / intersections and their add / remove / find / cleanup '
                                               'methods do not touch the lanelet index (C09/C10)',
                    'find_traffic_light_by_id': 'fixed: traffic signs / lights / areas / intersections and their add / remove / find / cleanup '
                                                'methods do not touch the lanelet index (C09/C10)',
                    'find_traffic_sign_by_id': 'fixed: traffic signs / lights / areas / intersections and their add / remove / find / cleanup '
                                               'methods do not touch the lanelet index (C09/C10)',
                    'get_traffic_lights_referenced_lanelets': 'fixed: traffic signs / lights / areas / intersections and their add / remove / find / '
                                                              'cleanup methods do not touch the lanelet index (C09/C10)',
                    'get_traffic_sign_referenced_lanelets': 'fixed: traffic signs / lights / areas / intersections and their add / remove / find / '
                                                            'cleanup methods do not touch the lanelet index (C09/C10)',
                    'remove_area': 'fixed: traffic signs / lights / areas / intersections and their add / remove / find / cleanup methods do not '
                                   'touch the lanelet index (C09/C10)',
                    'remove_intersection': 'fixed: traffic signs / lights / areas / intersections and their add / remove / find / cleanup methods do '
                                           'not touch the lanelet index (C09/C10)',
                    'remove_traffic_light': 'fixed: traffic signs / lights / areas / intersections and their add / remove / find / cleanup methods '
                                            'do not touch the lanelet index (C09/C10)',
                    'remove_traffic_sign': 'fixed: traffic signs / lights / areas / intersections and their add / remove / find / cleanup methods do '
                                           'not touch the lanelet index (C09/C10)',
                    'areas': 'fixed: traffic signs / lights / areas / intersections and their add / remove / find / cleanup methods do not touch the '
                             'lanelet index (C09/C10)',
                    'intersections': 'fixed: traffic signs / lights / areas / intersections and their add / remove / find / cleanup methods do not '
                                     'touch the lanelet index (C09/C10)',
                    'map_inc_lanelets_to_intersections': 'fixed: traffic signs / lights / areas / intersections and their add / remove / find / '
                                                         'cleanup methods do not touch the lanelet index (C09/C10)',
                    'traffic_lights': 'fixed: traffic signs / lights / areas / intersections and their add / remove / find / cleanup methods do not '
                                      'touch the lanelet index (C09/C10)',
                    'traffic_signs': 'fixed: traffic signs / lights / areas / intersections and their add / remove / find / cleanup methods do not '
                                     'touch the lanelet index (C09/C10)'},
 'TrafficLightCycle': {'cycle_elements': 'varied: 1..5 elements; setter op set_es with a new list, the same list edited in place, `+=`; list methods '
                                         'on the returned list op list_edit (known finding); None / empty are malformed (get_state raises)',
                       'time_offset': 'varied: 0..40; setter op set_off',
                       'active': 'varied: True / False at construction; setter op set_active',
                       'get_state_at_time_step': 'query: q (around the phase boundaries of old and new cycle)',
                       'cycle_init_timesteps': 'query: the cached array behind get_state_at_time_step'},
 'TrafficLightCycleElement': {'state': 'varied: all TrafficLightState members; setter op set_state on a held element',
                              'duration': 'varied: 1..30; setter op set_dur on a held element'},
 'TrafficLight': {'traffic_light_cycle': "varied: optional wrapper ('light'); setter op replace",
                  'active': "varied: True / False at construction ('lactive'); not read by get_state_at_time_step",
                  'get_state_at_time_step': 'query: q through the light',
                  'traffic_light_id': 'fixed: id, position, color, direction, shape, translate_rotate, convert_to_2d do not reach the cycle',
                  'position': 'fixed: id, position, color, direction, shape, translate_rotate, convert_to_2d do not reach the cycle',
                  'color': 'fixed: id, position, color, direction, shape, translate_rotate, convert_to_2d do not reach the cycle',
                  'direction': 'fixed: id, position, color, direction, shape, translate_rotate, convert_to_2d do not reach the cycle',
                  'shape': 'fixed: id, position, color, direction, shape, translate_rotate, convert_to_2d do not reach the cycle',
                  'convert_to_2d': 'fixed: id, position, color, direction, shape, translate_rotate, convert_to_2d do not reach the cycle',
                  'draw': 'fixed: id, position, color, direction, shape, translate_rotate, convert_to_2d do not reach the cycle',
                  'translate_rotate': 'fixed: id, position, color, direction, shape, translate_rotate, convert_to_2d do not reach the cycle'},
 'Scenario': {'translate_rotate': "varied: op tr via 'scenario' (obstacle and network families)",
              'convert_to_2d': "varied: op to2d via 'scenario'",
              'add_objects': "varied: obstacle, lanelet, lanelet network (op replace 'add_objects')",
              'remove_lanelet': 'varied: single and list form; the list may name a stranger, a lanelet twice, or a lanelet the scenario has not '
                                'registered (added through scenario.lanelet_network.add_lanelet): KeyError half way, lookups follow; referenced_elements '
                                'True / False',
              'replace_lanelet_network': 'varied: op replace; raises half way (in erase_lanelet_network) at a lanelet the scenario has not registered, '
                                         'lookups follow (dim/replace-network-raises-half-way)',
              'erase_lanelet_network': 'fixed: called by replace_lanelet_network',
              'occupancies_at_time_step': "query: q_occ via 'scenario'",
              'obstacle_states_at_time_step': "query: q_state via 'scenario'",
              'lanelet_network': 'query: read by the harness',
              'dt': 'fixed: dt, ids, meta data, obstacle lookups by id / role / position, remove_obstacle, traffic sign / light / intersection '
                    'removal, assign_obstacles_to_lanelets (C07/C09/C10) do not reach the caches of C11',
              'scenario_id': 'fixed: dt, ids, meta data, obstacle lookups by id / role / position, remove_obstacle, traffic sign / light / '
                             'intersection removal, assign_obstacles_to_lanelets (C07/C09/C10) do not reach the caches of C11',
              'author': 'fixed: dt, ids, meta data, obstacle lookups by id / role / position, remove_obstacle, traffic sign / light / intersection '
                        'removal, assign_obstacles_to_lanelets (C07/C09/C10) do not reach the caches of C11',
              'tags': 'fixed: dt, ids, meta data, obstacle lookups by id / role / position, remove_obstacle, traffic sign / light / intersection '
                      'removal, assign_obstacles_to_lanelets (C07/C09/C10) do not reach the caches of C11',
              'affiliation': 'fixed: dt, ids, meta data, obstacle lookups by id / role / position, remove_obstacle, traffic sign / light / '
                             'intersection removal, assign_obstacles_to_lanelets (C07/C09/C10) do not reach the caches of C11',
              'source': 'fixed: dt, ids, meta data, obstacle lookups by id / role / position, remove_obstacle, traffic sign / light / intersection '
                        'removal, assign_obstacles_to_lanelets (C07/C09/C10) do not reach the caches of C11',
              'location': 'fixed: dt, ids, meta data, obstacle lookups by id / role / position, remove_obstacle, traffic sign / light / intersection '
                          'removal, assign_obstacles_to_lanelets (C07/C09/C10) do not reach the caches of C11',
              'assign_obstacles_to_lanelets': 'fixed: dt, ids, meta data, obstacle lookups by id / role / position, remove_obstacle, traffic sign / '
                                              'light / intersection removal, assign_obstacles_to_lanelets (C07/C09/C10) do not reach the caches of '
                                              'C11',
              'draw': 'fixed: dt, ids, meta data, obstacle lookups by id / role / position, remove_obstacle, traffic sign / light / intersection '
                      'removal, assign_obstacles_to_lanelets (C07/C09/C10) do not reach the caches of C11',
              'generate_object_id': 'fixed: dt, ids, meta data, obstacle lookups by id / role / position, remove_obstacle, traffic sign / light / '
                                    'intersection removal, assign_obstacles_to_lanelets (C07/C09/C10) do not reach the caches of C11',
              'obstacle_by_id': 'fixed: dt, ids, meta data, obstacle lookups by id / role / position, remove_obstacle, traffic sign / light / '
                                'intersection removal, assign_obstacles_to_lanelets (C07/C09/C10) do not reach the caches of C11',
              'obstacles_by_position_intervals': 'fixed: dt, ids, meta data, obstacle lookups by id / role / position, remove_obstacle, traffic sign '
                                                 '/ light / intersection removal, assign_obstacles_to_lanelets (C07/C09/C10) do not reach the caches '
                                                 'of C11',
              'obstacles_by_role_and_type': 'fixed: dt, ids, meta data, obstacle lookups by id / role / position, remove_obstacle, traffic sign / '
                                            'light / intersection removal, assign_obstacles_to_lanelets (C07/C09/C10) do not reach the caches of C11',
              'remove_hanging_lanelet_members': 'fixed: dt, ids, meta data, obstacle lookups by id / role / position, remove_obstacle, traffic sign '
                                                '/ light / intersection removal, assign_obstacles_to_lanelets (C07/C09/C10) do not reach the caches '
                                                'of C11',
              'remove_intersection': 'fixed: dt, ids, meta data, obstacle lookups by id / role / position, remove_obstacle, traffic sign / light / '
                                     'intersection removal, assign_obstacles_to_lanelets (C07/C09/C10) do not reach the caches of C11',
              'remove_obstacle': 'fixed: dt, ids, meta data, obstacle lookups by id / role / position, remove_obstacle, traffic sign / light / '
                                 'intersection removal, assign_obstacles_to_lanelets (C07/C09/C10) do not reach the caches of C11',
              'remove_traffic_light': 'fixed: dt, ids, meta data, obstacle lookups by id / role / position, remove_obstacle, traffic sign / light / '
                                      'intersection removal, assign_obstacles_to_lanelets (C07/C09/C10) do not reach the caches of C11',
              'remove_traffic_sign': 'fixed: dt, ids, meta data, obstacle lookups by id / role / position, remove_obstacle, traffic sign / light / '
                                     'intersection removal, assign_obstacles_to_lanelets (C07/C09/C10) do not reach the caches of C11',
              'dynamic_obstacles': 'fixed: dt, ids, meta data, obstacle lookups by id / role / position, remove_obstacle, traffic sign / light / '
                                   'intersection removal, assign_obstacles_to_lanelets (C07/C09/C10) do not reach the caches of C11',
              'environment_obstacle': 'fixed: dt, ids, meta data, obstacle lookups by id / role / position, remove_obstacle, traffic sign / light / '
                                      'intersection removal, assign_obstacles_to_lanelets (C07/C09/C10) do not reach the caches of C11',
              'obstacles': 'fixed: dt, ids, meta data, obstacle lookups by id / role / position, remove_obstacle, traffic sign / light / '
                           'intersection removal, assign_obstacles_to_lanelets (C07/C09/C10) do not reach the caches of C11',
              'phantom_obstacle': 'fixed: dt, ids, meta data, obstacle lookups by id / role / position, remove_obstacle, traffic sign / light / '
                                  'intersection removal, assign_obstacles_to_lanelets (C07/C09/C10) do not reach the caches of C11',
              'static_obstacles': 'fixed: dt, ids, meta data, obstacle lookups by id / role / position, remove_obstacle, traffic sign / light / '
                                  'intersection removal, assign_obstacles_to_lanelets (C07/C09/C10) do not reach the caches of C11'}}


def _surface(cls):
    import inspect
    names = {p for p in inspect.signature(cls.__init__).parameters if p != "self"}
    for name in dir(cls):
        if name.startswith("_"):
            continue
        a = inspect.getattr_static(cls, name)
        names.add(name + "?" if not (isinstance(a, property) or callable(a) or isinstance(a, (classmethod, staticmethod))) else name)
    names |= {n for n in ("__deepcopy__", "__getstate__", "__setstate__") if n in cls.__dict__}
    return names


def check_dimensions():
    from commonroad.prediction.prediction import Occupancy, SetBasedPrediction, TrajectoryPrediction
    from commonroad.scenario.lanelet import Lanelet, LaneletNetwork
    from commonroad.scenario.obstacle import DynamicObstacle, StaticObstacle
    from commonroad.scenario.scenario import Scenario
    from commonroad.scenario.traffic_light import TrafficLight, TrafficLightCycle, TrafficLightCycleElement
    from commonroad.scenario.trajectory import Trajectory
    classes = {c.__name__: c for c in (TrajectoryPrediction, SetBasedPrediction, Occupancy, Trajectory, StaticObstacle, DynamicObstacle, Lanelet,
                                        LaneletNetwork, TrafficLightCycle, TrafficLightCycleElement, TrafficLight, Scenario)}
    problems = []
    for name, cls in classes.items():
        table = dict(DIMENSIONS[name])
        if name == "DynamicObstacle":
            table = dict(DIMENSIONS["StaticObstacle"], **table)       # the Obstacle part is shared
        have = _surface(cls)
        for n in sorted(have - set(table)):
            problems.append(f"{name}.{n}: in the code, not in DIMENSIONS (decide how the generator treats it)")
        for n in sorted(set(table) - have):
            problems.append(f"{name}.{n}: in DIMENSIONS, not in the code any more")
        for n, d in table.items():
            if d.split(":")[0] not in ("varied", "query", "fixed", "outside", "n/a"):
                problems.append(f"{name}.{n}: decision '{d[:30]}' has no known category")
    if problems:
        raise InfraError("harness/c11.py DIMENSIONS and the commonroad classes are out of step:\n  " + "\n  ".join(problems))


# ------------------------------------------------------------------------------------------------ whom to blame

def is_query(op):
    return op[0].startswith("q")


def mut_name(case, op):
    fam, k = case["fam"], op[0]
    if fam == "obs":
        return "Scenario.translate_rotate" if (k == "tr" and op[3] == "scenario" and case["wrap"] == "scenario") else MUT_NAMES[k]
    if fam == "net":
        via_scen = len(op) > 1 and op[-1] == "scenario" and case["wrap"] == "scenario"
        return NET_NAMES[k].replace("LaneletNetwork.", "Scenario.") if via_scen else NET_NAMES[k]
    return (LAN_NAMES if fam == "lan" else CYC_NAMES)[k]


def diagnose(case, idx):
    """Which single mutator leaves the query ops[idx] stale?  For each mutator i before it (latest first) run
    ops[:i] + [query, ops[i], query]: the culprit is one where the first query agrees with a rebuilt object and the second does not."""
    ops = case["ops"]
    q = ops[idx]
    for i in range(idx - 1, -1, -1):
        if is_query(ops[i]):
            continue
        sub = dict(case, ops=ops[:i] + [q, ops[i], q])
        p = _Probe()
        try:
            run_case(p, sub, model=False)
        except Exception:  # noqa
            continue
        at = {d.get("op") for _, d in p.failures if isinstance(d, dict)}
        if (i + 2) in at and i not in at:
            return mut_name(case, ops[i])
    return None


def stale(ctx, case, idx, site, fallback, text, taint=None):
    """Report a stale answer of query ops[idx]; the finding key names the query and the mutator that left it stale.
    `taint`: a mutator of the recorded unsound pairs (known-findings.txt) was applied to this cache and nothing has rebuilt it
    since — then that mutator is named (the correspondence with the model still tells any other deviation apart)."""
    culprit = fallback
    if taint:
        culprit = taint
    elif not getattr(ctx, "no_diagnose", False):
        culprit = diagnose(case, idx) or fallback
    key = f"C11/{site}/stale-after/{culprit}"
    seen = getattr(ctx, "_c11_reported", None)
    if seen is None:
        seen = {}
        try:
            ctx._c11_reported = seen
        except Exception:  # noqa
            pass
    seen[key] = seen.get(key, 0) + 1
    if seen[key] > 4 and not isinstance(ctx, _Probe):
        return      # a few reports per finding key are enough (the recorded findings would otherwise fill the failure list)
    ctx.fail(key, text.replace("{M}", culprit), case, {"op": idx})


# ------------------------------------------------------------------------------------------------ row coverage bookkeeping

class Rows:
    """Tags table row (item, mutator) once the history contains: query of item, mutator, query of item.
    Also remembers, per cache, the mutators applied since the oracle last agreed on it (whom to blame for a stale answer)."""

    def __init__(self, ctx):
        self.ctx = ctx
        self.filled = set()
        self.pending = {}
        self.muts = []          # names of all mutators so far
        self.ok_at = {}         # item -> len(self.muts) when the oracle last agreed on a query of it

    def did(self, name):
        self.muts.append(name)

    def agreed(self, item):
        self.ok_at[item] = len(self.muts)

    def blame(self, item):
        since = self.muts[self.ok_at.get(item, 0):]
        return since[0] if since else (self.muts[-1] if self.muts else "construction")

    def query(self, item):
        for m in self.pending.pop(item, []):
            self.ctx.tag(f"row/{item}/{m}")
        self.filled.add(item)

    def mutate(self, item, m):
        if item in self.filled:
            self.pending.setdefault(item, []).append(m)


# ------------------------------------------------------------------------------------------------ building blocks

ANGLES = [0.0, 0.0, math.pi / 2, -math.pi / 2, math.pi, 0.3, -0.7, 1.0, 2.5, -3.0, 6.0, 0.03, -0.01]


def g_motion(r):
    return [r.choice([0.0, 100.0, -50.0, r.randint(-400, 400) / 8.0, 7.5]), r.choice([0.0, 30.0, -20.0, r.randint(-400, 400) / 8.0])], \
        r.choice(ANGLES)


def g_motion_nz(r):
    """A motion that really moves things (so that staleness is visible)."""
    t, a = g_motion(r)
    if t == [0.0, 0.0] and a == 0.0:
        t = [100.0, -30.0]
    if a == 0.0 and abs(t[0]) + abs(t[1]) < 5:
        t = [t[0] + 60.0, t[1]]
    return t, a


def g_shape(r, group=True):
    if group and r.random() < 0.08:
        # a ShapeGroup (e.g. truck + trailer drawn as one obstacle shape)
        return {"k": "group", "s": [g_shape(r, False), dict(g_shape(r, False), c=[-3.5, 0.0]) if r.random() < 0.7 else g_shape(r, False)]}
    k = r.choice(["rect", "rect", "circle", "poly"])
    # a third of the rectangles / circles have their reference point off the centre (e.g. at the rear axle) and a local orientation
    off = {"c": [r.choice([1.25, -0.5, 2.0]), r.choice([0.0, 0.75])], "o": r.choice([0.0, 0.0, 0.4])} if r.random() < 0.33 else {}
    if k == "rect":
        return dict({"k": "rect", "l": r.choice([4.5, 2.0, 12.0, r.randint(8, 80) / 8.0]), "w": r.choice([2.0, 1.0, r.randint(4, 24) / 8.0])}, **off)
    if k == "circle":
        return dict({"k": "circle", "r": r.choice([0.5, 1.0, r.randint(2, 24) / 8.0])}, **({"c": off["c"]} if off else {}))
    if k == "poly" and r.random() < 0.3:
        return {"k": "poly", "v": [[0.0, -1.0], [4.0, -1.0], [4.0, 1.0], [0.0, 1.0]]}       # reference point on an edge (rear bumper)
    s = r.choice([1.0, 2.0, 0.5])
    return {"k": "poly", "v": [[-2 * s, -s], [2 * s, -s], [2.5 * s, 0.0], [2 * s, s], [-2 * s, s]]}


def b_shape(sp):
    import numpy as np
    from commonroad.geometry.shape import Circle, Polygon, Rectangle, ShapeGroup
    if sp["k"] == "group":
        return ShapeGroup([b_shape(x) for x in sp["s"]])
    if sp["k"] == "rect":
        return Rectangle(sp["l"], sp["w"], np.array(sp.get("c", [0.0, 0.0]), dtype=float), sp.get("o", 0.0))
    if sp["k"] == "circle":
        return Circle(sp["r"], np.array(sp.get("c", [0.0, 0.0]), dtype=float))
    return Polygon(np.array(sp["v"], dtype=float))


def g_state(r, t):
    return {"t": t, "x": r.randint(-160, 160) / 4.0, "y": r.randint(-80, 80) / 4.0, "o": r.choice([0.0, 0.5, -1.25, 3.0, r.randint(-24, 24) / 8.0]),
            "v": r.choice([0.0, 5.0, r.randint(0, 160) / 8.0])}


def g_next_state(r, t):
    """A successor of the current initial state: a third of them AGREE with it in some attributes (same position with another
    heading, same pose at another time, same heading elsewhere, …) — the runner takes those attributes from the state the obstacle
    holds at that moment."""
    sp = g_state(r, t)
    if r.random() < 0.35:
        sp["like"] = r.choice([["pos"], ["pos"], ["pos", "vel"], ["pos", "ori"], ["ori"], ["ori", "vel"], ["pos", "ori", "vel"]])
    return sp


def b_init(sp, cur=None):
    import numpy as np
    from commonroad.scenario.state import InitialState
    like = sp.get("like", []) if cur is not None else []
    return InitialState(time_step=sp["t"],
                        position=np.array(cur.position, dtype=float) if "pos" in like else np.array([sp["x"], sp["y"]], dtype=float),
                        orientation=float(cur.orientation) if "ori" in like else sp["o"],
                        velocity=float(cur.velocity) if "vel" in like else sp["v"], acceleration=0.0, yaw_rate=0.0, slip_angle=0.0)


def g_traj(r, t0):
    n = r.choice([1, 2, 3, 3, 5, 8])
    x, y, o = r.randint(-80, 80) / 4.0, r.randint(-80, 80) / 4.0, r.choice([0.0, 0.25, -2.0, 1.5])
    sts = []
    for i in range(n):
        sts.append([x + 1.5 * i * math.cos(o), y + 1.5 * i * math.sin(o), o + 0.05 * i, 1.5 + 0.125 * i])
    sp = {"t0": t0, "states": sts, "cls": r.choice(["ks", "ks", "ks", "pm", "unc"])}
    if n >= 3 and r.random() < 0.12:
        # time steps with a gap (the constructor checks only the first one)
        steps, t = [], t0
        for i in range(n):
            steps.append(t)
            t += 2 if i == n // 2 else 1
        sp["steps"] = steps
    return sp


def traj_steps(sp):
    return list(sp.get("steps") or [sp["t0"] + i for i in range(len(sp["states"]))])


def b_tstate(cls, t, s):
    """One trajectory state: kinematic single-track, point-mass (velocity vector, no stored orientation), or with an uncertain
    position (a shape instead of a point)."""
    import numpy as np
    from commonroad.geometry.shape import Circle, Rectangle
    from commonroad.scenario.state import KSState, PMState
    pos = np.array([s[0], s[1]], dtype=float)
    if cls == "pm":
        return PMState(time_step=t, position=pos, velocity=s[3] * math.cos(s[2]), velocity_y=s[3] * math.sin(s[2]))
    if cls == "unc":
        shape = Circle(0.5, pos) if int(abs(s[0] * 4)) % 2 == 0 else Rectangle(1.0, 0.5, pos, 0.0)
        return KSState(time_step=t, position=shape, orientation=s[2], velocity=s[3])
    return KSState(time_step=t, position=pos, orientation=s[2], velocity=s[3])


def b_traj(sp):
    from commonroad.scenario.trajectory import Trajectory
    return Trajectory(sp["t0"], [b_tstate(sp.get("cls", "ks"), t, s) for t, s in zip(traj_steps(sp), sp["states"])])


def occ_ivs(occ, t0):
    """time steps / closed time intervals of the occupancies of a set-based prediction spec, in list order"""
    out = []
    for i, o in enumerate(occ):
        t = o.get("t", t0 + i)
        out.append([t, t] if isinstance(t, int) else [t[0], t[1]])
    return out


def g_occs(r, t0):
    n = r.choice([1, 2, 4])
    occ = [{"shape": g_shape(r, False), "x": r.randint(-80, 80) / 4.0, "y": r.randint(-40, 40) / 4.0, "t": t0 + i} for i in range(n)]
    if r.random() < 0.3:
        occ[-1]["t"] = [t0 + n - 1, t0 + n + 1]          # the last occupancy holds for a time interval
    if n > 1 and r.random() < 0.3:
        r.shuffle(occ)                                   # not sorted by time
    return occ


def g_pred(r, t_init):
    k = r.choice(["traj", "traj", "traj", "setb", "setb", None])
    if k is None:
        return None
    t0 = t_init + r.choice([1, 1, 1, 2, 0])
    if k == "traj":
        sp = {"k": "traj", "shape": g_shape(r), "traj": g_traj(r, t0), "queried": r.random() < 0.3}
        if r.random() < 0.25:
            sp["asg"] = True           # lanelet assignments given to the constructor
        if r.random() < 0.1:
            sp["wb"] = [2.5, 3.0]      # the `wheelbase_lengths` keyword of the constructor
        return sp
    return {"k": "setb", "t0": t0, "occ": g_occs(r, t0)}


def b_occs(sp_occ, t0):
    import numpy as np
    from commonroad.common.util import Interval
    from commonroad.prediction.prediction import Occupancy
    out = []
    for i, o in enumerate(sp_occ):
        t = o.get("t", t0 + i)
        out.append(Occupancy(t if isinstance(t, int) else Interval(t[0], t[1]),
                             b_shape(o["shape"]).translate_rotate(np.array([o["x"], o["y"]], dtype=float), 0.0)))
    return out


def b_pred(sp):
    from commonroad.prediction.prediction import SetBasedPrediction, TrajectoryPrediction
    if sp is None:
        return None
    if sp["k"] == "traj":
        kw = {}
        if sp.get("wb"):
            kw["wheelbase_lengths"] = list(sp["wb"])
        asg = ({sp["traj"]["t0"]: {1, 2}}, {sp["traj"]["t0"]: {1}}) if sp.get("asg") else (None, None)
        p = TrajectoryPrediction(b_traj(sp["traj"]), b_shape(sp["shape"]), asg[0], asg[1], **kw)
        if sp.get("queried"):
            p.occupancy_at_time_step(sp["traj"]["t0"])
        return p
    return SetBasedPrediction(sp["t0"], b_occs(sp["occ"], sp["t0"]))


def b_signal(i):
    from commonroad.scenario.state import SignalState
    if i == 0:
        return None
    return SignalState(time_step=i, horn=bool(i % 2), indicator_left=bool(i % 3 == 0), braking_lights=bool(i % 5 == 0))


def b_ids(i):
    return None if i == 0 else {i, 10 * i + 1}


BAD_STATE = ["ks-state", "none", "dict"]
BAD_SIGNAL = ["str", "int", "initial-state"]
BAD_IDS = ["list", "np-int-set", "np-int64-from-array", "tuple", "frozenset", "str-set", "float-set", "int"]


def g_bad_args(r):
    """Which arguments of a rejected update_initial_state call are invalid (0 state, 1 signal state, 2 centre ids, 3 shape ids) and how."""
    first = r.choice([0, 1, 2, 2, 3, 3])
    bad = {str(first): r.choice([BAD_STATE, BAD_SIGNAL, BAD_IDS, BAD_IDS][first])}
    for later in range(first + 1, 4):
        if r.random() < 0.3:
            bad[str(later)] = r.choice([BAD_STATE, BAD_SIGNAL, BAD_IDS, BAD_IDS][later])
    return bad


def b_bad_arg(i, how, ids):
    """An argument the setter behind update_initial_state rejects (ids: the lanelet-id token the valid value would be built from)."""
    import numpy as np
    from commonroad.scenario.state import KSState
    vals = sorted(b_ids(ids or 0) or {3, 31})
    if i == 0:
        return {"ks-state": KSState(time_step=1, position=np.array([0.0, 0.0]), orientation=0.0, velocity=0.0), "none": None,
                "dict": {"time_step": 1}}[how]
    if i == 1:
        return {"str": "braking", "int": 1, "initial-state": b_init({"t": 1, "x": 0.0, "y": 0.0, "o": 0.0, "v": 0.0})}[how]
    return {"list": list(vals), "np-int-set": {np.int32(x) for x in vals}, "np-int64-from-array": set(np.array(vals)),
            "tuple": tuple(vals), "frozenset": frozenset(vals), "str-set": {str(x) for x in vals}, "float-set": {float(x) + 0.5 for x in vals},
            "int": vals[0]}[how]


# ------------------------------------------------------------------------------------------------ family obs: generator

def gen_obs(ctx):
    r = ctx.rng
    dynamic = r.random() < 0.8
    t_init = r.choice([0, 0, 3, 10])
    case = {"fam": "obs", "dynamic": dynamic, "shape": g_shape(r), "init": g_state(r, t_init), "wrap": r.choice(["none", "none", "scenario"]),
            "sig": r.choice([0, 1, 2]), "cen": r.choice([0, 3]), "shp": r.choice([0, 4]),
            "pred": g_pred(r, t_init) if dynamic else None, "ops": [],
            "oid": r.choice([7, 7, 0, 10 ** 6]), "otype": r.randrange(8), "series": r.random() < 0.2}
    if dynamic and r.random() < 0.25:
        # the constructor is handed a history (four lists of equal length), possibly longer than the bounds used later
        case["hist0"] = [{"st": g_state(r, t_init - 5 + i), "sig": r.choice([0, 1, 2]), "cen": r.choice([0, 5]), "shp": r.choice([0, 7])}
                         for i in range(r.choice([1, 2, 4]))]
    if dynamic and case["shape"]["k"] != "group" and r.random() < 0.06:
        # the truck-trailer keyword of DynamicObstacle: a ShapeGroup of ONE shape with its wheelbase length
        case["shape"] = {"k": "group", "s": [case["shape"]]}
        case["owb"] = [2.5]
    # bookkeeping for generating applicable operations
    t0 = t_init
    pred = case["pred"]
    bound = r.choice([1, 1, 2, 3, 4, None])   # max_history_length used by most updates of this history (None = default)
    n_upd = 0

    def horizon():
        if pred is None:
            return [t0 + 1, t0 + 2]
        if pred["k"] == "traj":
            st = traj_steps(pred["traj"])
            gaps = [t for t in range(st[0], st[-1]) if t not in st]
            return [st[0], st[-1], st[-1] + 1, st[len(st) // 2], t0 + 1] + gaps[:1]
        iv = occ_ivs(pred["occ"], pred["t0"])
        lo, hi = min(a for a, _ in iv), max(b for _, b in iv)
        return [lo, hi, hi + 1, (lo + hi) // 2, t0 + 1]

    def via(q):
        # the scenario-level entry points of the same queries (occupancies_at_time_step / obstacle_states_at_time_step)
        return q + ["scenario"] if (case["wrap"] == "scenario" and q[1] >= 0 and r.random() < 0.3) else q

    def queries():
        qs = [via(["q_occ", t0])]
        if dynamic:
            ts = [t for t in horizon() if t > t0] or [t0 + 1]
            t = r.choice(ts)
            qs.append(via(["q_occ", t]))
            if r.random() < 0.5:
                qs.append(via(["q_state", r.choice(ts + [t0, t0 - 1])]))
            if pred is not None and r.random() < 0.6:
                qs.append(["q_pocc", r.choice(horizon())])
            if pred is not None and r.random() < 0.15:
                qs.append(["q_span"])            # read-only: prediction.initial_time_step / final_time_step / len(occupancy_set)
            if r.random() < 0.4 or n_upd:
                qs.append(["q_hist"])
        else:
            qs.append(via(["q_occ", t0 + r.randint(1, 5)]))
            if r.random() < 0.5:
                qs.append(via(["q_state", t0 + r.randint(0, 3)]))
        r.shuffle(qs)
        return qs

    ops = case["ops"]
    if dynamic and r.random() < 0.10:
        # the bound is LOWERED after a long history has built up: the cut has to drop several entries at once
        big = r.choice([None, 6, 5])
        for i in range(r.randint(3, 5)):
            t0 += 1
            ops.append(["update", g_next_state(r, t0), r.choice([0, 1, 2, 3]), r.choice([0, 5, 6]), r.choice([0, 7]), big])
        t0 += 1
        ops.append(["update", g_next_state(r, t0), r.choice([0, 1, 2, 3]), r.choice([0, 5, 6]), r.choice([0, 7]), r.choice([1, 2])])
        ops.append(["q_hist"])
        ops.append(["q_occ", t0])
        case["ops"] = ops[:14]
        return case
    elif dynamic and r.random() < 0.12:
        # a burst of updates with a small bound: the history is cut again and again
        m = r.choice([1, 2, 3])
        for i in range(r.randint(m + 1, m + 4)):
            t0 += 1
            ops.append(["update", g_next_state(r, t0), r.choice([0, 1, 2, 3]), r.choice([0, 5, 6]), r.choice([0, 7]), m])
            if r.random() < 0.3:
                ops.append(["tr", *g_motion_nz(r), "obstacle"])
            if r.random() < 0.5 or i >= m:
                ops.append(["q_hist"])
        ops.append(["q_occ", t0])
        case["ops"] = ops[:14]
        return case
    ops += queries()
    for _ in range(r.choice([1, 2, 2, 3, 4])):
        kinds = ["tr", "tr", "set_init", "set_shape", "set_meta", "fail"]
        if dynamic:
            kinds += ["set_pred", "set_pred", "update", "update", "update", "update_rej"]
            if pred is not None:
                kinds += ["p_tr", "p_tr"]
                if pred["k"] == "traj":
                    kinds += ["p_shape", "p_traj", "p_traj", "p_wb", "p_asg", "p_tr", "t_tr", "t_app"]
                else:
                    kinds += ["p_occs"] * 8
        k = r.choice(kinds)
        if k == "set_meta":
            # the plain setters of the values update_initial_state moves into the histories
            ops.append(["set_meta", r.choice([0, 1, 2, 3]), r.choice([0, 5, 6]), r.choice([0, 7])])
            if dynamic and r.random() < 0.7:
                t0 += 1
                ops.append(["update", g_next_state(r, t0), r.choice([0, 1, 2]), r.choice([0, 5]), r.choice([0, 7]), bound])
                pred, n_upd = None, n_upd + 1
                ops.append(["q_hist"])
            ops += queries()
            continue
        if k == "update_rej":
            # update_initial_state calls a validating setter REJECTS (each argument in turn invalid, also several at once), the caller
            # catches the AssertionError and carries on: more calls follow, accepted and rejected, and all four history lists are observed
            m = bound if r.random() < 0.8 else r.choice([1, 2, 3, None])
            for _i in range(r.choice([1, 1, 2])):
                bad = g_bad_args(r)
                t0n = t0 + 1
                ops.append(["update_rej", g_next_state(r, t0n), r.choice([0, 1, 2, 3]), r.choice([0, 5, 6]), r.choice([0, 7]), m, bad])
                if min(int(a) for a in bad) >= 1:
                    t0 = t0n                     # the state setter was reached before the call raised
                if r.random() < 0.6:
                    ops.append(["q_hist"])
                if r.random() < 0.25:
                    ops.append(["tr", *g_motion_nz(r), "obstacle"])
            for _i in range(r.choice([1, 2, 3])):
                t0 += 1
                ops.append(["update", g_next_state(r, t0), r.choice([0, 1, 2, 3]), r.choice([0, 5, 6]), r.choice([0, 7]), m])
                pred, n_upd = None, n_upd + 1
                if r.random() < 0.7:
                    ops.append(["q_hist"])
            if ops[-1] != ["q_hist"]:
                ops.append(["q_hist"])
            ops += queries()
            if len(ops) >= 12:
                break
            continue
        if k == "fail":
            # a mutator that raises before it changes anything; the history goes on
            fk = ["set_init_type", "tr_angle"]
            if dynamic:
                fk += ["set_pred_type"]
                if pred is not None and pred["k"] == "traj":
                    fk += ["t_app_past", "p_shape_type", "p_traj_type"]
            ops.append(["fail", r.choice(fk)])
            ops += queries()
            continue
        if k == "p_occs":
            how = r.choice(["setter", "tr", "shape", "time"])
            occ = [dict(o) for o in pred["occ"]]
            i = r.randrange(len(occ))
            if how == "setter":
                occ = g_occs(r, pred["t0"] + r.choice([0, 0, 1]))
                ops.append(["p_occs", "setter", occ])
            elif how == "tr":
                t, a = g_motion_nz(r)
                ops.append(["p_occs", "tr", i, t, a])
            elif how == "shape":
                ops.append(["p_occs", "shape", i, g_shape(r, False)])
            else:
                iv = occ_ivs(occ, pred["t0"])[i]
                nt = r.choice([iv[1] + 5, [iv[0], iv[1] + 2]])
                occ[i]["t"] = nt
                ops.append(["p_occs", "time", i, nt])
            pred = dict(pred, occ=occ)
            ops += queries()
            continue
        if k == "tr":
            t, a = g_motion_nz(r)
            ops.append(["tr", t, a, "scenario" if case["wrap"] == "scenario" and r.random() < 0.6 else "obstacle"])
        elif k == "set_init":
            t0 = t0 + r.choice([0, 0, 1])
            # a new state object, or the state the obstacle holds edited in place and handed back to the setter
            ops.append(["set_init", g_next_state(r, t0)] if r.random() < 0.7 else ["set_init", g_state(r, t0), "same"])
        elif k == "set_shape":
            ops.append(["set_shape", g_shape(r)])
        elif k == "set_pred":
            pred = g_pred(r, t0)
            ops.append(["set_pred", pred, r.choice(["setter", "update_prediction"])])
        elif k == "update":
            m = bound if r.random() < 0.75 else r.choice([1, 2, 5, None, 0, -1, 0])
            t0n = t0 + r.choice([1, 1, 2])
            ops.append(["update", g_next_state(r, t0n), r.choice([0, 1, 2, 3]), r.choice([0, 5, 6]), r.choice([0, 7]), m])
            if m is None or m > 0:
                t0, pred = t0n, None
                n_upd += 1
        elif k == "p_shape":
            pred = dict(pred, shape=g_shape(r))        # (a copy: the dict is also part of the case / of an earlier operation)
            ops.append(["p_shape", pred["shape"]])
        elif k == "p_traj":
            if r.random() < 0.5:
                # the SAME trajectory object, moved in place and assigned back through the setter: the new primary data is the shifted copy
                dx, dy = r.choice([4.0, -8.0, 12.5]), r.choice([0.0, 2.0, -6.0])
                old = pred["traj"]
                pred = dict(pred, traj=dict(old, states=[[st[0] + dx, st[1] + dy] + list(st[2:]) for st in old["states"]]))
                ops.append(["p_traj", pred["traj"], [dx, dy]])
            else:
                pred = dict(pred, traj=g_traj(r, pred["traj"]["t0"] + r.choice([0, 0, 1])))
                ops.append(["p_traj", pred["traj"]])
        elif k == "p_wb":
            ops.append(["p_wb", r.choice([None, [2.5], [2.5, 3.0]])])
        elif k == "p_asg":
            ops.append(["p_asg", r.choice(["center", "shape"]), r.choice([None, {"1": [5]}, {"2": [5, 6]}])])
        elif k == "p_tr":
            t, a = g_motion_nz(r)
            ops.append(["p_tr", t, a])
        elif k == "t_tr":
            # the trajectory the prediction holds is moved on its own (prediction.trajectory.translate_rotate)
            t, a = g_motion_nz(r)
            ops.append(["t_tr", t, a])
        elif k == "t_app":
            # … or gets one more state (prediction.trajectory.append_state)
            last = pred["traj"]["states"][-1]
            new_state = [last[0] + 1.5, last[1] + 0.5, last[2], last[3]]
            gap = r.choice([0, 0, 0, 2])          # append_state only asks for a LARGER time step: a gap is allowed
            steps = traj_steps(pred["traj"])
            pred = dict(pred, traj=dict(pred["traj"], states=pred["traj"]["states"] + [new_state], steps=steps + [steps[-1] + 1 + gap]))
            ops.append(["t_app", new_state, gap])
        if k == "update" and pred is None and r.random() < 0.3:
            pred = {"k": "traj", "shape": g_shape(r), "traj": g_traj(r, t0 + 1), "queried": False}
            ops.append(["set_pred", pred, "update_prediction"])      # a new prediction after the update dropped the old one
        elif k == "update" and r.random() < 0.5 and len(ops) < 9:
            continue   # several updates in a row fill the history
        ops += queries()
        if len(ops) >= 12:
            break
    case["ops"] = ops[:14]
    return case


# ------------------------------------------------------------------------------------------------ family obs: runner

def fresh_pred(p):
    """A prediction built through the public constructors from the primary data of p (public getters only)."""
    from commonroad.prediction.prediction import SetBasedPrediction, TrajectoryPrediction
    from commonroad.scenario.trajectory import Trajectory
    if p is None:
        return None
    if isinstance(p, TrajectoryPrediction):
        kw = {}
        if p.wheelbase_lengths is not None:
            kw["wheelbase_lengths"] = copy.deepcopy(p.wheelbase_lengths)
        return TrajectoryPrediction(Trajectory(p.trajectory.initial_time_step, copy.deepcopy(p.trajectory.state_list)), copy.deepcopy(p.shape),
                                    copy.deepcopy(p.center_lanelet_assignment), copy.deepcopy(p.shape_lanelet_assignment), **kw)
    return SetBasedPrediction(p.initial_time_step, copy.deepcopy(p.occupancy_set))


def fresh_obstacle(o):
    from commonroad.scenario.obstacle import DynamicObstacle, StaticObstacle
    if isinstance(o, StaticObstacle):
        return StaticObstacle(o.obstacle_id, o.obstacle_type, copy.deepcopy(o.obstacle_shape), copy.deepcopy(o.initial_state),
                              copy.deepcopy(o.initial_center_lanelet_ids), copy.deepcopy(o.initial_shape_lanelet_ids),
                              copy.deepcopy(o.initial_signal_state), copy.deepcopy(o.signal_series))
    kw = {"wheelbase_lengths": copy.deepcopy(o.wheelbase_lengths)} if hasattr(o, "wheelbase_lengths") else {}
    return DynamicObstacle(o.obstacle_id, o.obstacle_type, copy.deepcopy(o.obstacle_shape), copy.deepcopy(o.initial_state), fresh_pred(o.prediction),
                           copy.deepcopy(o.initial_center_lanelet_ids), copy.deepcopy(o.initial_shape_lanelet_ids),
                           copy.deepcopy(o.initial_signal_state), copy.deepcopy(o.signal_series),
                           history=copy.deepcopy(o.history), signal_history=copy.deepcopy(o.signal_history),
                           center_lanelet_ids_history=copy.deepcopy(o.center_lanelet_ids_history),
                           shape_lanelet_ids_history=copy.deepcopy(o.shape_lanelet_ids_history), **kw)


MUT_NAMES = {"tr": "Obstacle.translate_rotate", "set_init": "Obstacle.initial_state=", "set_shape": "Obstacle.obstacle_shape=",
             "set_pred": "DynamicObstacle.prediction=", "update": "DynamicObstacle.update_initial_state",
             "update_rej": "DynamicObstacle.update_initial_state(rejected)",
             "p_shape": "TrajectoryPrediction.shape=", "p_traj": "TrajectoryPrediction.trajectory=",
             "p_wb": "TrajectoryPrediction.wheelbase_lengths=", "p_asg": "TrajectoryPrediction.lanelet_assignment=",
             "p_tr": "Prediction.translate_rotate", "t_tr": "Trajectory.translate_rotate(held)", "t_app": "Trajectory.append_state(held)",
             "p_occs": "SetBasedPrediction.occupancy_set=", "set_meta": "Obstacle.initial_signal_state=", "fail": "a-raising-mutator"}
NET_NAMES = {"tr": "LaneletNetwork.translate_rotate", "add": "LaneletNetwork.add_lanelet", "add_from": "LaneletNetwork.add_lanelets_from_network", "remove": "LaneletNetwork.remove_lanelet",
             "to2d": "LaneletNetwork.convert_to_2d", "deepcopy": "LaneletNetwork.deepcopy", "pickle": "LaneletNetwork.pickle",
             "l_tr": "Lanelet.translate_rotate(member)", "l_to2d": "Lanelet.convert_to_2d(member)",
             "create_from": "LaneletNetwork.create_from_lanelet_network", "replace": "Scenario.replace_lanelet_network",
             "remove_many": "Scenario.remove_lanelet(list)", "fail": "a-raising-mutator"}
LAN_NAMES = {"tr": "Lanelet.translate_rotate", "to2d": "Lanelet.convert_to_2d"}
CYC_NAMES = {"set_es": "TrafficLightCycle.cycle_elements=", "set_off": "TrafficLightCycle.time_offset=", "set_active": "TrafficLightCycle.active=",
             "replace": "TrafficLight.traffic_light_cycle=", "set_dur": "TrafficLightCycleElement.duration=(held)",
             "set_state": "TrafficLightCycleElement.state=(held)", "list_edit": "cycle_elements.list-edit(in-place)"}


def run_obs(ctx, case, model=True):
    import numpy as np
    from commonroad.prediction.prediction import TrajectoryPrediction
    from commonroad.scenario.obstacle import DynamicObstacle, ObstacleType, StaticObstacle
    from commonroad.scenario.scenario import Scenario
    rows = Rows(ctx)
    ctx.tag("fam/obs")
    dynamic = case["dynamic"]
    init = b_init(case["init"])
    oid, otype = case.get("oid", 7), list(ObstacleType)[case.get("otype", 0) % len(ObstacleType)]
    series = [b_signal(k + 1) for k in range(2)] if case.get("series") else None
    hist0 = case.get("hist0") or []
    if oid != 7:
        ctx.tag("dim/obstacle-id")
    if series:
        ctx.tag("dim/signal-series")
    if case["shape"]["k"] == "group":
        ctx.tag("dim/shape-group")
    if dynamic:
        kw = {}
        if case.get("owb"):
            kw["wheelbase_lengths"] = list(case["owb"])
            ctx.tag("dim/obstacle-wheelbase")
        if hist0:
            ctx.tag("dim/ctor-history")
            kw.update(history=[b_init(h["st"]) for h in hist0], signal_history=[b_signal(h["sig"]) for h in hist0],
                      center_lanelet_ids_history=[b_ids(h["cen"]) for h in hist0], shape_lanelet_ids_history=[b_ids(h["shp"]) for h in hist0])
        obs = DynamicObstacle(oid, otype, b_shape(case["shape"]), init, b_pred(case["pred"]), b_ids(case["cen"]), b_ids(case["shp"]),
                              b_signal(case["sig"]), series, **kw)
    else:
        ctx.tag("obs/static")
        obs = StaticObstacle(oid, otype, b_shape(case["shape"]), init, b_ids(case["cen"]), b_ids(case["shp"]), b_signal(case["sig"]), series)
    p0 = case["pred"]
    if p0 is not None and p0["k"] == "traj":
        ctx.tag("dim/state-class-" + p0["traj"].get("cls", "ks"))
        if p0["traj"].get("steps"):
            ctx.tag("dim/trajectory-gap")
        if p0.get("asg") or p0.get("wb"):
            ctx.tag("dim/prediction-ctor-options")
    scen = None
    if case["wrap"] == "scenario":
        ctx.tag("wrap/scenario")
        scen = Scenario(0.1)
        scen.add_objects(obs)

    snaps = {}

    def snapshot(v):
        p = obs.prediction if dynamic else None
        snaps[v] = {"init": copy.deepcopy(obs.initial_state),
                    "pshape": copy.deepcopy(p.shape) if isinstance(p, TrajectoryPrediction) else None,
                    "traj": copy.deepcopy(p.trajectory) if isinstance(p, TrajectoryPrediction) else None,
                    "occs": copy.deepcopy(p.occupancy_set) if (p is not None and not isinstance(p, TrajectoryPrediction)) else None}

    def pred_tok(sp, v):
        if sp is None:
            return None
        if sp["k"] == "traj":
            return {"k": "traj", "shape": v, "traj": [v, sp["traj"]["t0"], traj_steps(sp["traj"])], "queried": bool(sp.get("queried"))}
        return {"k": "setb", "v": v, "ivs": occ_ivs(sp["occ"], sp["t0"])}

    def cur_ivs():
        """time steps / intervals of the set-based prediction as the public getter shows them now"""
        from commonroad.common.util import Interval
        return [[int(o.time_step.start), int(o.time_step.end)] if isinstance(o.time_step, Interval) else [int(o.time_step), int(o.time_step)]
                for o in obs.prediction.occupancy_set]

    snapshot(0)
    if case["pred"] is not None and case["pred"]["k"] == "setb":
        ctx.tag("obs/setbased")
    HBASE = 100000            # version tokens of the states handed to the constructor as history
    for i, h in enumerate(hist0):
        snaps[HBASE + i] = {"init": b_init(h["st"])}
    m_obs = {"dynamic": dynamic, "shape": 0, "init": 0, "t0": case["init"]["t"], "pred": pred_tok(case["pred"], 0),
             "sig": case["sig"], "cen": case["cen"], "shp": case["shp"],
             "hist": [[HBASE + i, []] for i in range(len(hist0))], "sigh": [h["sig"] for h in hist0], "cenh": [h["cen"] for h in hist0],
             "shph": [h["shp"] for h in hist0]}
    m_ops, impl, kinds = [], [], []
    # independent bookkeeping for the history clause
    exp_hist = [c_state(b_init(h["st"])) for h in hist0]
    exp_sig = [c_signal(b_signal(h["sig"])) for h in hist0]
    exp_cen = [plain(b_ids(h["cen"])) for h in hist0]
    exp_shp = [plain(b_ids(h["shp"])) for h in hist0]
    all_prev, bounds = list(exp_hist), set()
    rej_pending = False       # a rejected update_initial_state appended to the lists without cutting them; the next accepted call cuts
    v = 0
    last_mut = "construction"
    shape_obs = copy.deepcopy(obs.obstacle_shape)
    taint = {"occ": None, "app": None}     # the held-trajectory mutators applied since the occupancy cache was last dropped
    motions = {}              # version -> (translation, angle) of the obstacle / scenario level translate_rotate calls

    def oracle(kind, t, got, what, idx):
        item = "state" if kind == "q_state" else ("initialOccupancy" if (kind == "q_occ" and (not dynamic or t == obs.initial_state.time_step))
                                                  else "occupancySet")
        rb = call(fresh_obstacle, obs)
        if rb[0] == "err":
            ctx.fail(f"C11/{what}/primary-data-not-constructible-after/{last_mut}",
                     f"after {last_mut} the public constructors reject the obstacle's own primary data ({rb[2]}): a mutator left it half changed", case)
            return
        fr = rb[1]
        if kind == "q_occ":
            want = res(call(fr.occupancy_at_time, t), c_occ)
        elif kind == "q_state":
            want = res(call(fr.state_at_time, t), c_state)
        else:
            want = res(call(fr.prediction.occupancy_at_time_step, t), c_occ)
        if same(got, want):
            if got is not None and not isinstance(got, dict):
                rows.agreed(item)     # (an agreeing "no occupancy there" does not show that the cached list is fresh)
        else:
            stale(ctx, case, idx, what, rows.blame(item),
                  f"{what}({t}) after {{M}} answers {json.dumps(got)[:160]}; an obstacle rebuilt from the current primary data answers "
                  f"{json.dumps(want)[:160]}", taint=taint["occ"] if item == "occupancySet" else None)

    for idx, op in enumerate(case["ops"]):
        k = op[0]
        if k.startswith("q_"):
            by_scen = len(op) > 2 and scen is not None and obs.obstacle_id in [o.obstacle_id for o in scen.obstacles]
            if by_scen:
                ctx.tag("dim/query-through-scenario")
            if k == "q_span":
                # read-only attributes of the prediction, read before the observation (they fill / walk the caches)
                pp = obs.prediction
                if pp is not None:
                    fp = fresh_pred(pp)
                    g = [res(call(lambda: pp.initial_time_step), plain), res(call(lambda: pp.final_time_step), plain), res(call(lambda: len(pp.occupancy_set)))]
                    w = [res(call(lambda: fp.initial_time_step), plain), res(call(lambda: fp.final_time_step), plain), res(call(lambda: len(fp.occupancy_set)))]
                    if isinstance(pp, TrajectoryPrediction):
                        rows.query("occupancySet")
                    if not same(g, w):
                        stale(ctx, case, idx, "prediction.occupancy_set", rows.blame("occupancySet"),
                              f"prediction time span / number of occupancies after {{M}} is {g}; a rebuilt prediction has {w}",
                              taint=taint["app"] or taint["occ"])      # (only an appended state changes the NUMBER of occupancies)
                    ctx.tag("dim/read-only-span")
                continue
            if k == "q_occ":
                t = op[1]
                if by_scen:
                    got = res(call(scen.occupancies_at_time_step, t), lambda l: c_occ(l[0]) if l else None)
                else:
                    got = res(call(obs.occupancy_at_time, t), c_occ)
                if not dynamic or t == obs.initial_state.time_step:
                    rows.query("initialOccupancy")
                elif t > obs.initial_state.time_step and isinstance(obs.prediction, TrajectoryPrediction):
                    rows.query("occupancySet")
                oracle(k, t, got, "obstacle.occupancy_at_time", idx)
                m_ops.append(["q_occ", t])
            elif k == "q_state":
                t = op[1]
                if by_scen:
                    got = res(call(scen.obstacle_states_at_time_step, t), lambda d: c_state(d.get(obs.obstacle_id)))
                else:
                    got = res(call(obs.state_at_time, t), c_state)
                oracle(k, t, got, "obstacle.state_at_time", idx)
                m_ops.append(["q_state", t])
            elif k == "q_pocc":
                t = op[1]
                if obs.prediction is None:
                    continue
                got = res(call(obs.prediction.occupancy_at_time_step, t), c_occ)
                if isinstance(obs.prediction, TrajectoryPrediction):
                    rows.query("occupancySet")
                oracle(k, t, got, "prediction.occupancy_at_time_step", idx)
                m_ops.append(["q_pocc", t])
            else:
                got = {"h": [c_state(s) for s in obs.history], "s": [c_signal(s) for s in obs.signal_history],
                       "c": [plain(s) for s in obs.center_lanelet_ids_history], "p": [plain(s) for s in obs.shape_lanelet_ids_history]}
                m_ops.append(["q_hist"])
                # oracle: the history clause of the property, from the independently kept lists
                lens = {len(got[x]) for x in "hscp"}
                if len(lens) != 1:
                    ctx.fail("C11/update_initial_state/history-lists-differ-in-length",
                             f"history lists have lengths {[len(got[x]) for x in 'hscp']} after {last_mut}", case)
                want = {"h": exp_hist, "s": exp_sig, "c": exp_cen, "p": exp_shp}
                if not (same_states(got["h"], want["h"]) and all(same(got[x], want[x]) for x in "scp")):
                    ctx.fail("C11/update_initial_state/history-not-the-most-recent-states",
                             f"history after {len(all_prev)} updates is {json.dumps(got['h'])[:200]}; the most recent previous initial states "
                             f"(each moved by the translate_rotate calls since it was replaced) are {json.dumps(want['h'])[:200]}", case)
                if rej_pending:
                    ctx.tag("hist/observed-after-rejected")
                if len(bounds) == 1 and not rej_pending and not same_states(got["h"], all_prev[-next(iter(bounds)):]):
                    ctx.fail("C11/update_initial_state/history-not-last-m",
                             f"history is not the last {next(iter(bounds))} of the {len(all_prev)} previous initial states", case)
                if all_prev:
                    ctx.tag("hist/truncated" if len(got["h"]) < len(all_prev) else "hist/not-truncated")
            impl.append(got)
            kinds.append(k)
            continue
        # ---------------- mutators
        v += 1
        p = obs.prediction if dynamic else None
        if k == "tr":
            tr, ang, via = np.array(op[1], dtype=float), op[2], op[3]
            r = call(scen.translate_rotate, tr, ang) if (via == "scenario" and scen is not None) else call(obs.translate_rotate, tr, ang)
            rows.mutate("initialOccupancy", "obsTranslateRotate")
            if isinstance(p, TrajectoryPrediction):
                rows.mutate("occupancySet", "obsTranslateRotate")
            motions[v] = (np.array(op[1], dtype=float), op[2])
            if dynamic and r[0] == "ok":
                # the recorded states are world-frame states: they move with the obstacle (independent arithmetic)
                exp_hist = [move_cstate(x, op[1], op[2]) for x in exp_hist]
                all_prev = [move_cstate(x, op[1], op[2]) for x in all_prev]
                if exp_hist:
                    ctx.tag("hist/moved")
            m_ops.append(["tr", v])
        elif k == "set_init":
            def f():
                if len(op) > 2:
                    held, fresh_st = obs.initial_state, b_init(op[1])
                    for a in fresh_st.used_attributes:
                        setattr(held, a, getattr(fresh_st, a))     # edited in place ...
                    obs.initial_state = held                       # ... and the same object through the public setter
                    ctx.tag("mut/initial-state-same-object-reassigned")
                else:
                    obs.initial_state = b_init(op[1], obs.initial_state)
            r = call(f)
            rows.mutate("initialOccupancy", "obsSetInitialState")
            m_ops.append(["set_init", v, op[1]["t"]])
        elif k == "set_shape":
            def f():
                obs.obstacle_shape = b_shape(op[1])
            r = call(f)
            rows.mutate("initialOccupancy", "obsSetShape")
            m_ops.append(["set_shape"])
        elif k == "set_pred":
            newp = b_pred(op[1])
            if op[1] is not None and op[1].get("queried"):
                ctx.tag("obs/new-pred-queried")
            if op[1] is not None and op[1]["k"] == "setb":
                ctx.tag("obs/setbased")
            if op[2] == "setter":
                def f():
                    obs.prediction = newp
                r = call(f)
            else:
                r = call(obs.update_prediction, newp)
            rows.mutate("initialOccupancy", "obsSetPrediction")
            if isinstance(p, TrajectoryPrediction) and isinstance(newp, TrajectoryPrediction):
                rows.mutate("occupancySet", "obsSetPrediction")
            m_ops.append(["set_pred", pred_tok(op[1], v)])
        elif k == "update":
            st, sg, ce, sh, m = op[1], op[2], op[3], op[4], op[5]
            prev = (c_state(obs.initial_state), c_signal(obs.initial_signal_state), plain(obs.initial_center_lanelet_ids),
                    plain(obs.initial_shape_lanelet_ids))
            kw = {} if m is None else {"max_history_length": m}
            if st.get("like"):
                ctx.tag("dim/next-state-agrees-" + "+".join(st["like"]))
            r = call(obs.update_initial_state, b_init(st, obs.initial_state), b_signal(sg), b_ids(ce), b_ids(sh), **kw)
            mm = 6000 if m is None else m
            if m is None:
                ctx.tag("hist/default-bound")
            if mm <= 0:
                ctx.tag("hist/bad-bound")
                if r[0] != "err":
                    ctx.fail("C11/update_initial_state/accepts-non-positive-bound", f"max_history_length={m} accepted", case)
            else:
                if mm == 1:
                    ctx.tag("hist/m=1")
                if bounds and mm < min(bounds) and len(exp_hist) + 1 > mm + 1:
                    ctx.tag("hist/bound-lowered")
                bounds.add(mm)
                all_prev.append(prev[0])
                if rej_pending and r[0] == "ok":
                    ctx.tag("hist/accepted-after-rejected")
                    rej_pending = False
                exp_hist = (exp_hist + [prev[0]])[-mm:]
                exp_sig = (exp_sig + [prev[1]])[-mm:]
                exp_cen = (exp_cen + [prev[2]])[-mm:]
                exp_shp = (exp_shp + [prev[3]])[-mm:]
                if r[0] == "ok" and obs.prediction is not None:
                    ctx.fail("C11/update_initial_state/prediction-not-invalidated", "prediction still set after update_initial_state", case)
            rows.mutate("initialOccupancy", "obsUpdateInitialState")
            if isinstance(p, TrajectoryPrediction):
                rows.mutate("occupancySet", "obsUpdateInitialState")
            m_ops.append(["update", v, st["t"], sg, ce, sh, mm])
        elif k == "update_rej":
            st, sg, ce, sh, m, bad = op[1], op[2], op[3], op[4], op[5], {int(a): b for a, b in op[6].items()}
            k_bad = min(bad)
            prev = (c_state(obs.initial_state), c_signal(obs.initial_signal_state), plain(obs.initial_center_lanelet_ids),
                    plain(obs.initial_shape_lanelet_ids))
            len_before = [len(obs.history), len(obs.signal_history), len(obs.center_lanelet_ids_history), len(obs.shape_lanelet_ids_history)]
            args = [b_init(st, obs.initial_state), b_signal(sg), b_ids(ce), b_ids(sh)]
            for a, how in bad.items():
                args[a] = b_bad_arg(a, how, [None, None, ce, sh][a])
            kw = {} if m is None else {"max_history_length": m}
            r = call(obs.update_initial_state, *args, **kw)
            mm = 6000 if m is None else m
            ctx.tag("dim/update-rejected-then-calls")
            ctx.tag(f"hist/rejected-arg-{k_bad}")
            if len(bad) > 1:
                ctx.tag("hist/rejected-several-args")
            if any("np-int" in b for b in bad.values()):
                ctx.tag("hist/rejected-numpy-ids")
            if r[0] == "ok":
                # the library took the argument after all (e.g. it learnt to accept numpy integers): not a rejected call, nothing this
                # dimension is about - the case is outside the quantifier from here on (the hist/rejected-arg-* buckets notice a total loss)
                ctx.excluded += 1
                ctx.tag("hist/invalid-argument-accepted")
                return
            # oracle: a rejected call leaves the four lists as they were, or all four one entry longer by the four values that were current
            # together when the call began - nothing in between (the property's 'all history lists of equal length', entry i of each list
            # belonging to the same previous state); the bound is owed again by the next accepted call
            len_after = [len(obs.history), len(obs.signal_history), len(obs.center_lanelet_ids_history), len(obs.shape_lanelet_ids_history)]
            grew = [b - a for a, b in zip(len_before, len_after)]
            if len(set(grew)) != 1:
                ctx.fail("C11/update_initial_state/history-lists-differ-in-length/after-rejected-call",
                         f"update_initial_state rejected its argument {k_bad} ({bad[k_bad]}, {r[1]}) and left the lengths of history / "
                         f"signal_history / center_lanelet_ids_history / shape_lanelet_ids_history at {len_after} (before the call: {len_before})", case)
            if grew[0] == 1:
                all_prev.append(prev[0])
                exp_hist, exp_sig, exp_cen, exp_shp = exp_hist + [prev[0]], exp_sig + [prev[1]], exp_cen + [prev[2]], exp_shp + [prev[3]]
                rej_pending = True
                ctx.tag("hist/rejected-call-appended")
            elif grew[0] != 0:
                ctx.fail("C11/update_initial_state/history-changed-by-rejected-call",
                         f"a rejected update_initial_state changed the length of history from {len_before[0]} to {len_after[0]}", case)
            if k_bad >= 1:
                rows.mutate("initialOccupancy", "obsSetInitialState")      # the state setter was reached
            m_ops.append(["update_rej", k_bad, v, st["t"], sg, ce, mm])
        elif k in ("p_shape", "p_traj", "p_wb", "p_asg", "p_tr", "t_tr", "t_app"):
            if p is None:
                v -= 1
                continue
            if k in ("t_tr", "t_app") and not isinstance(p, TrajectoryPrediction):
                v -= 1
                continue
            if k == "t_tr":
                # a mutator of the held trajectory: the prediction is not told (known finding, C11_witness_held_trajectory_translate)
                r = call(p.trajectory.translate_rotate, np.array(op[1], dtype=float), op[2])
                ctx.tag("mut/held-trajectory-translate")
                rows.mutate("occupancySet", "trajTranslateRotate")
                m_ops.append(["t_tr", v])
            elif k == "t_app":
                gap = op[2] if len(op) > 2 else 0
                t_new = p.trajectory.final_state.time_step + 1 + gap
                cls = "pm" if type(p.trajectory.final_state).__name__ == "PMState" else ("unc" if not isinstance(p.trajectory.final_state.position, np.ndarray) else "ks")
                r = call(p.trajectory.append_state, b_tstate(cls, t_new, op[1]))
                ctx.tag("mut/held-trajectory-append")
                if gap:
                    ctx.tag("dim/trajectory-gap")
                rows.mutate("occupancySet", "trajAppendState")
                m_ops.append(["t_app", v, t_new])
            elif k == "p_tr":
                r = call(p.translate_rotate, np.array(op[1], dtype=float), op[2])
                rows.mutate("occupancySet", "predTranslateRotate")
                m_ops.append(["p_tr", v])
            elif not isinstance(p, TrajectoryPrediction):
                v -= 1
                continue
            elif k == "p_shape":
                def f():
                    p.shape = b_shape(op[1])
                r = call(f)
                rows.mutate("occupancySet", "predSetShape")
                m_ops.append(["p_shape", v])
            elif k == "p_traj":
                def f():
                    if len(op) > 2:
                        held = p.trajectory
                        held.translate_rotate(np.array(op[2], dtype=float), 0.0)
                        p.trajectory = held          # the same object through the public setter
                        ctx.tag("mut/trajectory-same-object-reassigned")
                    else:
                        p.trajectory = b_traj(op[1])
                r = call(f)
                rows.mutate("occupancySet", "predSetTrajectory")
                m_ops.append(["p_traj", [v, op[1]["t0"], traj_steps(op[1])]])
                if op[1].get("steps"):
                    ctx.tag("dim/trajectory-gap")
                ctx.tag("dim/state-class-" + op[1].get("cls", "ks"))
            elif k == "p_wb":
                def f():
                    p.wheelbase_lengths = op[1]
                r = call(f)
                rows.mutate("occupancySet", "predSetWheelbase")
                m_ops.append(["p_wb"])
            else:
                val = None if op[2] is None else {int(a): set(b) for a, b in op[2].items()}

                def f():
                    if op[1] == "center":
                        p.center_lanelet_assignment = val
                    else:
                        p.shape_lanelet_assignment = val
                r = call(f)
                rows.mutate("occupancySet", "predSetAssignment")
                m_ops.append(["p_asg"])
        elif k == "set_meta":
            def f():
                obs.initial_signal_state = b_signal(op[1])
                obs.initial_center_lanelet_ids = b_ids(op[2])
                obs.initial_shape_lanelet_ids = b_ids(op[3])
            r = call(f)
            ctx.tag("dim/meta-setters")
            m_ops.append(["set_meta", op[1], op[2], op[3]])
        elif k == "fail":
            fk = op[1]
            from commonroad.scenario.state import KSState
            bad_state = KSState(time_step=0, position=np.array([0.0, 0.0]), orientation=0.0, velocity=0.0)

            def f():
                if fk == "set_init_type":
                    obs.initial_state = bad_state                 # not an InitialState
                elif fk == "tr_angle":
                    obs.translate_rotate(np.array([1.0, 2.0]), 7.0)      # angle outside [-2 pi, 2 pi]
                elif fk == "set_pred_type":
                    obs.prediction = 5
                elif fk == "t_app_past":
                    p.trajectory.append_state(b_tstate("ks", p.trajectory.final_state.time_step, [0.0, 0.0, 0.0, 0.0]))   # not a later step
                elif fk == "p_shape_type":
                    p.shape = 3
                elif fk == "p_traj_type":
                    p.trajectory = [1, 2]
            if fk in ("t_app_past", "p_shape_type", "p_traj_type") and not isinstance(p, TrajectoryPrediction):
                v -= 1
                continue
            r = call(f)
            if r[0] == "ok":
                ctx.fail(f"C11/{fk}/accepted", f"the malformed call {fk} did not raise", case)
            ctx.tag("dim/raising-mutator-then-queries")
            m_ops.append(["failed", r[1] if r[0] == "err" else "other"])
        elif k == "p_occs":
            from commonroad.prediction.prediction import SetBasedPrediction
            if not isinstance(p, SetBasedPrediction):
                v -= 1
                continue
            how = op[1]

            def f():
                if how == "setter":
                    p.occupancy_set = b_occs(op[2], p.initial_time_step)
                elif how == "tr":
                    p.occupancy_set[op[2]].translate_rotate(np.array(op[3], dtype=float), op[4])
                elif how == "shape":
                    p.occupancy_set[op[2]].shape = b_shape(op[3])
                else:
                    from commonroad.common.util import Interval
                    p.occupancy_set[op[2]].time_step = op[3] if isinstance(op[3], int) else Interval(op[3][0], op[3][1])
            r = call(f)
            ctx.tag("dim/setbased-" + how)
            m_ops.append(["p_occs", v, cur_ivs()])
        else:
            raise InfraError(f"unknown obs op {k}")
        last_mut = "Scenario.translate_rotate" if (k == "tr" and op[3] == "scenario") else MUT_NAMES[k]
        rows.did(last_mut)
        if r[0] == "ok":
            if k in ("t_tr", "t_app"):
                taint["occ"] = taint["occ"] or last_mut
                if k == "t_app":
                    taint["app"] = last_mut
            elif k in ("tr", "p_tr", "p_shape", "p_traj", "p_wb", "set_pred") or (k == "update" and obs.prediction is None):
                taint["occ"] = taint["app"] = None      # these drop the occupancy cache (or bring another prediction object)
        snapshot(v)
        impl.append("ok" if r[0] == "ok" else {"err": r[1]})
        kinds.append(k)
        # every raising mutator generated here raises before it changes anything: the history goes on

    ctx.case(case)
    if not model:
        return
    out = ctx.driver.ask("C11", "obs_run", {"obs": m_obs, "ops": m_ops})

    def mat(a):
        """materialise a model answer (version tokens) as the canonical value of a fresh object built from the snapshots"""
        from commonroad.prediction.prediction import Occupancy
        from commonroad.geometry.shape import occupancy_shape_from_state
        if not isinstance(a, list) or not a or not isinstance(a[0], str):
            return a
        if a[0] == "none":
            return None
        if a[0] == "init" and len(a) == 4:
            return c_occ(Occupancy(a[3], occupancy_shape_from_state(copy.deepcopy(shape_obs), copy.deepcopy(snaps[a[2]]["init"]))))
        if a[0] == "init":
            return c_state(snaps[a[1]]["init"])
        if a[0] == "traj" and len(a) == 4:
            fp = TrajectoryPrediction(copy.deepcopy(snaps[a[2]]["traj"]), copy.deepcopy(snaps[a[1]]["pshape"]))
            return res(call(fp.occupancy_at_time_step, a[3]), c_occ)
        if a[0] == "traj":
            return c_state(snaps[a[1]]["traj"].state_at_time_step(a[2]))
        if a[0] == "setb":
            from commonroad.common.util import Interval
            for o in snaps[a[1]]["occs"]:
                if (o.time_step.contains(a[2]) if isinstance(o.time_step, Interval) else o.time_step == a[2]):
                    return c_occ(o)
            return None
        return a

    def moved(base, moves):
        st = copy.deepcopy(snaps[base]["init"])
        for w in moves:
            st = st.translate_rotate(*motions[w])
        return st

    def mat_hist(a):
        return {"h": [c_state(moved(b, ms)) for b, ms in a["h"]], "s": [c_signal(b_signal(x)) for x in a["s"]],
                "c": [plain(b_ids(x)) for x in a["c"]], "p": [plain(b_ids(x)) for x in a["p"]]}

    model_out = []
    for k, a in zip(kinds, out):
        if k == "q_hist":
            model_out.append(mat_hist(a))
        elif k.startswith("q_"):
            model_out.append(mat(a))
        else:
            model_out.append(a)
    compare(ctx, case, impl, model_out, "obstacle / prediction history vs CR.Cache.Obs.run")


def compare(ctx, case, impl, model_out, what):
    """ctx.compare with float tolerance: answers that agree to TOL count as equal."""
    shown = [b if same(a, b) else a for a, b in zip(impl, model_out)] + impl[len(model_out):]
    ctx.compare(case, shown, list(model_out[:len(impl)]) if len(model_out) >= len(impl) else list(model_out), what)


# ------------------------------------------------------------------------------------------------ lanelets / network

def g_lanelet(r, lid, allow3d=True):
    n = r.choice([2, 3, 4, 6])
    sp = {"id": lid, "x0": r.randint(-20, 20) * 5.0, "y0": r.randint(-10, 10) * 4.0, "n": n, "dx": r.choice([5.0, 2.5, 10.0]),
          "w": r.choice([2.0, 3.0, 4.0]), "bend": r.choice([0.0, 0.0, 0.25, -0.125]), "taper": r.choice([0.0, 0.0, 0.125]), "z": None, "pre": []}
    if allow3d and r.random() < 0.25:
        sp["z"] = [r.choice([0.0, 1.0, 2.5, 4.0]) * j for j in range(n)]
    if r.random() < 0.3:
        sp["pre"] = r.choice([["dist"], ["inner"], ["dist", "inner"]])
    if sp["z"] is None and r.random() < 0.12:
        sp["int"] = True               # integer vertex arrays (translate_rotate turns them into floats)
    if sp["z"] is None and r.random() < 0.2:
        sp["stop"] = True              # a stop line, which translate_rotate / convert_to_2d handle before the polygon is rebuilt
    return sp


def lanelet_arrays(sp):
    import numpy as np
    c, le, ri = [], [], []
    for j in range(sp["n"]):
        x = sp["x0"] + j * sp["dx"]
        y = sp["y0"] + sp["bend"] * j * j
        h = sp["w"] / 2.0 + sp["taper"] * j
        z = [] if sp["z"] is None else [sp["z"][j]]
        c.append([x, y] + z)
        le.append([x, y + h] + ([] if sp["z"] is None else [sp["z"][j] * 1.5]))
        ri.append([x, y - h] + z)
    if sp.get("int"):
        return tuple(np.rint(np.array(a, dtype=float)).astype(int) for a in (le, c, ri))
    return np.array(le, dtype=float), np.array(c, dtype=float), np.array(ri, dtype=float)


def b_lanelet(sp):
    import numpy as np
    from commonroad.scenario.lanelet import Lanelet, LineMarking, StopLine
    le, c, ri = lanelet_arrays(sp)
    stop = StopLine(np.array(le[-1][:2], dtype=float), np.array(ri[-1][:2], dtype=float), LineMarking.SOLID) if sp.get("stop") else None
    la = Lanelet(le, c, ri, sp["id"], stop_line=stop)
    for q in sp["pre"]:
        _ = la.distance if q == "dist" else la.inner_distance
    return la


def fresh_lanelet(la):
    from commonroad.scenario.lanelet import Lanelet
    return Lanelet(copy.deepcopy(la.left_vertices), copy.deepcopy(la.center_vertices), copy.deepcopy(la.right_vertices), la.lanelet_id)


def lan_tok(sp, v):
    return {"geo": v, "xy": v, "intr": v, "is3d": sp["z"] is not None, "dist": v if "dist" in sp["pre"] else None,
            "inner": v if "inner" in sp["pre"] else None}


def q_lanelet(la, k, how=None):
    """the cached values of a lanelet, read directly or through the other public readers of the same caches"""
    import numpy as np
    if k == "q_poly":
        if how == "convert":
            return res(call(lambda: la.convert_to_polygon().vertices), plain)          # deprecated alias of .polygon
        if how == "contains":
            c = la.center_vertices
            pts = np.array([[(c[0][0] + c[1][0]) / 2.0, (c[0][1] + c[1][1]) / 2.0], [c[0][0] - 50.0, c[0][1] + 33.0]], dtype=float)
            return res(call(la.contains_points, pts), plain)
        return res(call(lambda: la.polygon.vertices), plain)
    if k == "q_dist":
        if how == "interp":
            # interpolate_position walks the cumulative distances (and fills the cache); 37 % of the lanelet's length as the vertices give it
            d = 0.37 * float(np.sum(np.linalg.norm(np.diff(la.center_vertices, axis=0), axis=1)))
            return res(call(la.interpolate_position, d), lambda v: [plain(v[0]), plain(v[1]), plain(v[2]), int(v[3])])
        return res(call(lambda: la.distance), plain)
    return res(call(lambda: la.inner_distance), plain)


def ask_lanelet(ctx, la, k, how):
    """(answer used for the correspondence, [(reader name, got, want)] judged by the oracle against a rebuilt lanelet)"""
    fr = fresh_lanelet(la)
    checks = []
    if how == "interp":
        ctx.tag("dim/lanelet-reader-interpolate")
        checks.append(("lanelet.interpolate_position", q_lanelet(la, k, "interp"), q_lanelet(fr, k, "interp")))
        how = None
    elif how:
        ctx.tag("dim/lanelet-reader-" + how)
    got = q_lanelet(la, k, how)
    checks.append((LAN_Q[k], got, q_lanelet(fr, k, how)))
    return got, checks


LAN_ITEM = {"q_poly": "laneletPolygon", "q_dist": "laneletDistance", "q_inner": "laneletInnerDistance"}
LAN_Q = {"q_poly": "lanelet.polygon", "q_dist": "lanelet.distance", "q_inner": "lanelet.inner_distance"}


def gen_lan(ctx):
    r = ctx.rng
    sp = g_lanelet(r, 1)
    if r.random() < 0.35 and sp["z"] is None:
        sp["z"] = [1.5 * j for j in range(sp["n"])]
    is3d = sp["z"] is not None
    ops = []

    def queries():
        qs = [[q] for q in ("q_poly", "q_dist", "q_inner") if r.random() < 0.8] or [["q_dist"]]
        for q in qs:
            if q[0] == "q_poly" and r.random() < 0.3:
                q.append(r.choice(["convert", "contains"]))
            if q[0] == "q_dist" and r.random() < 0.3 and not is3d:
                q.append("interp")
        r.shuffle(qs)
        return qs
    ops += queries()
    for _ in range(r.choice([1, 2, 3])):
        if is3d and r.random() < 0.75:
            ops.append(["to2d"])
            is3d = False
        elif r.random() < 0.2:
            ops.append(["to2d"])
            is3d = False
        else:
            t, a = g_motion_nz(r)
            ops.append(["tr", t, a])
        ops += queries()
    return {"fam": "lan", "lan": sp, "ops": ops[:12]}


def run_lan(ctx, case, model=True):
    import numpy as np
    rows = Rows(ctx)
    ctx.tag("fam/lan")
    sp = case["lan"]
    if sp["z"] is not None:
        ctx.tag("lan/3d")
    if sp.get("int"):
        ctx.tag("dim/lanelet-int-vertices")
    if sp.get("stop"):
        ctx.tag("dim/lanelet-stop-line")
    la = b_lanelet(sp)
    for q in sp["pre"]:
        rows.query("laneletDistance" if q == "dist" else "laneletInnerDistance")
    rows.query("laneletPolygon")
    snaps = {0: fresh_lanelet(la)}
    m_ops, impl, kinds, hows = [], [], [], []
    v = 0
    last_mut = "construction"
    for idx, op in enumerate(case["ops"]):
        k = op[0]
        if k.startswith("q_"):
            how = op[1] if len(op) > 1 else None
            got, checks = ask_lanelet(ctx, la, k, how)
            rows.query(LAN_ITEM[k])
            for name, g, w in checks:
                if same(g, w):
                    rows.agreed(LAN_ITEM[k])
                else:
                    stale(ctx, case, idx, name, rows.blame(LAN_ITEM[k]),
                          f"{name} after {{M}} is {json.dumps(g)[:160]}; a lanelet rebuilt from the current vertices gives "
                          f"{json.dumps(w)[:160]}")
            impl.append(got)
            m_ops.append([k])
            kinds.append(k)
            hows.append(None if how == "interp" else how)
            continue
        v += 1
        if k == "tr":
            r = call(la.translate_rotate, np.array(op[1], dtype=float), op[2])
            if r[0] == "err":
                ctx.tag("lan/3d-move-raises")
            for it in LAN_ITEM.values():
                rows.mutate(it, "lanTranslateRotate")
            m_ops.append(["tr", v])
        else:
            r = call(la.convert_to_2d)
            for it in LAN_ITEM.values():
                rows.mutate(it, "lanConvert2d")
            m_ops.append(["to2d", v])
        last_mut = LAN_NAMES[k]
        rows.did(last_mut)
        snaps[v] = fresh_lanelet(la)
        impl.append("ok" if r[0] == "ok" else {"err": r[1]})
        kinds.append(k)
        hows.append(None)
        # translate_rotate on 3-D vertices raises before anything is assigned: the history goes on
    ctx.case(case)
    if not model:
        return
    out = ctx.driver.ask("C11", "lan_run", {"lan": lan_tok(sp, 0), "ops": m_ops})
    model_out = [q_lanelet(fresh_lanelet(snaps[a]), k, h) if (k.startswith("q_") and isinstance(a, int)) else a for k, a, h in zip(kinds, out, hows)]
    compare(ctx, case, impl, model_out, "lanelet history vs CR.Cache.Lan.run")


def g_remove_list(r, present, seen, unreg):
    """Argument of Scenario.remove_lanelet: 1..3 lanelets of the network, then possibly spoilt — a stranger (id never in the network, or
    removed earlier), the same lanelet twice, a lanelet the scenario has not registered — at any position of the list."""
    ids = r.sample(sorted(present), min(len(present), r.choice([1, 2, 2, 3])))
    gone = [lid for lid in seen if lid not in present]
    if r.random() < 0.6:
        spoil = r.choice(["stranger", "stranger", "twice", "unregistered"] + (["unregistered"] * 4 if set(present) & set(unreg) else []))
        if spoil == "stranger":
            ids.insert(r.randrange(0, len(ids) + 1), r.choice(gone + [99]))
        elif spoil == "twice":
            ids.insert(r.randrange(1, len(ids) + 1), ids[0])
        else:
            u = sorted(set(present) & set(unreg))
            if u:
                x = r.choice(u)
                if x in ids:
                    ids.remove(x)
                ids.insert(r.randrange(0, len(ids) + 1), x)
    opts = {}
    if len(ids) == 1 and r.random() < 0.5:
        opts["single"] = True                     # scenario.remove_lanelet(lanelet) instead of ([lanelet])
    if r.random() < 0.25:
        opts["ref"] = False                       # referenced_elements=False
    return ids, opts


def removed_by_list(ids, present, unreg):
    """Which lanelets Scenario.remove_lanelet(list) takes out of the network as its documentation says: in order, until an entry is not in
    the network (KeyError before anything happens to it) or not in the scenario's id set (KeyError after the network dropped it)."""
    left, out = set(present), []
    for lid in ids:
        if lid not in left:
            break
        left.discard(lid)
        out.append(lid)
        if lid in unreg:
            break
    return out


STRANGER = {"x0": 500.0, "y0": 300.0, "n": 2, "dx": 5.0, "w": 2.0, "bend": 0.0, "taper": 0.0, "z": None, "pre": []}


def gen_net(ctx):
    r = ctx.rng
    wrap = r.choice(["none", "none", "scenario"])
    n0 = r.choice([0, 1, 2, 3, 4])
    allow3d = r.random() < 0.35
    next_id = 1
    lans = []
    for _ in range(n0):
        lans.append(g_lanelet(r, next_id, allow3d))
        next_id += 1
    case = {"fam": "net", "wrap": wrap, "built": "list" if n0 else "empty", "lanelets": lans, "ops": [], "cleanup": r.random() < 0.5}
    present = {sp["id"]: sp["z"] is not None for sp in lans}   # id -> is3d
    seen = {sp["id"]: [0] for sp in lans}                      # id -> versions at which its place changed (for old-place probes)
    ops = case["ops"]
    v = 0
    tree = bool(n0)
    unreg = set()                                              # ids in the scenario's network the scenario has not registered
    ops_mut = []

    def queries():
        qs = []
        if tree or r.random() < 0.1:
            pts = []
            for lid in list(present)[:4]:
                pts.append([lid, "cur", r.randrange(0, 6)])
                if len(seen[lid]) > 1 and r.random() < 0.8:
                    pts.append([lid, seen[lid][r.randrange(0, len(seen[lid]) - 1)], r.randrange(0, 6)])
            for lid in seen:
                if lid not in present and r.random() < 0.7:
                    pts.append([lid, seen[lid][-1], 0])
            pts.append([0, "far", 0])
            qs.append(["q_find", r.choice(["pos", "pos", "circle", "rect", "state", "subnet"]), pts])
        for lid in r.sample(sorted(present), min(len(present), 2)):
            q = [r.choice(["q_poly", "q_dist", "q_inner"]), lid]
            if q[0] == "q_poly" and r.random() < 0.3:
                q.append(r.choice(["convert", "contains"]))
            if q[0] == "q_dist" and r.random() < 0.3 and not present[lid]:
                q.append("interp")
            qs.append(q)
        r.shuffle(qs)
        return qs
    ops += queries()
    for _ in range(r.choice([1, 2, 3, 4])):
        kinds = ["add", "add", "tr", "tr", "tr", "deepcopy", "pickle", "to2d"]
        if present:
            kinds += ["remove", "remove"]
        if wrap == "none":
            kinds += ["add_from"]
        if present:
            kinds += ["l_tr", "l_tr", "l_to2d"]
        kinds += ["create_from", "fail"]
        if wrap == "scenario":
            kinds += ["replace", "replace"] + (["remove_many", "remove_many"] if present else [])
            if set(present) & unreg:
                kinds += ["remove_many"] * 6 + ["replace"] * 6 + ["remove"] * 3       # a lanelet the scenario has not registered is there
        k = r.choice(kinds)
        force_unreg = wrap == "scenario" and not ops_mut and r.random() < 0.3
        if force_unreg:
            k = "add"           # start with a lanelet added behind the scenario's back: scenario.lanelet_network.add_lanelet(…)
        ops_mut.append(k)
        v += 1
        if k == "create_from":
            # continue on the network built by the alternative constructor create_from_lanelet_network (unwrapped networks only)
            if wrap == "scenario":
                v -= 1
                continue
            ops.append(["create_from"])
            tree = True
            ops += queries()
            continue
        if k == "fail":
            # a mutator that raises before it changes anything; the history goes on
            ops.append(["fail", r.choice(["tr_angle", "add_type", "tr_vector"])])
            ops += queries()
            continue
        if k == "replace":
            sps = []
            for _i in range(r.choice([1, 2, 3])):
                sps.append(g_lanelet(r, next_id, False))
                next_id += 1
            method = r.choice(["replace_lanelet_network", "add_objects"])
            ops.append(["replace", sps, method])
            if method == "replace_lanelet_network" and set(present) & unreg:
                # erase_lanelet_network removes lanelet by lanelet and raises at the first one the scenario has not registered
                for lid in removed_by_list(list(present), present, unreg):
                    present.pop(lid, None)
            else:
                present = {sp["id"]: False for sp in sps}
                for sp in sps:
                    seen[sp["id"]] = [v]
            tree = True
            ops += queries()
            continue
        if k == "remove_many":
            # Scenario.remove_lanelet with a list (or one lanelet) that may name strangers, a lanelet twice, or a lanelet the
            # scenario never registered: the call raises half way, after the removals before the offending entry
            ids, opts = g_remove_list(r, present, seen, unreg)
            ops.append(["remove_many", ids, opts])
            for lid in removed_by_list(ids, present, unreg):
                present.pop(lid, None)
            v += len(ids) - 1                         # (one version per entry)
            ops += queries()
            continue
        if k in ("l_tr", "l_to2d"):
            # a mutator of ONE lanelet the network holds: network.find_lanelet_by_id(id).translate_rotate(…) / .convert_to_2d()
            flat = [lid for lid, z in present.items() if not z]
            lid = r.choice(flat) if (flat and (k == "l_tr" and r.random() < 0.9)) else r.choice(sorted(present))
            if k == "l_tr":
                t, a = g_motion_nz(r)
                ops.append(["l_tr", lid, t, a])
                seen[lid].append(v)
            else:
                ops.append(["l_to2d", lid])
                present[lid] = False
            ops += queries()
            if k == "l_tr" and r.random() < 0.5:
                # something that rebuilds the tree from the stored polygons: the stale entry survives it
                v += 1
                ops.append([r.choice(["deepcopy", "pickle"])])
                ops += queries()
            if len(ops) >= 12:
                break
            continue
        if k == "add_from":
            sps = []
            for _i in range(r.choice([1, 2, 3])):
                if present and r.random() < 0.25:
                    sps.append(g_lanelet(r, r.choice(sorted(present)), allow3d))     # already there: refused, and the loop stops adding
                else:
                    sps.append(g_lanelet(r, next_id, allow3d))
                    next_id += 1
            ops.append(["add_from", sps])
            for sp in sps:
                if sp["id"] in present:
                    break
                present[sp["id"]] = sp["z"] is not None
                seen[sp["id"]] = [v]
            tree = True
            ops += queries()
            if len(ops) >= 12:
                break
            continue
        if k == "add":
            if r.random() < 0.1 and present and not force_unreg:
                sp = g_lanelet(r, r.choice(sorted(present)), allow3d)     # duplicate id: refused
                ops.append(["add", sp, True, "net"])
            else:
                sp = g_lanelet(r, next_id, allow3d)
                next_id += 1
                rt = not (wrap == "none" and r.random() < 0.12)
                via = "scenario" if (wrap == "scenario" and r.random() < 0.6 and not force_unreg) else "net"
                if wrap == "scenario" and via == "net":
                    unreg.add(sp["id"])               # scenario.lanelet_network.add_lanelet(…): the scenario's id set does not learn the id
                ops.append(["add", sp, rt, via])
                present[sp["id"]] = sp["z"] is not None
                seen[sp["id"]] = [v]
                tree = rt or tree
        elif k == "remove":
            lid = r.choice(sorted(present) + ([99] if wrap == "none" else []))
            rt = not (wrap == "none" and r.random() < 0.12)
            ops.append(["remove", lid, rt, "scenario" if wrap == "scenario" else "net"])
            present.pop(lid, None)
            tree = rt or tree
        elif k == "tr":
            if any(present.values()):
                if r.random() < 0.5:
                    ops.append(["to2d", "scenario" if wrap == "scenario" and r.random() < 0.5 else "net"])
                    for lid in present:
                        present[lid] = False
                    ops += queries()
                    v += 1
            t, a = g_motion_nz(r)
            ops.append(["tr", t, a, "scenario" if wrap == "scenario" and r.random() < 0.6 else "net"])
            for lid in present:
                seen[lid].append(v)
        elif k == "to2d":
            ops.append(["to2d", "scenario" if wrap == "scenario" and r.random() < 0.5 else "net"])
            for lid in present:
                present[lid] = False
        else:
            ops.append([k])
            tree = True
        ops += queries()
        if len(ops) >= 12:
            break
    case["ops"] = ops[:14]
    return case


def fresh_network(lanelets):
    from commonroad.scenario.lanelet import LaneletNetwork
    return LaneletNetwork.create_from_lanelet_list([fresh_lanelet(la) for la in lanelets], cleanup_ids=False)


def probe_point(la, j):
    """A point well inside the lanelet: the middle of centre segment j (x, y only)."""
    c = la.center_vertices
    j = j % (len(c) - 1)
    return [float((c[j][0] + c[j + 1][0]) / 2.0), float((c[j][1] + c[j + 1][1]) / 2.0)]


def q_find(net, kind, pts):
    import numpy as np
    from commonroad.geometry.shape import Circle, Rectangle
    if kind == "pos":
        return res(call(net.find_lanelet_by_position, [np.array(p, dtype=float) for p in pts]), lambda v: [sorted(int(i) for i in x) for x in v])
    out = []
    if kind == "state":
        # the lookup behind obstacle assignment: one state at a time (it raises IndexError where no lanelet is found)
        from commonroad.scenario.state import KSState
        for p in pts:
            st = KSState(time_step=0, position=np.array(p, dtype=float), orientation=0.0, velocity=0.0)
            out.append(res(call(net.find_most_likely_lanelet_by_state, [st]), lambda v: [int(i) for i in v]))
        return out
    if kind == "subnet":
        # the alternative constructor with a region: it selects the lanelets through the source network's spatial index
        from commonroad.scenario.lanelet import LaneletNetwork
        for p in pts:
            out.append(res(call(LaneletNetwork.create_from_lanelet_network, net, Circle(0.4, np.array(p, dtype=float))),
                           lambda n: sorted(int(l.lanelet_id) for l in n.lanelets)))
        return out
    for p in pts:
        sh = Circle(0.4, np.array(p, dtype=float)) if kind == "circle" else Rectangle(0.6, 0.4, np.array(p, dtype=float), 0.3)
        out.append(res(call(net.find_lanelet_by_shape, sh), lambda v: sorted(int(i) for i in v)))
    errs = [o for o in out if isinstance(o, dict)]
    return errs[0] if errs else out


def run_net(ctx, case, model=True):
    import numpy as np
    from commonroad.scenario.lanelet import LaneletNetwork
    from commonroad.scenario.scenario import Scenario
    rows = Rows(ctx)
    ctx.tag("fam/net")
    lans = [b_lanelet(sp) for sp in case["lanelets"]]
    if any(sp["z"] is not None for sp in case["lanelets"]):
        ctx.tag("net/3d")
    if case["built"] == "list":
        net = LaneletNetwork.create_from_lanelet_list(lans, cleanup_ids=bool(case.get("cleanup")))
    else:
        net = LaneletNetwork()
    for sp in case["lanelets"]:
        if sp.get("int"):
            ctx.tag("dim/lanelet-int-vertices")
        if sp.get("stop"):
            ctx.tag("dim/lanelet-stop-line")
    scen = None
    reg = set()             # the harness's own account of the lanelet ids the scenario has registered (add_objects)
    graveyard = {}          # lanelet objects that were in the network once
    half_removed = [False]  # Scenario.remove_lanelet raised after it had removed lanelets, no other mutator since
    if case["wrap"] == "scenario":
        ctx.tag("wrap/scenario")
        scen = Scenario(0.1)
        scen.add_objects(net)
        reg = {sp["id"] for sp in case["lanelets"]}

    def cur():
        return scen.lanelet_network if scen is not None else net

    snaps = {}

    def snapshot(v):
        snaps[v] = {la.lanelet_id: fresh_lanelet(la) for la in cur().lanelets}
    snapshot(0)
    if cur().lanelets:
        rows.query("laneletPolygon")
    m_lans = [[sp["id"], lan_tok(sp, 0)] for sp in case["lanelets"]]
    m_ops, impl, kinds, qargs = [], [], [], []
    v = 0
    last_mut = "construction"
    suspended = False       # an rtree=False call asked for a stale index (an empty LaneletNetwork() has an empty index, fix 790d303)
    taint = {}              # lanelet id -> the member-level mutator that moved it since its index entry was last rebuilt
    rebuilt_while_tainted = [False]
    half_moved = [False]    # a network-level translate_rotate raised half way (3-D lanelet): some lanelets moved, the index was not rebuilt

    for idx, op in enumerate(case["ops"]):
        k = op[0]
        nw = cur()
        if k == "q_find":
            pts = []
            for lid, ver, j in op[2]:
                if ver == "far":
                    pts.append([12345.5, -6789.25])
                    continue
                src = None
                if ver == "cur":
                    src = next((la for la in nw.lanelets if la.lanelet_id == lid), None)
                else:
                    src = snaps.get(ver, {}).get(lid)
                    if src is not None and ver < v:
                        ctx.tag("net/old-place")
                if src is not None:
                    pts.append(probe_point(src, j))
            qkind = op[1]
            if qkind == "state" and (taint or suspended or half_moved[0]):
                qkind = "pos"      # (with a stale entry the tie-break of this lookup mixes old polygons and new vertices)
            if qkind != "pos":
                ctx.tag("net/by-shape")
            if qkind in ("state", "subnet"):
                ctx.tag("dim/index-reader-" + qkind)
            if qkind == "subnet":
                # create_from_lanelet_network(network, region) selects by the CURRENT polygon of every lanelet (not by the index):
                # a reader of the lanelets' polygon caches, judged by the oracle only
                got = q_find(nw, qkind, pts)
                want = q_find(fresh_network(nw.lanelets), qkind, pts)
                rows.query("laneletPolygon")
                if not same(got, want):
                    stale(ctx, case, idx, "create_from_lanelet_network", rows.blame("laneletPolygon"),
                          f"create_from_lanelet_network(network, region) after {{M}} selects {json.dumps(got)[:160]} for {json.dumps(pts)[:120]}; "
                          f"on a network rebuilt from the current lanelets it selects {json.dumps(want)[:160]}")
                continue
            if qkind == "state":
                # find_most_likely_lanelet_by_state reads the index AND the current vertices (tie-break by orientation): judged by the
                # oracle only (the model's tokens would mix index versions and vertex versions)
                got = q_find(nw, qkind, pts)
                want = q_find(fresh_network(nw.lanelets), qkind, pts)
                rows.query("networkIndex")
                if not same(got, want):
                    stale(ctx, case, idx, "find_most_likely_lanelet_by_state", rows.blame("networkIndex"),
                          f"find_most_likely_lanelet_by_state after {{M}} answers {json.dumps(got)[:160]} for {json.dumps(pts)[:120]}; a network "
                          f"rebuilt from the current lanelets answers {json.dumps(want)[:160]}")
                continue
            got = q_find(nw, qkind, pts)
            rows.query("networkIndex")
            if not suspended and not half_moved[0]:
                if half_removed[0]:
                    ctx.tag("dim/half-removed-list-then-lookup")
                want = q_find(fresh_network(nw.lanelets), qkind, pts)
                if same(got, want):
                    rows.agreed("networkIndex")
                else:
                    site = "find_lanelet_by_position" if qkind in ("pos", "state") else "find_lanelet_by_shape"
                    if taint and rebuilt_while_tainted[0]:
                        ctx.tag("net/stale-entry-survives-rebuild")
                    stale(ctx, case, idx, site, rows.blame("networkIndex"),
                          f"{site} after {{M}} answers {json.dumps(got)[:160]} for {json.dumps(pts)[:120]}; a network rebuilt from the "
                          f"current lanelets answers {json.dumps(want)[:160]}", taint=next(iter(taint.values())) if taint else None)
            impl.append(got)
            kinds.append(k)
            qargs.append((qkind, pts))
            m_ops.append(["q_find"])
            continue
        if k in LAN_ITEM:
            la = next((x for x in nw.lanelets if x.lanelet_id == op[1]), None)
            if la is None:
                continue
            how = op[2] if len(op) > 2 else None
            got, checks = ask_lanelet(ctx, la, k, how)
            rows.query(LAN_ITEM[k])
            for name, g, w in checks:
                if same(g, w):
                    rows.agreed((LAN_ITEM[k], op[1]))
                else:
                    stale(ctx, case, idx, name, rows.blame((LAN_ITEM[k], op[1])),
                          f"{name} of lanelet {op[1]} after {{M}} is {json.dumps(g)[:160]}; a lanelet rebuilt from the current "
                          f"vertices gives {json.dumps(w)[:160]}")
            impl.append(got)
            kinds.append(k)
            qargs.append(None if how == "interp" else how)
            m_ops.append([k, op[1]])
            continue
        # ---------------- mutators
        v += 1
        if k not in ("remove_many", "replace"):
            half_removed[0] = False
        if k == "add":
            sp, rt, via = op[1], op[2], op[3]
            la = b_lanelet(sp)
            if via == "scenario" and scen is not None:
                r = call(scen.add_objects, la)
                r = ("ok", True) if r[0] == "ok" else r
                if r[0] == "ok":
                    reg.add(sp["id"])
            else:
                r = call(nw.add_lanelet, la, rt)
            if not rt:
                suspended = True
                ctx.tag("net/rtree-false")
            elif r[0] == "ok" and r[1]:
                suspended = False
            if sp["z"] is not None:
                ctx.tag("net/3d")
            rows.mutate("networkIndex", "netAddLanelet")
            m_ops.append(["add", sp["id"], lan_tok(sp, v), bool(rt)])
            out = r[1] if r[0] == "ok" else {"err": r[1]}
            if via == "scenario" and scen is not None and r[0] == "ok":
                out = None   # Scenario.add_objects returns nothing; the duplicate case is not generated through the scenario
        elif k == "add_from":
            other = LaneletNetwork.create_from_lanelet_list([b_lanelet(sp) for sp in op[1]], cleanup_ids=False)
            r = call(nw.add_lanelets_from_network, other)
            suspended = False
            if any(sp["z"] is not None for sp in op[1]):
                ctx.tag("net/3d")
            rows.mutate("networkIndex", "netAddFromNetwork")
            m_ops.append(["add_from", [[sp["id"], lan_tok(sp, v)] for sp in op[1]]])
            out = bool(r[1]) if r[0] == "ok" else {"err": r[1]}
            if r[0] == "ok" and not r[1]:
                ctx.tag("net/add-from-refused")
        elif k == "remove":
            lid, rt, via = op[1], op[2], op[3]
            through_scenario = via == "scenario" and scen is not None
            if through_scenario:
                la = next((x for x in nw.lanelets if x.lanelet_id == lid), None)
                if la is None:
                    v -= 1
                    continue
                graveyard[lid] = la
                r = call(scen.remove_lanelet, la)
            else:
                r = call(nw.remove_lanelet, lid, rt)
            if not rt:
                suspended = True
                ctx.tag("net/rtree-false")
            else:
                suspended = False
            rows.mutate("networkIndex", "netRemoveLanelet")
            if all(x.lanelet_id != lid for x in nw.lanelets):
                taint.pop(lid, None)          # the stale entry goes with its lanelet
                if taint and rt:
                    rebuilt_while_tainted[0] = True
            if through_scenario:
                # Scenario.remove_lanelet raises KeyError AFTER the network dropped a lanelet the scenario has not registered
                if lid not in reg:
                    ctx.tag("dim/remove-lanelet-unregistered")
                m_ops.append(["remove_many", [[lid, lid in reg]]])
                reg.discard(lid)
            else:
                m_ops.append(["remove", lid, bool(rt)])
            out = "ok" if r[0] == "ok" else {"err": r[1]}
        elif k == "tr":
            tr, ang, via = np.array(op[1], dtype=float), op[2], op[3]
            r = call(scen.translate_rotate, tr, ang) if (via == "scenario" and scen is not None) else call(nw.translate_rotate, tr, ang)
            rows.mutate("networkIndex", "netTranslateRotate")
            for it in LAN_ITEM.values():
                rows.mutate(it, "netTranslateRotate")
            if r[0] == "ok":
                taint.clear()                 # the network-level translate_rotate rebuilds every entry
                half_moved[0] = False
            else:
                half_moved[0] = True          # raised at a 3-D lanelet: the lanelets before it are moved, the index is as it was
                ctx.tag("dim/half-moved-network-then-queries")
            m_ops.append(["tr", v])
            out = "ok" if r[0] == "ok" else {"err": r[1]}
        elif k == "to2d":
            r = call(scen.convert_to_2d) if (op[1] == "scenario" and scen is not None) else call(nw.convert_to_2d)
            rows.mutate("networkIndex", "netConvert2d")
            for it in LAN_ITEM.values():
                rows.mutate(it, "netConvert2d")
            m_ops.append(["to2d", v])
            out = "ok" if r[0] == "ok" else {"err": r[1]}
        elif k in ("l_tr", "l_to2d"):
            la = next((x for x in nw.lanelets if x.lanelet_id == op[1]), None)
            if la is None:
                v -= 1
                continue
            if k == "l_tr":
                # known finding (C11_witness_member_lanelet): the network is not told, its index keeps the old polygon
                r = call(la.translate_rotate, np.array(op[2], dtype=float), op[3])
                ctx.tag("mut/member-lanelet-translate")
                rows.mutate("networkIndex", "lanTranslateRotate")
                for it in LAN_ITEM.values():
                    rows.mutate(it, "lanTranslateRotate")
                if r[0] == "ok":
                    taint[op[1]] = NET_NAMES[k]
                m_ops.append(["l_tr", op[1], v])
            else:
                r = call(la.convert_to_2d)
                ctx.tag("mut/member-lanelet-convert2d")
                rows.mutate("networkIndex", "lanConvert2d")
                for it in LAN_ITEM.values():
                    rows.mutate(it, "lanConvert2d")
                m_ops.append(["l_to2d", op[1], v])
            out = "ok" if r[0] == "ok" else {"err": r[1]}
        elif k == "create_from":
            if scen is not None:
                v -= 1
                continue
            r = call(LaneletNetwork.create_from_lanelet_network, net)
            if r[0] == "ok":
                net = r[1]
                taint.clear()
                suspended, half_moved[0] = False, False
            ctx.tag("dim/create-from-network")
            rows.mutate("networkIndex", "netCreateFrom")
            m_ops.append(["create_from"])
            out = "ok" if r[0] == "ok" else {"err": r[1]}
        elif k == "replace":
            if scen is None:
                v -= 1
                continue
            newnet = LaneletNetwork.create_from_lanelet_list([b_lanelet(sp) for sp in op[1]], cleanup_ids=False)
            held = [x.lanelet_id for x in nw.lanelets]
            graveyard.update({x.lanelet_id: x for x in nw.lanelets})
            not_reg = sorted(set(held) - reg)
            r = call(scen.replace_lanelet_network, newnet) if op[2] == "replace_lanelet_network" else call(scen.add_objects, newnet)
            if r[0] == "ok":
                taint.clear()
                suspended, half_moved[0] = False, False
                reg = {sp["id"] for sp in op[1]}
            else:
                # replace_lanelet_network erases lanelet by lanelet first and raises at one the scenario has not registered
                now = {x.lanelet_id for x in cur().lanelets}
                for lid in held:
                    if lid not in now:
                        taint.pop(lid, None)
                if len(now) < len(held):
                    half_removed[0] = True
                    ctx.tag("dim/replace-network-raises-half-way")
            ctx.tag("dim/replace-network")
            rows.mutate("networkIndex", "netReplace")
            for it in LAN_ITEM.values():
                rows.mutate(it, "netReplace")
            new_toks = [[sp["id"], lan_tok(sp, v)] for sp in op[1]]
            if op[2] == "replace_lanelet_network":
                m_ops.append(["replace_erase", not_reg, new_toks])
                if r[0] != "ok":
                    reg.difference_update(removed_by_list(held, held, set(not_reg)))
            else:
                m_ops.append(["replace", new_toks])
            out = "ok" if r[0] == "ok" else {"err": r[1]}
        elif k == "remove_many":
            if scen is None:
                v -= 1
                continue
            opts = op[2] if len(op) > 2 else {}
            held = {x.lanelet_id: x for x in nw.lanelets}
            graveyard.update(held)
            # a lanelet object for every entry: the network's own, one it held earlier, or a stranger it never held
            objs = [held.get(lid) or graveyard.get(lid) or b_lanelet(dict(STRANGER, id=lid)) for lid in op[1]]
            args = [objs[0] if (opts.get("single") and len(objs) == 1) else objs] + ([False] if opts.get("ref") is False else [])
            r = call(scen.remove_lanelet, *args)
            ctx.tag("dim/remove-lanelet-list")
            rows.mutate("networkIndex", "netRemoveLanelet")
            now = {x.lanelet_id for x in nw.lanelets}
            for lid in op[1]:
                if lid not in now:
                    taint.pop(lid, None)
            if taint:
                rebuilt_while_tainted[0] = True
            half_removed[0] = r[0] == "err" and len(now) < len(held)
            if half_removed[0]:
                ctx.tag("dim/remove-lanelet-list-raises-half-way")
                if any(lid in held and lid not in reg for lid in op[1]):
                    ctx.tag("dim/remove-lanelet-unregistered")
            out = "ok" if r[0] == "ok" else {"err": r[1]}
            # the model is told which ids the scenario has registered (the harness's own account) and says where the call stops
            m_ops.append(["remove_many", [[lid, lid in reg] for lid in op[1]]])
            reg.difference_update(removed_by_list(op[1], held, set(held) - reg))
            for _lid in op[1][:-1]:           # (one version per entry)
                snapshot(v)
                v += 1
        elif k == "fail":
            fk = op[1]

            def f():
                if fk == "tr_angle":
                    nw.translate_rotate(np.array([1.0, 2.0]), 7.0)             # angle outside [-2 pi, 2 pi]
                elif fk == "tr_vector":
                    nw.translate_rotate(np.array([1.0, 2.0, 3.0]), 0.3)        # not a 2-vector
                else:
                    nw.add_lanelet(5)                                          # not a Lanelet
            r = call(f)
            if r[0] == "ok":
                ctx.fail(f"C11/{fk}/accepted", f"the malformed call {fk} did not raise", case)
            ctx.tag("dim/raising-mutator-then-queries")
            m_ops.append(["failed", r[1] if r[0] == "err" else "other"])
            out = {"err": r[1]} if r[0] == "err" else "ok"
        elif k in ("deepcopy", "pickle"):
            if taint:
                rebuilt_while_tainted[0] = True
            f = copy.deepcopy if k == "deepcopy" else (lambda x: pickle.loads(pickle.dumps(x)))
            if scen is not None:
                r = call(f, scen)
                if r[0] == "ok":
                    scen = r[1]
            else:
                r = call(f, net)
                if r[0] == "ok":
                    net = r[1]
            rows.mutate("networkIndex", "netDeepcopy" if k == "deepcopy" else "netPickle")
            m_ops.append([k])
            out = "ok" if r[0] == "ok" else {"err": r[1]}
        else:
            raise InfraError(f"unknown net op {k}")
        last_mut = NET_NAMES[k].replace("LaneletNetwork.", "Scenario.") if (len(op) > 1 and op[-1] == "scenario") else NET_NAMES[k]
        rows.did(last_mut)
        snapshot(v)
        impl.append(out)
        kinds.append("remove" if k == "remove_many" else k)
        qargs.append(None)
        # the history goes on after a mutator raised: the model says what state it leaves

    ctx.case(case)
    if not model:
        return
    out = ctx.driver.ask("C11", "net_run", {"lanelets": m_lans, "built": case["built"] == "list", "ops": m_ops})
    model_out = []
    for k, a, qa in zip(kinds, out, qargs):
        if k == "q_find" and isinstance(a, list):
            model_out.append(q_find(fresh_network([snaps[ver][lid] for lid, ver in a]), qa[0], qa[1]))
        elif k in LAN_ITEM and isinstance(a, int):
            lid = m_ops[len(model_out)][1]
            model_out.append(q_lanelet(fresh_lanelet(snaps[a][lid]), k, qa))
        elif k == "add" and impl[len(model_out)] is None:
            model_out.append(None if a is True else a)
        else:
            model_out.append(a)
    compare(ctx, case, impl, model_out, "lanelet network history vs CR.Cache.Net.run")


# ------------------------------------------------------------------------------------------------ two networks side by side

DERIVE_NAMES = {"from_list": "create_from_lanelet_list", "from_network": "create_from_lanelet_network", "deepcopy": "deepcopy",
                "pickle": "pickle", "add_from": "add_lanelets_from_network"}
DERIVATIONS = [["from_list", False], ["from_list", False], ["from_list", True], ["from_network"], ["deepcopy"], ["pickle"], ["add_from"]]
SHARING = "LaneletNetwork.translate_rotate(sibling-sharing-lanelets)"
DUO_MUT = {"tr": "LaneletNetwork.translate_rotate", "to2d": "LaneletNetwork.convert_to_2d", "add": "LaneletNetwork.add_lanelet",
           "remove": "LaneletNetwork.remove_lanelet", "deepcopy": "LaneletNetwork.deepcopy", "pickle": "LaneletNetwork.pickle"}


def gen_duo(ctx):
    """A network, a few operations on it, then a SECOND network derived from it through a public factory / copy / adder; both stay
    alive: mutators on either, every mutator followed by queries on BOTH (at the places the lanelets of both networks occupy
    and occupied)."""
    r = ctx.rng
    how = r.choice(DERIVATIONS)
    shares = how[0] == "add_from"
    allow3d = (not shares) and r.random() < 0.3
    n0 = r.choice([1, 2, 3])
    lans = [g_lanelet(r, i + 1, allow3d) for i in range(n0)]
    next_id = [n0 + 1]
    case = {"fam": "duo", "lanelets": lans, "cleanup": r.random() < 0.5, "wrap": {"a": r.random() < 0.35, "b": r.random() < 0.35},
            "derive": how, "arg": r.choice(["lanelets", "by_id"]), "ops": []}
    present = {"a": {sp["id"]: sp["z"] is not None for sp in lans}, "b": {}}
    seen = {"a": {sp["id"]: [0] for sp in lans}, "b": {}}        # side -> id -> versions at which the model says its place changed
    ops = case["ops"]
    v = [0]
    alive = ["a"]

    def queries(sides):
        qs = []
        for side in sides:
            other = "b" if side == "a" else "a"
            pts = []
            for lid in list(present[side])[:3]:
                pts.append([lid, "cur", r.randrange(0, 6)])                                  # where the lanelet object is now
                pts.append([lid, seen[side][lid][-1], r.randrange(0, 6)])                     # where the history put it
                if len(seen[side][lid]) > 1 and r.random() < 0.7:
                    pts.append([lid, seen[side][lid][r.randrange(0, len(seen[side][lid]) - 1)], 0])
            if other in alive:
                for lid in list(present[other])[:2]:
                    pts.append([lid, seen[other][lid][-1], r.randrange(0, 6)])               # where the sibling's lanelets are
            for lid in seen[side]:
                if lid not in present[side] and r.random() < 0.6:
                    pts.append([lid, seen[side][lid][-1], 0])
            pts.append([0, "far", 0])
            qs.append([side, "q_find", r.choice(["pos", "pos", "circle", "rect"]), pts])
            for lid in r.sample(sorted(present[side]), min(len(present[side]), r.choice([0, 1, 2]))):
                qs.append([side, r.choice(["q_poly", "q_dist", "q_inner"]), lid])
        r.shuffle(qs)
        return qs

    def mutator(side):
        other = "b" if side == "a" else "a"
        wrapped = case["wrap"][side]
        kinds = ["tr", "tr", "tr", "tr", "add", "to2d"] + (["remove"] if present[side] else []) + (["deepcopy", "pickle"] if r.random() < 0.3 else [])
        k = r.choice(kinds)
        if k == "tr" and any(present[side].values()):
            k = "to2d"                                  # (3-D lanelets: translate_rotate would raise half way — a dimension of fam net)
        v[0] += 1
        via = "scenario" if (wrapped and r.random() < 0.6) else "net"
        if k == "tr":
            t, a = g_motion_nz(r)
            ops.append([side, "tr", t, a, via])
            for lid in present[side]:
                seen[side][lid].append(v[0])
                if shares and lid in shared:
                    seen[other][lid].append(v[0])       # one object: it has moved in the other network as well
        elif k == "to2d":
            ops.append([side, "to2d", via])
            for lid in present[side]:
                present[side][lid] = False
        elif k == "add":
            sp = g_lanelet(r, next_id[0], allow3d)
            next_id[0] += 1
            ops.append([side, "add", sp, via])
            present[side][sp["id"]] = sp["z"] is not None
            seen[side][sp["id"]] = [v[0]]
        elif k == "remove":
            lid = r.choice(sorted(present[side]))
            ops.append([side, "remove", lid, via])
            present[side].pop(lid)
            shared.discard(lid)
        else:
            ops.append([side, k])
            if not (side == "a" and "b" not in alive):
                shared.clear()

    shared = set()
    ops += queries(["a"])
    for _ in range(r.choice([0, 0, 1, 2])):
        mutator("a")
        ops += queries(["a"])
    ops.append(["derive"])
    alive.append("b")
    present["b"] = dict(present["a"])
    seen["b"] = {lid: list(vs) for lid, vs in seen["a"].items()}
    if shares:
        shared |= set(present["a"])
    ops += queries(["a", "b"])
    first = r.choice(["a", "a", "b"])
    for i in range(r.choice([1, 2, 2, 3])):
        mutator(first if i == 0 else r.choice(["a", "b"]))
        ops += queries(["a", "b"])
        if len(ops) >= 22:
            break
    return case


def run_duo(ctx, case, model=True):
    import numpy as np
    from commonroad.scenario.lanelet import LaneletNetwork
    from commonroad.scenario.scenario import Scenario
    ctx.tag("fam/duo")
    how = case["derive"]
    nets = {"a": LaneletNetwork.create_from_lanelet_list([b_lanelet(sp) for sp in case["lanelets"]], cleanup_ids=bool(case.get("cleanup"))),
            "b": None}
    scens = {"a": None, "b": None}

    reg = {"a": set(), "b": set()}     # the harness's own account of the lanelet ids each scenario has registered

    def wrap(side):
        if case["wrap"].get(side):
            scens[side] = Scenario(0.1)
            scens[side].add_objects(nets[side])
            reg[side] = {la.lanelet_id for la in nets[side].lanelets}

    def cur(side):
        return scens[side].lanelet_network if scens[side] is not None else nets[side]
    wrap("a")
    snaps = {0: {la.lanelet_id: fresh_lanelet(la) for la in cur("a").lanelets}}
    m_lans = [[sp["id"], lan_tok(sp, 0)] for sp in case["lanelets"]]
    m_pre, m_ops, impl, kinds, qargs = [], [], [], [], []
    v = 0
    muts = []                       # (side, name) of every mutator so far, the derivation included
    ok_at = {}                      # (side, cache) -> len(muts) when the oracle last agreed on it
    born = [0]
    half = {"a": False, "b": False}
    shared = set()                  # the harness's own account of the lanelet ids that are ONE object in both networks
    taint = {"a": set(), "b": set()}    # ids whose object the OTHER network's translate_rotate moved since this side's index was built

    def blame(side, item):
        since = muts[ok_at.get((side, item), born[0] if side == "b" else 0):]
        if not since:
            return "construction"
        moves = [m for m in since if not m[1].endswith("." + DERIVE_NAMES[how[0]])]      # a real mutator before the derivation as such
        s, name = (moves or since)[0]
        return name if s == side else f"{name}(sibling-via-{DERIVE_NAMES[how[0]]})"

    def record(side, op_m):
        (m_ops if nets["b"] is not None else m_pre).append([side, op_m] if nets["b"] is not None else op_m)

    for idx, op in enumerate(case["ops"]):
        if op[0] == "derive":
            if nets["b"] is not None:
                continue
            src = cur("a")
            arg = src.lanelets if case.get("arg") != "by_id" else [src.find_lanelet_by_id(la.lanelet_id) for la in src.lanelets]
            if how[0] == "from_list":
                nets["b"] = LaneletNetwork.create_from_lanelet_list(arg, cleanup_ids=bool(how[1]))
                ctx.tag("dim/sibling-from-list-cleanup" if how[1] else "dim/sibling-from-list-no-cleanup")
            elif how[0] == "from_network":
                nets["b"] = LaneletNetwork.create_from_lanelet_network(src)
            elif how[0] == "deepcopy":
                nets["b"] = copy.deepcopy(src)
            elif how[0] == "pickle":
                nets["b"] = pickle.loads(pickle.dumps(src))
            elif how[0] == "add_from":
                nets["b"] = LaneletNetwork()
                nets["b"].add_lanelets_from_network(src)
                shared = {la.lanelet_id for la in src.lanelets}
                ctx.tag("dim/sibling-shares-lanelets")
            else:
                raise InfraError(f"unknown derivation {how}")
            ctx.tag("dim/sibling-" + how[0])
            wrap("b")
            born[0] = len(muts)
            muts.append(("b", "LaneletNetwork." + DERIVE_NAMES[how[0]]))
            continue
        side, k = op[0], op[1]
        if nets[side] is None:
            continue
        other = "b" if side == "a" else "a"
        nw = cur(side)
        if k == "q_find":
            pts = []
            for lid, ver, j in op[3]:
                if ver == "far":
                    pts.append([12345.5, -6789.25])
                    continue
                src = next((la for la in nw.lanelets if la.lanelet_id == lid), None) if ver == "cur" else snaps.get(ver, {}).get(lid)
                if src is not None:
                    pts.append(probe_point(src, j))
            qkind = op[2]
            got = q_find(nw, qkind, pts)
            if not half[side]:
                want = q_find(fresh_network(nw.lanelets), qkind, pts)
                if nets["b"] is not None and muts and muts[-1][0] == other and muts[-1][1] != "LaneletNetwork." + DERIVE_NAMES[how[0]]:
                    ctx.tag("dim/sibling-mutated-then-other-queried")
                if same(got, want):
                    ok_at[(side, "index")] = len(muts)
                else:
                    site = "find_lanelet_by_position" if qkind == "pos" else "find_lanelet_by_shape"
                    culprit = SHARING if taint[side] else blame(side, "index")
                    stale(ctx, case, idx, site, culprit,
                          f"two networks, the second made by {DERIVE_NAMES[how[0]]}: {site} on network {side} after {{M}} answers "
                          f"{json.dumps(got)[:160]} for {json.dumps(pts)[:120]}; a network rebuilt from its current lanelets answers "
                          f"{json.dumps(want)[:160]}", taint=culprit)
            impl.append(got)
            kinds.append(k)
            qargs.append((qkind, pts))
            record(side, ["q_find"])
            continue
        if k in LAN_ITEM:
            la = next((x for x in nw.lanelets if x.lanelet_id == op[2]), None)
            if la is None:
                continue
            got, checks = ask_lanelet(ctx, la, k, None)
            for name, g, w in checks:
                if same(g, w):
                    ok_at[(side, (k, op[2]))] = len(muts)
                else:
                    culprit = blame(side, (k, op[2]))
                    stale(ctx, case, idx, name, culprit,
                          f"two networks, the second made by {DERIVE_NAMES[how[0]]}: {name} of lanelet {op[2]} of network {side} after {{M}} is "
                          f"{json.dumps(g)[:160]}; a lanelet rebuilt from the current vertices gives {json.dumps(w)[:160]}", taint=culprit)
            impl.append(got)
            kinds.append(k)
            qargs.append(op[2])
            record(side, [k, op[2]])
            continue
        # ---------------- mutators (every one counts a version, whether it does anything or not)
        v += 1
        scen = scens[side]
        via_scen = scen is not None and len(op) > 2 and op[-1] == "scenario"
        name = DUO_MUT[k].replace("LaneletNetwork.", "Scenario.") if via_scen else DUO_MUT[k]
        if k == "tr":
            tr, ang = np.array(op[2], dtype=float), op[3]
            r = call(scen.translate_rotate, tr, ang) if via_scen else call(nw.translate_rotate, tr, ang)
            if r[0] == "ok":
                half[side] = False
                taint[side].clear()                      # its own translate_rotate rebuilds every entry
            else:
                half[side] = True                        # raised at a 3-D lanelet (see fam net): not judged until rebuilt
                if shared:
                    half[other] = True
            taint[other] |= shared                       # the other network holds the same objects and is not told
            record(side, ["tr", v])
        elif k == "to2d":
            r = call(scen.convert_to_2d) if via_scen else call(nw.convert_to_2d)
            record(side, ["to2d", v])
        elif k == "add":
            la = b_lanelet(op[2])
            r = call(scen.add_objects, la) if via_scen else call(nw.add_lanelet, la)
            if via_scen and r[0] == "ok":
                r = ("ok", True)
                reg[side].add(op[2]["id"])
            record(side, ["add", op[2]["id"], lan_tok(op[2], v), True])
        elif k == "remove":
            la = next((x for x in nw.lanelets if x.lanelet_id == op[2]), None)
            if via_scen and la is not None:
                # Scenario.remove_lanelet raises KeyError after the network dropped a lanelet the scenario has not registered
                r = call(scen.remove_lanelet, la)
                record(side, ["remove_many", [[op[2], op[2] in reg[side]]]])
                reg[side].discard(op[2])
            else:
                r = call(nw.remove_lanelet, op[2])
                record(side, ["remove", op[2], True])
            shared.discard(op[2])
            taint[side].discard(op[2])                   # the stale entry goes with its lanelet
        elif k in ("deepcopy", "pickle"):
            f = copy.deepcopy if k == "deepcopy" else (lambda x: pickle.loads(pickle.dumps(x)))
            r = call(f, scen if scen is not None else nets[side])
            if r[0] == "ok":
                if scen is not None:
                    scens[side] = r[1]
                else:
                    nets[side] = r[1]
            if nets["b"] is not None:
                shared = set()                           # the copy holds copies
            record(side, [k])
        else:
            raise InfraError(f"unknown duo op {k}")
        muts.append((side, name))
        snaps[v] = {la.lanelet_id: fresh_lanelet(la) for la in cur(side).lanelets}
        out = (r[1] if k == "add" else "ok") if r[0] == "ok" else {"err": r[1]}
        impl.append(out)
        kinds.append(k)
        qargs.append(None)

    ctx.case(case)
    if not model:
        return
    out = ctx.driver.ask("C11", "duo_run", {"lanelets": m_lans, "pre": m_pre, "derive": how, "ops": m_ops})
    flat = m_pre + [o[1] for o in m_ops]
    model_out = []
    for k, a, qa, mo in zip(kinds, out, qargs, flat):
        if k == "q_find" and isinstance(a, list):
            missing = [[lid, ver] for lid, ver in a if lid not in snaps.get(ver, {})]
            model_out.append({"no-snapshot": missing} if missing else q_find(fresh_network([snaps[ver][lid] for lid, ver in a]), qa[0], qa[1]))
        elif k in LAN_ITEM and isinstance(a, int):
            model_out.append(q_lanelet(fresh_lanelet(snaps[a][qa]), k, None) if qa in snaps.get(a, {}) else {"no-snapshot": [qa, a]})
        else:
            model_out.append(a)
    compare(ctx, case, impl, model_out, "two lanelet networks side by side vs CR.Cache.Duo.run")


# ------------------------------------------------------------------------------------------------ traffic light cycle

def _states():
    from commonroad.scenario.traffic_light import TrafficLightState
    return list(TrafficLightState)


def g_cycle(r):
    n = r.choice([1, 2, 2, 3, 4, 5])
    ns = len(_states())
    return [[r.randrange(ns), r.choice([1, 1, 2, 3, 5, 9, r.randint(1, 30)])] for _ in range(n)]


def cyc_steps(r, es, off):
    total = sum(d for _, d in es)
    ts, acc = set(), 0
    for _, d in es:
        for per in (-1, 0, 2):
            ts.update([off + per * total + acc, off + per * total + acc + d - 1])
        acc += d
    for _ in range(3):
        ts.add(r.randint(off - 2 * total, off + 3 * total))
    ts = sorted(ts)
    return ts if len(ts) <= 14 else sorted(r.sample(ts, 14))


def gen_cyc(ctx):
    r = ctx.rng
    es, off = g_cycle(r), r.choice([0, 0, 1, 3, 10, r.randint(0, 40)])
    case = {"fam": "cyc", "es": es, "off": off, "active": r.random() < 0.8, "light": r.random() < 0.4, "ops": [],
            "lactive": r.random() < 0.7}
    ops = case["ops"]
    ops.append(["q", cyc_steps(r, es, off)])
    ns = len(_states())
    for _ in range(r.choice([1, 2, 3, 4])):
        old = (es, off)
        k = r.choice(["set_es", "set_es", "set_off", "set_off", "set_active", "set_dur", "set_state", "list_edit", "copy"]
                     + (["replace"] if case["light"] else []))
        if k == "set_dur" and len(es) > 1 and max(e[1] for e in es) > 1 and r.random() < 0.4:
            # two held elements trade time: the cycle length and the number of elements stay the same (no query in between)
            i, j = r.sample(range(len(es)), 2)
            es = [list(e) for e in es]
            if es[i][1] == 1:
                i, j = j, i
            if es[i][1] == 1:
                i = max(range(len(es)), key=lambda n: es[n][1])
                j = (i + 1) % len(es)
            if es[i][1] != es[j][1] and r.random() < 0.5:
                es[i][1], es[j][1] = es[j][1], es[i][1]
            else:
                d = r.randint(1, es[i][1] - 1)
                es[i][1], es[j][1] = es[i][1] - d, es[j][1] + d
            ops.append(["set_dur", i, es[i][1], "aggregate-preserving"])
            ops.append(["set_dur", j, es[j][1], "aggregate-preserving"])
        elif k == "set_dur":
            # an element the cycle holds gets another duration: cycle.cycle_elements[i].duration = d (the cycle is not told; since fix 233baea
            # the cached array validates itself when read)
            i = r.randrange(len(es))
            d = r.choice([x for x in (1, 2, 4, 7, es[i][1] + 3) if x != es[i][1]])
            es = [list(e) for e in es]
            es[i][1] = d
            ops.append(["set_dur", i, d])
        elif k == "set_state":
            i = r.randrange(len(es))
            es = [list(e) for e in es]
            es[i][0] = (es[i][0] + 1 + r.randrange(ns - 1)) % ns
            ops.append(["set_state", i, es[i][0]])
        elif k == "list_edit":
            # list methods on the list the getter hands out (it is the cycle's own list)
            how = r.choice(["append", "insert"] + (["pop", "reverse", "reverse", "swap", "rotate"] if len(es) > 1 else []))
            if how in ("reverse", "swap", "rotate"):
                # a permutation of the held list: number of elements and cycle length stay, the phase boundaries move
                es = [list(e) for e in es]
                if how == "reverse":
                    es.reverse()
                elif how == "rotate":
                    es = es[1:] + es[:1]
                else:
                    es[0], es[-1] = es[-1], es[0]
            elif how == "append":
                es = [list(e) for e in es] + [g_cycle(r)[0]]
            elif how == "insert":
                es = [g_cycle(r)[0]] + [list(e) for e in es]
            else:
                es = [list(e) for e in es][:-1]
            ops.append(["list_edit", es, how])
        elif k == "copy":
            ops.append(["copy", r.choice(["deepcopy", "pickle"])])      # go on with a copy (the cached array is copied along)
            continue
        if k in ("set_dur", "set_state", "list_edit"):
            ts = sorted(set(cyc_steps(r, es, off) + cyc_steps(r, *old)[:6]))
            ops.append(["q", ts if len(ts) <= 18 else sorted(r.sample(ts, 18))])
            continue
        if k == "set_es":
            how = r.choice(["new", "new", "same", "iadd"])
            if how == "iadd":
                # `cycle.cycle_elements += [...]`: getter, list.__iadd__ in place, setter with the identical list object
                es = es + g_cycle(r)[:r.choice([1, 1, 2])]
            else:
                # a new list, or ("same") the list the cycle holds edited in place and handed back to the setter
                es = g_cycle(r)
            ops.append(["set_es", es] if how == "new" else ["set_es", es, how])
        elif k == "set_off":
            off = r.choice([off + 1, off + 2, max(0, off - 1), r.randint(0, 40), 0])
            ops.append(["set_off", off])
        elif k == "set_active":
            ops.append(["set_active", r.random() < 0.5])
        else:
            es, off = g_cycle(r), r.choice([0, 2, r.randint(0, 20)])
            ops.append(["replace", {"es": es, "off": off, "active": True}])
        ts = sorted(set(cyc_steps(r, es, off) + cyc_steps(r, *old)[:6]))
        ops.append(["q", ts if len(ts) <= 18 else sorted(r.sample(ts, 18))])
    return case


def walk_state(es, off, t):
    """The cycle definition, walked independently: the element whose window contains (t - off) mod total."""
    total = sum(d for _, d in es)
    kk = (t - off) % total
    for s, d in es:
        if kk < d:
            return s
        kk -= d
    raise AssertionError


def run_cyc(ctx, case, model=True):
    import numpy as np
    from commonroad.scenario.traffic_light import TrafficLight, TrafficLightCycle, TrafficLightCycleElement
    rows = Rows(ctx)
    ctx.tag("fam/cyc")
    st = _states()

    def mk(es, off, active=True):
        return TrafficLightCycle([TrafficLightCycleElement(st[s], d) for s, d in es], time_offset=off, active=active)
    cyc = mk(case["es"], case["off"], case["active"])
    light = None
    if case["light"]:
        ctx.tag("wrap/light")
        light = TrafficLight(3, np.array([1.0, 2.0]), cyc, active=bool(case.get("lactive", True)))
    impl, m_ops = [], []
    last_mut = "construction"
    n_el = len(case["es"])
    taint = [None]        # the in-place edit (known finding) applied since the cumulative time steps were last dropped
    for idx, op in enumerate(case["ops"]):
        k = op[0]
        c = light.traffic_light_cycle if light is not None else cyc
        if k == "q":
            outs = []
            es_now = [[st.index(e.state), int(e.duration)] for e in c.cycle_elements]
            off_now = int(c.time_offset)
            fresh = mk(es_now, off_now, c.active)
            good = bad = False
            for t in op[1]:
                r = call((light or c).get_state_at_time_step, t)
                got = {"ok": st.index(r[1])} if r[0] == "ok" else {"err": r[1]}
                outs.append(got)
                rf = call(fresh.get_state_at_time_step, t)
                want = {"ok": st.index(rf[1])} if rf[0] == "ok" else {"err": rf[1]}
                if got == want and got == {"ok": walk_state(es_now, off_now, t)}:
                    good = True
                else:
                    if bad:
                        continue      # one report per query operation
                    bad = True
                    stale(ctx, case, idx, "get_state_at_time_step", rows.blame("cycleInit"),
                          f"get_state_at_time_step({t}) after {{M}} answers {got}; a cycle rebuilt from the current elements "
                          f"{es_now} and offset {off_now} answers {want}", taint=taint[0])
            rows.query("cycleInit")
            if good and not bad:
                rows.agreed("cycleInit")
            impl.append(outs)
            m_ops.append(op)
            continue
        if k == "copy":
            f = copy.deepcopy if op[1] == "deepcopy" else (lambda x: pickle.loads(pickle.dumps(x)))
            if light is not None:
                light = f(light)
            else:
                cyc = f(cyc)
            ctx.tag("dim/cycle-copy")
            continue
        if k in ("set_dur", "set_state", "list_edit"):
            def f():
                if k == "set_dur":
                    c.cycle_elements[op[1]].duration = op[2]
                elif k == "set_state":
                    c.cycle_elements[op[1]].state = st[op[2]]
                elif op[2] == "append":
                    c.cycle_elements.append(TrafficLightCycleElement(st[op[1][-1][0]], op[1][-1][1]))
                elif op[2] == "insert":
                    c.cycle_elements.insert(0, TrafficLightCycleElement(st[op[1][0][0]], op[1][0][1]))
                elif op[2] == "reverse":
                    c.cycle_elements.reverse()
                elif op[2] == "rotate":
                    c.cycle_elements.append(c.cycle_elements.pop(0))
                elif op[2] == "swap":
                    lst = c.cycle_elements
                    lst[0], lst[-1] = lst[-1], lst[0]
                else:
                    c.cycle_elements.pop()
            r = call(f)
            mut = {"set_dur": "elemSetDuration", "set_state": "elemSetState", "list_edit": "elemsListEdit"}[k]
            rows.mutate("cycleInit", mut)
            ctx.tag("dim/cycle-" + k)
            if (k == "list_edit" and op[2] in ("reverse", "swap", "rotate")) or (k == "set_dur" and len(op) > 3):
                ctx.tag("dim/cycle-aggregate-preserving-edit")
            if k == "list_edit":
                n_el = len(op[1])
            last_mut = CYC_NAMES[k]
            rows.did(last_mut)
            impl.append([] if r[0] == "ok" else [{"err": r[1]}])
            m_ops.append(op[:2] if k == "list_edit" else op[:3])
            continue
        if k == "set_es":
            how = op[2] if len(op) > 2 else "new"
            new_els = [TrafficLightCycleElement(st[s], d) for s, d in op[1]]

            def f():
                if how == "iadd":
                    c.cycle_elements += new_els[n_el:]         # the augmented assignment goes through getter and setter
                elif how == "same":
                    held = c.cycle_elements
                    held[:] = new_els                          # edited in place ...
                    c.cycle_elements = held                    # ... and the same list object through the public setter
                else:
                    c.cycle_elements = new_els
            if how != "new":
                ctx.tag("mut/cycle-elements-same-list-reassigned")
            r = call(f)
            if len(op[1]) != n_el:
                ctx.tag("cyc/length-change")
            n_el = len(op[1])
            rows.mutate("cycleInit", "cycSetElements")
        elif k == "set_off":
            def f():
                c.time_offset = op[1]
            r = call(f)
            rows.mutate("cycleInit", "cycSetOffset")
        elif k == "set_active":
            def f():
                c.active = op[1]
            r = call(f)
            rows.mutate("cycleInit", "cycSetActive")
        elif k == "replace":
            ctx.tag("cyc/replace")
            new = mk(op[1]["es"], op[1]["off"], op[1]["active"])
            n_el = len(op[1]["es"])

            def f():
                light.traffic_light_cycle = new
            r = call(f)
        else:
            raise InfraError(f"unknown cycle op {k}")
        last_mut = CYC_NAMES[k]
        rows.did(last_mut)
        if k in ("set_es", "set_off", "replace") and r[0] == "ok":
            taint[0] = None          # these drop the cached array (or bring another cycle object)
        impl.append([] if r[0] == "ok" else [{"err": r[1]}])
        m_ops.append(op[:2] if k == "set_es" else op)     # for the model it is `cycle_elements = <these elements>` either way
    ctx.case(case)
    if not model:
        return
    out = ctx.driver.ask("C11", "cyc_run", {"es": case["es"], "off": case["off"], "active": case["active"], "ops": m_ops})
    ctx.compare(case, impl, out, "traffic light cycle history vs CR.Cache.cycRun")


# ------------------------------------------------------------------------------------------------ entry points

RUNNERS = {"obs": run_obs, "net": run_net, "lan": run_lan, "cyc": run_cyc, "duo": run_duo}
GENS = [("obs", gen_obs, 5), ("net", gen_net, 4), ("lan", gen_lan, 2), ("cyc", gen_cyc, 2), ("duo", gen_duo, 1)]


def check_table(ctx):
    t = ctx.driver.ask("C11", "table", {})
    pairs = {(r["item"].split(".")[-1], r["mut"].split(".")[-1]): r for r in t["rows"]}
    touching = sorted(k for k, r in pairs.items() if r["touches"])
    missing = [k for k in touching if k not in ROWS] + [k for k in ROWS if k not in pairs]
    if missing:
        raise InfraError(f"CR.Cache.act and harness/c11.py ROWS are out of step: {missing}")
    unsound = sorted((a.split(".")[-1], b.split(".")[-1]) for a, b in t["unsound"])
    if unsound != sorted(UNSOUND):
        raise InfraError(f"CR.Cache.unsoundPairs {unsound} and harness/c11.py UNSOUND are out of step")
    for k in ROWS:
        ctx.tag("table/" + pairs[k]["action"].split(".")[-1])


def run_case(ctx, case, model=True):
    RUNNERS[case["fam"]](ctx, case, model)


def run(ctx):
    check_dimensions()
    check_table(ctx)
    for p in sorted(glob.glob(os.path.join(CORPUS_DIR, "C11", "*.json"))):
        run_case(ctx, json.load(open(p)))
    weights = [g for g in GENS for _ in range(g[2])]
    for _ in range(ctx.n(2600)):
        fam, gen, _w = ctx.rng.choice(weights)
        run_case(ctx, gen(ctx))


search = run


def replay(ctx, case):
    run_case(ctx, case, model=False)


class _Probe:
    """Minimal stand-in for Ctx used while diagnosing / shrinking (oracle only, no driver)."""
    no_diagnose = True

    def __init__(self, diagnose_keys=False):
        self.failures = []
        self.excluded = 0
        self.no_diagnose = not diagnose_keys

    def tag(self, *a):
        pass

    def case(self, *a, **k):
        pass

    def fail(self, key, what, case, detail=None):
        self.failures.append((key, detail))


def _fails(case, key):
    p = _Probe(diagnose_keys=True)
    try:
        run_case(p, case, model=False)
    except Exception:  # noqa
        return False
    return key in [k for k, _ in p.failures]


def shrink(case, key):
    """Drop operations (and initial lanelets) while the same finding key still fails."""
    from common import shrink_list
    if not _fails(case, key):
        return case
    ops = shrink_list(case["ops"], lambda ops: _fails(dict(case, ops=ops), key))
    case = dict(case, ops=ops)
    if case["fam"] in ("net", "duo") and len(case["lanelets"]) > 1:
        lans = shrink_list(case["lanelets"], lambda ls: _fails(dict(case, lanelets=ls), key))
        case = dict(case, lanelets=lans)
    return case
