"""C03 — the dimension table of the generator, checked against the real signatures on every run, and the histories
(setters, re-assignment, queries, failing operations, removal, transformation, copies) applied between building a scenario and
writing it.

DIMENSIONS[class] = {"ctor": {param: note}, "set": {settable attribute: note}, "ops": {public method: note}}
note prefixes:  V  varied by the generator (how)        N  cannot influence the written XML file (why)
                Q  outside the property's quantifier (not schema-expressible / not a writer input), named in ASSUMPTIONS
`check_dimensions()` compares the table with inspect.signature / property setters / public methods of the live classes:
a parameter, setter or method the table does not know => InfraError (exit 2): the generator has to be extended first.
"""
from __future__ import annotations

import copy
import inspect
import pickle
import random

import numpy as np

SPEC = "V gen_spec"                       # content drawn by c03_gen.gen_spec
SET = "V var.setters (assigned after construction) + hist reassign (same object handed back)"
NOTXML = "N not written by the XML writer"

DIMENSIONS = {
    "commonroad.common.file_writer.CommonRoadFileWriter": {
        "ctor": {"scenario": SPEC, "planning_problem_set": SPEC, "author": "V var.writer.override", "affiliation": "V var.writer.override",
                 "source": "V var.writer.override", "tags": "V var.writer.override", "location": "V var.writer.override",
                 "decimal_precision": "V 1..12, default (omitted), 0, 15, 20", "file_format": "V XML; protobuf write in between (var.writer.pb_between)"},
        "set": {},
        "ops": {"write_to_file": "V every case; twice / after write_scenario_to_file / after a failed write (var.writer.first)",
                "write_scenario_to_file": "V as first write of a reused writer (its own output has no planning problem: Q)",
                "check_validity_of_commonroad_file": "V on every written file: must agree with lxml (entry/check_validity)"},
    },
    "commonroad.common.writer.file_writer_xml.XMLFileWriter": {
        "ctor": {"scenario": SPEC, "planning_problem_set": SPEC, "author": "V var.writer.override", "affiliation": "V var.writer.override",
                 "source": "V var.writer.override", "tags": "V var.writer.override", "location": "V var.writer.override",
                 "decimal_precision": "V as above"},
        "set": {"author": "V hist writer-setters", "affiliation": "V hist writer-setters", "source": "V hist writer-setters",
                "tags": "V hist writer-setters", "root_node": "N setter only warns (immutable)"},
        "ops": {"write_to_file": "V var.writer.cls == xml", "write_scenario_to_file": "V first write", "check_validity_of_commonroad_file": "V"},
    },
    "commonroad.common.writer.file_writer_xml.XMLFileWriter.write_to_file": {
        "ctor": {"filename": "V explicit path; None (benchmark id in the cwd: var.writer.filename_none)",
                 "overwrite_existing_file": "V ALWAYS; SKIP on an existing file first (var.writer.first == skip); ASK_USER_INPUT needs stdin: Q",
                 "check_validity": "V var.writer.check_validity"},
        "set": {}, "ops": {},
    },
    "commonroad.scenario.scenario.Scenario": {
        "ctor": {"dt": "V incl. 1e-5, 1e16, int, np.float32", "scenario_id": "V 4 benchmark ids x cooperative x prediction list",
                 "author": SPEC, "tags": "V subsets of Tag incl. empty and all", "affiliation": SPEC, "source": SPEC, "location": "V None / Location"},
        "set": {"dt": SET},
        "ops": {"add_objects": "V var.entry: single objects / list / signs+lights+intersections through the scenario with lanelet ids",
                "remove_obstacle": "V hist remove", "remove_traffic_sign": "V hist remove", "remove_traffic_light": "V hist remove",
                "remove_intersection": "V hist remove", "remove_lanelet": "V hist remove (only if > 1 lanelet)",
                "remove_hanging_lanelet_members": "V via remove_lanelet(referenced_elements=True)",
                "translate_rotate": "V hist transform", "convert_to_2d": "V hist convert2d (after var.lanelet3d)",
                "assign_obstacles_to_lanelets": "V hist queries", "occupancies_at_time_step": "V hist queries",
                "obstacle_states_at_time_step": "V hist queries", "obstacles_by_role_and_type": "V hist queries",
                "obstacles_by_position_intervals": "V hist queries", "obstacle_by_id": "V hist queries", "generate_object_id": "V hist fail (new ids)",
                "erase_lanelet_network": "Q leaves no lanelet (>= 1 required)", "replace_lanelet_network": "V hist copy (replaced by a deep copy)",
                "draw": "N rendering (C19)"},
    },
    "commonroad.scenario.scenario.ScenarioID": {
        "ctor": {"cooperative": "V var.sid", "country_id": SPEC, "map_name": SPEC, "map_id": SPEC, "configuration_id": "V incl. None",
                 "obstacle_behavior": "V incl. None", "prediction_id": "V int / None / list", "scenario_version": "N not part of str(scenario_id); the file's version is SCENARIO_VERSION"},
        "set": {"country_id": "N validated alias of the ctor argument", "map_name": "N validated alias of the ctor argument"},
        "ops": {"from_benchmark_id": "N C13"},
    },
    "commonroad.scenario.scenario.Location": {
        "ctor": {"geo_name_id": SPEC, "gps_latitude": "V incl. 1e-5, 999 (int)", "gps_longitude": SPEC, "geo_transformation": "V None / object / all-default object",
                 "environment": "V None / object"},
        "set": {"geo_name_id": SET, "gps_latitude": SET, "gps_longitude": SET, "geo_transformation": SET, "environment": SET},
        "ops": {},
    },
    "commonroad.scenario.scenario.GeoTransformation": {
        "ctor": {"geo_reference": "V strings incl. '' and markup characters; None (default -> int 0, written as an empty element)",
                 "x_translation": "V all magnitudes; None", "y_translation": "V", "z_rotation": "V", "scaling": "V positive, tiny, np.float32; None"},
        "set": {"geo_reference": SET, "x_translation": SET, "y_translation": SET, "z_rotation": SET, "scaling": SET},
        "ops": {},
    },
    "commonroad.scenario.scenario.Environment": {
        "ctor": {"time": "V Time(h, m); None: Q (schema requires <time>)", "time_of_day": "V NIGHT / UNKNOWN (others have no schema value: Q)",
                 "weather": "V the five schema values (others Q)", "underground": "V all but UNKNOWN (Q)"},
        "set": {"time": SET, "time_of_day": SET, "weather": SET, "underground": SET},
        "ops": {},
    },
    "commonroad.common.util.Time": {
        "ctor": {"hours": "V 0..23", "minutes": "V 0..59", "day": NOTXML + " (var.setters passes values)", "month": NOTXML, "year": NOTXML},
        "set": {"hours": "N same as ctor", "minutes": "N same as ctor", "day": NOTXML, "month": NOTXML, "year": NOTXML},
        "ops": {},
    },
    "commonroad.common.util.Interval": {
        "ctor": {"start": "V incl. start == end (degenerate), tiny, huge, np.float64", "end": "V"},
        "set": {"start": "V hist reassign", "end": "V hist reassign"},
        "ops": {"contains": "N query (C16)", "intersection": "N", "overlaps": "N"},
    },
    "commonroad.common.util.AngleInterval": {
        "ctor": {"start": "V incl. -pi cut off after d decimals, the writer's grid, an exponent-form repr beside zero",
                 "end": "V length < 2 pi, incl. within 4 units of the writer's last decimal of 2 pi at every precision (ori/near-full-circle-*)"},
        "set": {"start": "V hist reassign", "end": "V hist reassign"},
        "ops": {"contains": "N", "intersect": "N", "intersection": "N", "overlaps": "N"},
    },
    "commonroad.scenario.lanelet.Lanelet": {
        "ctor": {"left_vertices": "V 2..7 points, all magnitudes, 3-D with an elevation profile (var.lanelet3d: nowhere zero, 0.0 at the first / last / an inner vertex, -0.0, zero everywhere, tiny / big)", "center_vertices": NOTXML, "right_vertices": "V",
                 "lanelet_id": "V 1..5000, up to 10^18", "predecessor": "V incl. empty, repeated entries (var.dup_refs)", "successor": "V",
                 "adjacent_left": "V None / earlier lanelet", "adjacent_left_same_direction": "V", "adjacent_right": "V None / later lanelet",
                 "adjacent_right_same_direction": "V", "line_marking_left_vertices": "V every LineMarking member incl. UNKNOWN",
                 "line_marking_right_vertices": "V", "stop_line": "V None / StopLine", "lanelet_type": "V empty set .. 3 members",
                 "user_one_way": "V", "user_bidirectional": "V", "traffic_signs": "V in the ctor or by add_traffic_sign(sign, ids) (var.refs_by_library)",
                 "traffic_lights": "V", "adjacent_areas": NOTXML + " (2020a has no areas)"},
        "set": {"adj_left": SET, "adj_left_same_direction": SET, "adj_right": SET, "adj_right_same_direction": SET, "adjacent_areas": NOTXML,
                "center_vertices": NOTXML, "distance": NOTXML, "dynamic_obstacles_on_lanelet": NOTXML, "static_obstacles_on_lanelet": NOTXML,
                "lanelet_id": "V var.setters: constructed with another id, re-assigned before the object joins the network", "lanelet_type": SET,
                "left_vertices": "V hist reassign", "right_vertices": "V hist reassign", "line_marking_left_vertices": SET,
                "line_marking_right_vertices": SET, "predecessor": SET, "successor": SET, "stop_line": SET, "traffic_lights": SET,
                "traffic_signs": SET, "user_bidirectional": SET, "user_one_way": SET},
        "ops": {"add_predecessor": "V var.setters", "add_successor": "V hist reassign-ish (remove + add)", "remove_predecessor": "V hist reassign-ish",
                "remove_successor": "V hist reassign-ish", "add_traffic_sign_to_lanelet": "V var.setters", "add_traffic_light_to_lanelet": "V var.setters",
                "add_adjacent_area_to_lanelet": NOTXML, "add_dynamic_obstacle_to_lanelet": NOTXML, "add_static_obstacle_to_lanelet": NOTXML,
                "translate_rotate": "V hist transform (through the scenario)", "convert_to_2d": "V hist convert2d", "convert_to_polygon": "V hist queries",
                "contains_points": "V hist queries", "interpolate_position": "V hist queries", "orientation_by_position": "N query",
                "get_obstacles": "N query", "dynamic_obstacle_by_time_step": "N query", "find_lanelet_predecessors_in_range": "N query",
                "find_lanelet_successors_in_range": "N query", "all_lanelets_by_merging_predecessors_from_lanelet": "N classmethod producing new lanelets",
                "all_lanelets_by_merging_successors_from_lanelet": "N", "merge_lanelets": "N classmethod producing a new lanelet (C09)"},
    },
    "commonroad.common.common_lanelet.StopLine": {
        "ctor": {"start": "V point / None", "end": "V", "line_marking": "V every member incl. UNKNOWN", "traffic_sign_ref": "V None / set", "traffic_light_ref": "V None / set"},
        "set": {"start": SET, "end": SET, "line_marking": SET, "traffic_sign_ref": SET, "traffic_light_ref": SET},
        "ops": {"translate_rotate": "V hist transform", "convert_to_2d": "V hist convert2d"},
    },
    "commonroad.scenario.lanelet.LaneletNetwork": {
        "ctor": {"information": NOTXML},
        "set": {"information": NOTXML},
        "ops": {"add_lanelet": "V var.setters", "add_traffic_sign": "V with / without lanelet ids", "add_traffic_light": "V", "add_intersection": "V",
                "create_from_lanelet_list": "V cleanup_ids=False (True drops references to signs added later: assembling order, Q)",
                "create_from_lanelet_network": "V hist copy", "add_lanelets_from_network": "N produces the same objects", "add_area": NOTXML,
                "remove_area": NOTXML, "find_area_by_id": NOTXML,
                "cleanup_lanelet_references": "V var.cleanup", "cleanup_traffic_light_references": "V var.cleanup", "cleanup_traffic_sign_references": "V var.cleanup",
                "remove_lanelet": "V hist remove (through the scenario)", "remove_traffic_sign": "V", "remove_traffic_light": "V", "remove_intersection": "V",
                "translate_rotate": "V hist transform", "convert_to_2d": "V hist convert2d", "find_lanelet_by_position": "V hist queries",
                "find_lanelet_by_shape": "V hist queries", "find_lanelet_by_id": "V", "find_intersection_by_id": "N query", "find_traffic_light_by_id": "N query",
                "find_traffic_sign_by_id": "N query", "find_most_likely_lanelet_by_state": "N query", "lanelets_in_proximity": "V hist queries",
                "get_traffic_lights_referenced_lanelets": "N query", "get_traffic_sign_referenced_lanelets": "N query",
                "map_obstacles_to_lanelets": "V hist queries (through assign_obstacles_to_lanelets)", "filter_obstacles_in_network": "N query", "draw": "N"},
    },
    "commonroad.scenario.traffic_sign.TrafficSign": {
        "ctor": {"traffic_sign_id": "V", "traffic_sign_elements": "V 1..3 elements of all 14 country enums", "first_occurrence": NOTXML,
                 "position": "V point / None", "virtual": "V True / False / None"},
        "set": {"traffic_sign_id": "V var.setters: constructed with another id, re-assigned before the object joins the network", "traffic_sign_elements": "V hist reassign", "first_occurrence": NOTXML, "position": SET, "virtual": SET},
        "ops": {"translate_rotate": "V hist transform", "convert_to_2d": "V hist convert2d", "draw": "N"},
    },
    "commonroad.scenario.traffic_sign.TrafficSignElement": {
        "ctor": {"traffic_sign_element_id": "V every expressible member", "additional_values": "V [], strings with markup, numbers as text"},
        "set": {"traffic_sign_element_id": "N same as ctor", "additional_values": "V hist reassign"},
        "ops": {},
    },
    "commonroad.scenario.traffic_light.TrafficLight": {
        "ctor": {"traffic_light_id": "V", "position": "V point / None", "traffic_light_cycle": "V cycle; None: Q (schema requires <cycle>)",
                 "color": "Q a light given by a colour list has no cycle (2020a cannot express it)", "active": "V True / False / None",
                 "direction": "V every member incl. ALL", "shape": NOTXML},
        "set": {"traffic_light_id": "V var.setters: constructed with another id, re-assigned before the object joins the network", "position": "V hist reassign", "traffic_light_cycle": SET, "color": "Q", "active": SET,
                "direction": SET, "shape": NOTXML},
        "ops": {"get_state_at_time_step": "V hist queries", "translate_rotate": "V hist transform", "convert_to_2d": "V", "draw": "N"},
    },
    "commonroad.scenario.traffic_light.TrafficLightCycle": {
        "ctor": {"cycle_elements": "V 1..4 elements", "time_offset": "V 0, 1, 7, 10^9", "active": NOTXML},
        "set": {"cycle_elements": SET, "time_offset": SET, "active": NOTXML},
        "ops": {"get_state_at_time_step": "V hist queries"},
    },
    "commonroad.scenario.traffic_light.TrafficLightCycleElement": {
        "ctor": {"state": "V every member", "duration": "V 1 .. 10^12"},
        "set": {"state": "N same as ctor", "duration": "N same as ctor"}, "ops": {},
    },
    "commonroad.scenario.intersection.Intersection": {
        "ctor": {"intersection_id": "V", "incomings": "V 1..3", "crossings": "V set / empty / None"},
        "set": {"intersection_id": "V var.setters: constructed with another id, re-assigned before the object joins the network", "incomings": "V hist reassign", "crossings": "V hist reassign"}, "ops": {},
    },
    "commonroad.scenario.intersection.IntersectionIncomingElement": {
        "ctor": {"incoming_id": "V", "incoming_lanelets": "V 1..2", "successors_right": "V incl. empty", "successors_straight": "V", "successors_left": "V",
                 "left_of": "V None / other incoming"},
        "set": {"incoming_id": "V var.setters: constructed with another id, re-assigned before the object joins the network", "incoming_lanelets": SET, "successors_right": SET, "successors_straight": SET, "successors_left": SET, "left_of": SET},
        "ops": {},
    },
    "commonroad.scenario.obstacle.StaticObstacle": {
        "ctor": {"obstacle_id": "V", "obstacle_type": "V the four static types", "obstacle_shape": "V all shapes + groups", "initial_state": "V InitialState at step 0",
                 "initial_center_lanelet_ids": NOTXML, "initial_shape_lanelet_ids": NOTXML, "initial_signal_state": NOTXML + " (for static obstacles)",
                 "signal_series": NOTXML + " (for static obstacles)"},
        "set": {"obstacle_id": "N the setter only warns (immutable)", "obstacle_role": "N fixed by the class", "obstacle_type": "V hist reassign", "obstacle_shape": "V hist reassign",
                "initial_state": "V hist reassign", "initial_center_lanelet_ids": NOTXML, "initial_shape_lanelet_ids": NOTXML,
                "initial_signal_state": NOTXML, "signal_series": NOTXML},
        "ops": {"occupancy_at_time": "V hist queries", "state_at_time": "V hist queries", "signal_state_at_time_step": "N", "translate_rotate": "V hist transform", "draw": "N"},
    },
    "commonroad.scenario.obstacle.DynamicObstacle": {
        "ctor": {"obstacle_id": "V", "obstacle_type": "V the ten dynamic types", "obstacle_shape": "V centred / off-centre / rotated",
                 "initial_state": "V", "prediction": "V trajectory (5 state classes) / occupancy set; None: Q (schema requires one)",
                 "initial_center_lanelet_ids": NOTXML, "initial_shape_lanelet_ids": NOTXML, "initial_signal_state": "V None / any flag subset",
                 "signal_series": "V None / list; empty list", "initial_meta_information_state": NOTXML, "meta_information_series": NOTXML,
                 "external_dataset_id": NOTXML, "history": NOTXML, "signal_history": NOTXML, "center_lanelet_ids_history": NOTXML,
                 "shape_lanelet_ids_history": NOTXML, "kwargs": NOTXML},
        "set": {"obstacle_id": "N the setter only warns (immutable)", "obstacle_role": "N fixed", "obstacle_type": "V hist reassign", "obstacle_shape": "V hist reassign",
                "initial_state": "V hist reassign", "prediction": SET, "initial_signal_state": SET, "signal_series": SET,
                "initial_center_lanelet_ids": NOTXML, "initial_shape_lanelet_ids": NOTXML, "initial_meta_information_state": NOTXML,
                "meta_information_series": NOTXML, "external_dataset_id": NOTXML},
        "ops": {"occupancy_at_time": "V hist queries", "state_at_time": "V hist queries", "signal_state_at_time_step": "V hist queries",
                "translate_rotate": "V hist transform", "update_initial_state": "Q moves the obstacle to a later time step (initial time must be 0)",
                "update_prediction": "V hist reassign (same prediction)", "draw": "N"},
    },
    "commonroad.scenario.obstacle.PhantomObstacle": {
        "ctor": {"obstacle_id": "V", "prediction": "V occupancy set; None: Q"},
        "set": {"obstacle_role": "N fixed", "prediction": "V hist reassign"},
        "ops": {"occupancy_at_time": "V hist queries", "state_at_time": "N returns None", "translate_rotate": "V hist transform", "draw": "N"},
    },
    "commonroad.scenario.obstacle.EnvironmentObstacle": {
        "ctor": {"obstacle_id": "V", "obstacle_type": "V the four environment types", "obstacle_shape": "V"},
        "set": {"obstacle_id": "N the setter only warns (immutable)", "obstacle_role": "N fixed", "obstacle_type": "V hist reassign", "obstacle_shape": "V hist reassign"},
        "ops": {"occupancy_at_time": "V hist queries", "translate_rotate": "V hist transform", "draw": "N"},
    },
    "commonroad.geometry.shape.Rectangle": {
        "ctor": {"length": "V positive incl. < 1e-4, 1e16, int, np.float32", "width": "V", "center": "V origin / off-centre, all magnitudes", "orientation": "V 0, -0.0, 1e-6 .. 2 pi"},
        "set": {"length": SET, "width": SET, "center": SET, "orientation": SET, "vertices": NOTXML + " (cache)", "_shapely_polygon": NOTXML},
        "ops": {"contains_point": "V hist queries", "rotate_translate_local": "V through occupancies", "translate_rotate": "V hist transform", "draw": "N"},
    },
    "commonroad.geometry.shape.Circle": {
        "ctor": {"radius": "V positive incl. tiny / huge / np.float32", "center": "V"},
        "set": {"radius": SET, "center": SET},
        "ops": {"contains_point": "V hist queries", "rotate_translate_local": "V", "translate_rotate": "V hist transform", "draw": "N"},
    },
    "commonroad.geometry.shape.Polygon": {
        "ctor": {"vertices": "V 3..6 vertices, radii 1e-5 .. 1e4; the constructor closes and orients the ring"},
        "set": {"vertices": "V hist reassign"},
        "ops": {"contains_point": "V hist queries", "rotate_translate_local": "V", "translate_rotate": "V hist transform", "draw": "N"},
    },
    "commonroad.geometry.shape.ShapeGroup": {
        "ctor": {"shapes": "V 1..3 members, mixed kinds (shape) / one kind (positions)"},
        "set": {"shapes": "V hist reassign"},
        "ops": {"contains_point": "N query", "rotate_translate_local": "V", "translate_rotate": "V hist transform", "draw": "N"},
    },
    "commonroad.prediction.prediction.Occupancy": {
        "ctor": {"time_step": "V exact >= 1 / interval", "shape": "V"},
        "set": {"time_step": SET, "shape": SET},
        "ops": {"translate_rotate": "V hist transform", "draw": "N"},
    },
    "commonroad.prediction.prediction.SetBasedPrediction": {
        "ctor": {"initial_time_step": "V", "occupancy_set": "V 1..4 occupancies"},
        "set": {"occupancy_set": "V hist reassign"},
        "ops": {"occupancy_at_time_step": "V hist queries", "translate_rotate": "V hist transform"},
    },
    "commonroad.prediction.prediction.TrajectoryPrediction": {
        "ctor": {"trajectory": "V 1..3 states", "shape": "V", "center_lanelet_assignment": NOTXML, "shape_lanelet_assignment": NOTXML, "kwargs": NOTXML},
        "set": {"trajectory": "V hist reassign", "shape": "V hist reassign", "center_lanelet_assignment": NOTXML, "shape_lanelet_assignment": NOTXML,
                "wheelbase_lengths": NOTXML},
        "ops": {"occupancy_at_time_step": "V hist queries (fills the occupancy cache)", "translate_rotate": "V hist transform"},
    },
    "commonroad.scenario.trajectory.Trajectory": {
        "ctor": {"initial_time_step": "V 1", "state_list": "V"},
        "set": {"initial_time_step": "N recomputes nothing that is written"},
        "ops": {"append_state": "V hist reassign-ish (appended state is written)", "state_at_time_step": "V hist queries", "states_in_time_interval": "V hist queries",
                "check_state_list": "N validation", "translate_rotate": "V hist transform", "resample_continuous_time_state_list": "N classmethod", "draw": "N"},
    },
    "commonroad.planning.planning_problem.PlanningProblem": {
        "ctor": {"planning_problem_id": "V", "initial_state": "V InitialState (position as array or list)", "goal_region": "V 1..3 goal states"},
        "set": {"planning_problem_id": "N the setter only warns (immutable)", "initial_state": SET, "goal": SET},
        "ops": {"goal_reached": "V hist queries", "translate_rotate": "V hist transform", "draw": "N"},
    },
    "commonroad.planning.planning_problem.PlanningProblemSet": {
        "ctor": {"planning_problem_list": "V 1..3; None + add_planning_problem (var.setters)"},
        "set": {"planning_problem_dict": "V hist reassign"},
        "ops": {"add_planning_problem": "V var.setters", "find_planning_problem_by_id": "V hist queries", "translate_rotate": "V hist transform", "draw": "N"},
    },
    "commonroad.planning.goal.GoalRegion": {
        "ctor": {"state_list": "V CustomState / KSState / InitialState goals (var.goal_cls)", "lanelets_of_goal_position": "V None / dict for some goal states"},
        "set": {"state_list": SET, "lanelets_of_goal_position": "N the setter only warns once set (immutable); the constructor argument is varied"},
        "ops": {"is_reached": "V hist queries", "translate_rotate": "V hist transform", "draw": "N"},
    },
}

# state classes: dataclass fields.  V = generated (trajectory / initial / goal states), Q = class not expressible in 2020a XML
STATE_CLASSES = {
    "InitialState": "V", "KSState": "V", "STState": "V", "ExtendedPMState": "V", "MBState": "V", "CustomState": "V (curvature, curvature_rate, jerk, jounce ...)",
    "PMState": "Q no orientation element (required by the schema's state type)", "KSTState": "Q hitch_angle has no element",
    "STDState": "Q front/rear_wheel_angular_speed have no element", "InputState": "Q no position", "PMInputState": "Q no position",
    "LateralState": "Q no position", "LongitudinalState": "Q no position", "LKSInputState": "Q no position",
}
SIGNAL_SLOTS = ["horn", "indicator_left", "indicator_right", "braking_lights", "hazard_warning_lights", "flashing_blue_lights", "time_step"]
# node builders and helpers of the writer module: every one is exercised by the generated documents (builder/* buckets)
WRITER_NODE_CLASSES = [
    "CircleXMLNode", "DynamicObstacleXMLNode", "EnvironmentObstacleXMLNode", "EnvironmentXMLNode", "GeoTransformationXMLNode", "IntersectionXMLNode",
    "LaneletStopLineXMLNode", "LaneletXMLNode", "LineMarkingXMLNode", "LocationXMLNode", "ObstacleXMLNode", "OccupancyXMLNode", "PhantomObstacleXMLNode",
    "PlanningProblemXMLNode", "Point", "Pointlist", "PolygonXMLNode", "RectangleXMLNode", "ShapeXMLNode", "SignalStateXMLNode", "StateXMLNode",
    "StaticObstacleXMLNode", "TagXMLNode", "TrafficLightCycleElementXMLNode", "TrafficLightCycleXMLNode", "TrafficLightXMLNode", "TrafficSignXMLNode", "XMLFileWriter"]
WRITER_FUNCTIONS = ["create_exact_node_float", "create_exact_node_int", "create_interval_node_float", "create_interval_node_int", "decimal_to_str", "float_to_str"]
READER_ENTRY = {"open": "V every file; lanelet_assignment=True on a part (entry/reader-lanelet-assignment)", "open_lanelet_network": "V on a part (entry/reader-network-only)"}


def n_entries():
    return (sum(len(v["ctor"]) + len(v["set"]) + len(v["ops"]) for v in DIMENSIONS.values()) + len(STATE_CLASSES) + len(SIGNAL_SLOTS) +
            len(WRITER_NODE_CLASSES) + len(WRITER_FUNCTIONS) + len(READER_ENTRY))


def check_dimensions():
    """-> list of complaints (empty if the table covers the live code)."""
    import dataclasses
    import importlib
    out = []
    for name, tab in DIMENSIONS.items():
        parts = name.split(".")
        if parts[-1] == "write_to_file":
            mod, cls = ".".join(parts[:-2]), parts[-2]
            f = getattr(getattr(importlib.import_module(mod), cls), "write_to_file")
            live = [p for p in inspect.signature(f).parameters if p != "self"]
            out += [f"{name}: parameter {p!r} is not in the dimension table" for p in live if p not in tab["ctor"]]
            out += [f"{name}: parameter {p!r} no longer exists" for p in tab["ctor"] if p not in live]
            f2 = getattr(getattr(importlib.import_module(mod), cls), "write_scenario_to_file")
            out += [f"{cls}.write_scenario_to_file: parameter {p!r} is not in the dimension table"
                    for p in inspect.signature(f2).parameters if p != "self" and p not in tab["ctor"]]
            continue
        mod, cls = ".".join(parts[:-1]), parts[-1]
        c = getattr(importlib.import_module(mod), cls)
        params = [p for p in inspect.signature(c.__init__).parameters if p != "self"]
        setters = [k for k, v in inspect.getmembers(c) if isinstance(v, property) and v.fset is not None]
        meths = [k for k, v in inspect.getmembers(c) if callable(v) and not k.startswith("_")]
        for kind, live in (("ctor", params), ("set", setters), ("ops", meths)):
            out += [f"{cls}: {kind} {p!r} is not in the dimension table (harness/c03_dims.py)" for p in live if p not in tab[kind]]
            out += [f"{cls}: {kind} {p!r} of the dimension table no longer exists" for p in tab[kind] if p not in live]
    st = importlib.import_module("commonroad.scenario.state")
    live_states = {c.__name__ for c in st.SpecificStateClasses} | {"CustomState"}
    out += [f"state class {c} is not in STATE_CLASSES" for c in sorted(live_states - set(STATE_CLASSES))]
    import c03_gen
    for c, note in STATE_CLASSES.items():
        if note.startswith("V") and c != "CustomState":
            fields = [f.name for f in dataclasses.fields(getattr(st, c)) if f.name not in ("time_step", "position", "orientation")]
            gen = c03_gen.STATE_CLASSES.get(c)
            if gen is None or set(fields) != set(gen):
                out.append(f"state class {c}: fields {sorted(fields)} differ from the generator's table {sorted(gen or [])}")
    if list(st.SignalState.__slots__) != SIGNAL_SLOTS:
        out.append(f"SignalState slots {st.SignalState.__slots__} differ from the table")
    w = importlib.import_module("commonroad.common.writer.file_writer_xml")
    live = sorted(n for n, v in inspect.getmembers(w, inspect.isclass) if v.__module__ == w.__name__)
    out += [f"writer class {n} is not in WRITER_NODE_CLASSES" for n in live if n not in WRITER_NODE_CLASSES]
    livef = sorted(n for n, v in inspect.getmembers(w, inspect.isfunction) if v.__module__ == w.__name__)
    out += [f"writer function {n} is not in WRITER_FUNCTIONS" for n in livef if n not in WRITER_FUNCTIONS]
    fr = importlib.import_module("commonroad.common.file_reader")
    out += [f"reader entry point {k} is not in READER_ENTRY" for k in dir(fr.CommonRoadFileReader) if not k.startswith("_") and k not in READER_ENTRY]
    return out


# ------------------------------------------------------------------------------------------------ histories

def _quiet(f, *a, **k):
    """Run an operation whose failure is part of the history (class 5): returns True if it raised."""
    try:
        f(*a, **k)
        return False
    except Exception:  # noqa
        return True


def apply_history(sc, pps, var, tags):
    """Operations between building and writing.  Returns (scenario, planning problem set)."""
    from commonroad.common.util import Interval
    from commonroad.prediction.prediction import SetBasedPrediction, TrajectoryPrediction
    from commonroad.scenario.lanelet import LaneletNetwork
    from commonroad.scenario.obstacle import DynamicObstacle, PhantomObstacle, StaticObstacle
    from commonroad.scenario.state import InitialState
    ops = list(var.get("hist") or [])
    r = random.Random(var.get("hseed", 0))
    net = sc.lanelet_network
    for op in ops:
        tags.append(f"hist/{op}")
        if op == "reassign":      # the same object / list handed back to its setter; remove + add of the same reference
            sc.dt = sc.dt
            for la in net.lanelets:
                la.left_vertices, la.right_vertices = la.left_vertices, la.right_vertices
                la.predecessor, la.successor = la.predecessor, la.successor
                la.lanelet_type, la.user_one_way, la.user_bidirectional = la.lanelet_type, la.user_one_way, la.user_bidirectional
                la.traffic_signs, la.traffic_lights = la.traffic_signs, la.traffic_lights
                la.line_marking_left_vertices, la.line_marking_right_vertices = la.line_marking_left_vertices, la.line_marking_right_vertices
                la.adj_left, la.adj_right = la.adj_left, la.adj_right
                if la.stop_line is not None:
                    s = la.stop_line
                    la.stop_line = s
                    s.start, s.end, s.line_marking = s.start, s.end, s.line_marking
                    s.traffic_sign_ref, s.traffic_light_ref = s.traffic_sign_ref, s.traffic_light_ref
                if la.successor:
                    x = la.successor[-1]
                    la.remove_successor(x)
                    la.add_successor(x)
                if la.predecessor:
                    x = la.predecessor[-1]
                    la.remove_predecessor(x)
                    la.add_predecessor(x)
            for sg in net.traffic_signs:
                sg.traffic_sign_elements, sg.position, sg.virtual = sg.traffic_sign_elements, sg.position, sg.virtual
                for e in sg.traffic_sign_elements:
                    e.additional_values = e.additional_values
            for tl in net.traffic_lights:
                cyc = tl.traffic_light_cycle
                tl.traffic_light_cycle, tl.position, tl.active, tl.direction = cyc, tl.position, tl.active, tl.direction
                if cyc is not None:
                    cyc.cycle_elements, cyc.time_offset = cyc.cycle_elements, cyc.time_offset
            for it in net.intersections:
                it.incomings, it.crossings = it.incomings, it.crossings
                for inc in it.incomings:
                    inc.incoming_lanelets, inc.left_of = inc.incoming_lanelets, inc.left_of
                    inc.successors_left, inc.successors_right, inc.successors_straight = inc.successors_left, inc.successors_right, inc.successors_straight
            for o in sc.obstacles:
                if isinstance(o, PhantomObstacle):
                    o.prediction = o.prediction
                    continue
                o.obstacle_shape, o.obstacle_type = o.obstacle_shape, o.obstacle_type
                sh = o.obstacle_shape
                if hasattr(sh, "length"):
                    sh.length, sh.width, sh.center, sh.orientation = sh.length, sh.width, sh.center, sh.orientation
                elif hasattr(sh, "radius"):
                    sh.radius, sh.center = sh.radius, sh.center
                if isinstance(o, (StaticObstacle, DynamicObstacle)):
                    o.initial_state = o.initial_state
                if isinstance(o, DynamicObstacle):
                    o.initial_signal_state, o.signal_series = o.initial_signal_state, o.signal_series
                    p = o.prediction
                    o.prediction = p
                    if isinstance(p, TrajectoryPrediction):
                        p.trajectory, p.shape = p.trajectory, p.shape
                        o.update_prediction(p)
                    elif isinstance(p, SetBasedPrediction):
                        p.occupancy_set = p.occupancy_set
                        for oc in p.occupancy_set:
                            oc.shape, oc.time_step = oc.shape, oc.time_step
                            if isinstance(oc.time_step, Interval):
                                oc.time_step.start, oc.time_step.end = oc.time_step.start, oc.time_step.end
            pps.planning_problem_dict = pps.planning_problem_dict
            for pp in pps.planning_problem_dict.values():
                pp.initial_state, pp.goal = pp.initial_state, pp.goal
                pp.goal.state_list, pp.goal.lanelets_of_goal_position = pp.goal.state_list, pp.goal.lanelets_of_goal_position
            if sc.location is not None:
                loc = sc.location
                loc.geo_name_id, loc.gps_latitude, loc.gps_longitude = loc.geo_name_id, loc.gps_latitude, loc.gps_longitude
                loc.geo_transformation, loc.environment = loc.geo_transformation, loc.environment
                if loc.environment is not None:
                    e = loc.environment
                    e.time, e.time_of_day, e.weather, e.underground = e.time, e.time_of_day, e.weather, e.underground
        elif op == "queries":     # read-only queries: caches filled, lazily computed attributes materialised
            for o in sc.obstacles:
                for t in (0, 1, 2, 50):
                    _quiet(o.occupancy_at_time, t)
                    if hasattr(o, "state_at_time"):
                        _quiet(o.state_at_time, t)
                    if isinstance(o, DynamicObstacle):
                        _quiet(o.signal_state_at_time_step, t)
                if isinstance(o, DynamicObstacle) and isinstance(o.prediction, TrajectoryPrediction):
                    _quiet(lambda: o.prediction.occupancy_set)
                    _quiet(o.prediction.trajectory.state_at_time_step, 1)
                    _quiet(o.prediction.trajectory.states_in_time_interval, 1, 3)
            _quiet(sc.occupancies_at_time_step, 1)
            _quiet(sc.obstacle_states_at_time_step, 1)
            _quiet(sc.obstacles_by_role_and_type)
            _quiet(sc.obstacles_by_position_intervals, [Interval(-10, 10), Interval(-10, 10)])
            _quiet(sc.assign_obstacles_to_lanelets)
            for la in net.lanelets:
                _quiet(lambda: la.polygon)
                _quiet(la.convert_to_polygon)
                _quiet(la.contains_points, np.array([[0.0, 0.0]]))
                _quiet(la.interpolate_position, 0.0)
                _quiet(lambda: la.distance)
            _quiet(net.find_lanelet_by_position, [np.array([0.0, 0.0])])
            _quiet(net.lanelets_in_proximity, np.array([0.0, 0.0]), 10.0)
            for tl in net.traffic_lights:
                _quiet(tl.get_state_at_time_step, 3)
                if tl.traffic_light_cycle is not None:
                    _quiet(tl.traffic_light_cycle.get_state_at_time_step, 7)
            for pp in pps.planning_problem_dict.values():
                _quiet(pps.find_planning_problem_by_id, pp.planning_problem_id)
                _quiet(pp.goal.is_reached, pp.initial_state)
            _quiet(hash, sc)
            _quiet(str, sc)
            _quiet(sc.__eq__, sc)
        elif op == "fail":        # operations that raise, followed by the write
            some = sc.obstacles[0] if sc.obstacles else None
            if some is not None:
                _quiet(sc.add_objects, some)                                 # id already in use
            _quiet(sc.add_objects, net.lanelets[0])                          # lanelet id already in use
            _quiet(sc.add_objects, [object()])                               # unknown type inside a list
            _quiet(sc.remove_obstacle, StaticObstacle(sc.generate_object_id(), list(_static_types())[0], _unit_rect(),
                                                       InitialState(position=np.array([0.0, 0.0]), orientation=0.0, time_step=0)))
            _quiet(sc.translate_rotate, np.array([1.0]), 0.0)                # malformed translation: rejected before anything moves
            _quiet(sc.translate_rotate, np.array([0.0, 0.0]), 100.0)         # angle outside [-2 pi, 2 pi]
            _quiet(pps.add_planning_problem, next(iter(pps.planning_problem_dict.values())))   # id already in use
        elif op == "remove":      # objects removed again: the references to them have to go as well
            if sc.obstacles and r.random() < 0.7:
                o = r.choice(sc.obstacles)
                _quiet(sc.remove_obstacle, o if r.random() < 0.5 else [o])
            if net.traffic_signs and r.random() < 0.5:
                _quiet(sc.remove_traffic_sign, r.choice(net.traffic_signs))
            if net.traffic_lights and r.random() < 0.5:
                _quiet(sc.remove_traffic_light, r.choice(net.traffic_lights))
            if net.intersections and r.random() < 0.5:
                _quiet(sc.remove_intersection, r.choice(net.intersections))
            if len(net.lanelets) > 1 and r.random() < 0.4:
                # may leave the quantifier: an incoming without lanelets, goal lanelets of the (separate) planning problems
                tags.append("hist/remove-lanelet")
                _quiet(sc.remove_lanelet, r.choice(net.lanelets))
        elif op == "transform":   # in-place mutation of every coordinate
            _quiet(sc.translate_rotate, np.array([r.choice([0.0, 1e-5, 12.5, -1e5]), r.choice([0.0, 3.0, 2e-6])]), r.choice([0.0, 0.5, -1e-6, 3.0]))
            _quiet(pps.translate_rotate, np.array([1.0, -1.0]), 0.25)
        elif op == "convert2d":
            _quiet(sc.convert_to_2d)
        elif op == "copy":
            sc, pps = copy.deepcopy((sc, pps))
            if r.random() < 0.5:
                # may leave the quantifier: the copy drops incomings without successors but keeps the left_of references to them
                tags.append("hist/network-copy")
                _quiet(sc.replace_lanelet_network, LaneletNetwork.create_from_lanelet_network(sc.lanelet_network, cleanup_ids=False))
            net = sc.lanelet_network
        elif op == "pickle":
            sc, pps = pickle.loads(pickle.dumps((sc, pps)))
            net = sc.lanelet_network
    return sc, pps


def _static_types():
    from commonroad.scenario.obstacle import ObstacleType
    return [ObstacleType.PARKED_VEHICLE]


def _unit_rect():
    from commonroad.geometry.shape import Rectangle
    return Rectangle(1.0, 1.0)
