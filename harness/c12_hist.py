"""C12 — histories: what happens to an object between building it and comparing it.

A history is a JSON list of operations applied to an object built from a description (so every case is replayable):
  ["set", getter, obj_desc]          setattr(o, getter, deepcopy(getattr(build(obj_desc), getter))): the value a constructor
                                     stores for that attribute, handed to the property setter / plain attribute
  ["set-same", getter]               setattr(o, getter, getattr(o, getter))           (the same object handed back)
  ["set-bad", getter]                setattr(o, getter, <an object no setter accepts>) inside try: a FAILING operation
  ["inplace", getter, obj_desc]      the container returned by the getter is emptied and refilled in place / the array overwritten
                                     with the value a freshly built obj_desc has there
  ["call", method]                   a mutating public method with canned arguments (CANNED); exceptions are swallowed
  ["reads"]                          the read-only history of c12_specs.read_only_history
  ["nested", getter, op]             op applied to the object returned by the getter
  ["pickle"] ["copy"] ["replace"]    the object is replaced by pickle.loads(pickle.dumps(o)) / copy.copy(o) / dataclasses.replace(o)

DIMENSIONS is the table of every property setter and every public method of every class of the property, with the way the
generator covers it; `check_dimensions` compares it with the working tree on every run (an unknown setter / method => exit 2)."""
from __future__ import annotations

import copy
import inspect
import json

import c12_specs as S

# ------------------------------------------------------------------------------------------------ dimension table

# how a property setter is covered
CTOR = "ctor-attr: set / set-restore / set-same / set-bad / in-place histories against a freshly constructed partner"
DERIVED = "not constructor-visible (derived cache, registry filled by Scenario.add_objects, constant role, immutable): outside the quantifier"
# how a public method is covered
CANNED_M = "mutator with canned arguments: applied identically to two twins (must stay equal) and compared with the untouched object by the model"
BUILDER = "container edit taking objects: used by the description builders (add_*); removal / replacement histories belong to C09/C10"
QUERY = "read-only query: evaluated in the read-only history before comparing"
PURE = "pure function / returns a new value: does not touch the object (read in the read-only history where it takes no argument)"

SETTER_OVERRIDES = {
    ("Rectangle", "_shapely_polygon"): DERIVED, ("Rectangle", "vertices"): DERIVED,
    ("TrajectoryPrediction", "wheelbase_lengths"): DERIVED,
    ("Lanelet", "distance"): DERIVED, ("Lanelet", "dynamic_obstacles_on_lanelet"): DERIVED,
    ("Lanelet", "static_obstacles_on_lanelet"): DERIVED,
    ("PlanningProblemSet", "planning_problem_dict"): DERIVED,
}

# canned arguments of the mutating methods (built lazily: numpy)
def canned_args(name, o):
    import numpy as np
    if name in ("translate_rotate", "rotate_translate_local"):
        return (np.array([1.5, -2.0]), 0.25)
    if name in ("fill_with_defaults", "convert_to_2d", "cleanup_lanelet_references", "cleanup_traffic_light_references",
                "cleanup_traffic_sign_references", "generate_object_id", "remove_hanging_lanelet_members", "erase_lanelet_network",
                "assign_obstacles_to_lanelets"):
        return ()
    if name in ("add_predecessor", "add_successor", "add_traffic_sign_to_lanelet", "add_traffic_light_to_lanelet",
                "add_adjacent_area_to_lanelet", "add_static_obstacle_to_lanelet"):
        return (777,)
    if name in ("remove_predecessor", "remove_successor"):
        l = list(getattr(o, name.split("_")[1]))
        return (l[0] if l else 777,)
    if name == "add_dynamic_obstacle_to_lanelet":
        return (777, 3)
    if name == "add_attribute":
        return ("zz_extra",)
    if name == "set_value":
        return (sorted(o.attributes)[-1], 1.5)
    if name == "append_state":
        s = copy.deepcopy(o.state_list[-1])
        s.time_step = s.time_step + 1
        return (s,)
    if name == "update_initial_state":
        return ()
    raise KeyError(name)


CANNED = {"translate_rotate", "rotate_translate_local", "fill_with_defaults", "convert_to_2d", "cleanup_lanelet_references",
          "cleanup_traffic_light_references", "cleanup_traffic_sign_references", "generate_object_id",
          "remove_hanging_lanelet_members", "erase_lanelet_network", "assign_obstacles_to_lanelets", "add_predecessor",
          "add_successor", "add_traffic_sign_to_lanelet", "add_traffic_light_to_lanelet", "add_adjacent_area_to_lanelet",
          "add_static_obstacle_to_lanelet", "remove_predecessor", "remove_successor", "add_dynamic_obstacle_to_lanelet",
          "add_attribute", "set_value", "append_state", "update_initial_state"}
BUILDERS = {"add_objects", "add_area", "add_intersection", "add_lanelet", "add_lanelets_from_network", "add_traffic_light",
            "add_traffic_sign", "add_planning_problem", "remove_area", "remove_intersection", "remove_lanelet",
            "remove_traffic_light", "remove_traffic_sign", "remove_obstacle", "replace_lanelet_network", "update_prediction",
            "merge_lanelets", "create_from_lanelet_list", "create_from_lanelet_network", "from_benchmark_id",
            "map_obstacles_to_lanelets", "filter_obstacles_in_network"}
QUERIES = set(S.TIME_QUERIES) | set(S.ID_QUERIES) | set(S.POINT_QUERIES)


def classify_method(name):
    if name in CANNED:
        return CANNED_M
    if name in BUILDERS:
        return BUILDER
    if name in QUERIES:
        return QUERY
    return PURE


def real_dimensions():
    """setters and public methods of every class of the property, read from the working tree"""
    R = S.registry()
    out = {}
    for cls in S.SPECS:
        C = R[cls]
        setters = sorted(n for n in dir(C) if isinstance(inspect.getattr_static(C, n, None), property)
                         and inspect.getattr_static(C, n).fset is not None)
        methods = sorted(n for n in dir(C) if not n.startswith("_") and callable(getattr(C, n, None))
                         and not isinstance(inspect.getattr_static(C, n, None), property))
        out[cls] = {"setters": setters, "methods": methods}
    return out


# the frozen table: class -> {"setters": {name: how}, "methods": {name: how}} (generated from the tree this check was written
# against by tools of this file: `python harness/c12_hist.py --dump`, reviewed by hand through the override / name tables above)
def _load_table():
    import json
    import os
    return json.load(open(os.path.join(os.path.dirname(os.path.abspath(__file__)), "c12_dimensions.json")))


def build_table():
    getters = {cls: set(S.getters(spec)) for cls, spec in S.SPECS.items()}
    tab = {}
    for cls, d in real_dimensions().items():
        st = {}
        for n in d["setters"]:
            st[n] = SETTER_OVERRIDES.get((cls, n)) or (CTOR if n in getters[cls] else DERIVED)
        tab[cls] = {"setters": st, "methods": {n: classify_method(n) for n in d["methods"]}}
    return tab


def check_dimensions():
    """[(class, kind, name)] present in the working tree but unknown to the table, and vice versa"""
    tab = _load_table()
    real = real_dimensions()
    unknown, gone = [], []
    for cls, d in real.items():
        t = tab.get(cls, {"setters": {}, "methods": {}})
        for kind in ("setters", "methods"):
            unknown += [(cls, kind, n) for n in d[kind] if n not in t[kind]]
            gone += [(cls, kind, n) for n in t[kind] if n not in d[kind]]
    return unknown, gone


def table_size():
    tab = _load_table()
    return sum(len(t["setters"]) + len(t["methods"]) for t in tab.values())


# ------------------------------------------------------------------------------------------------ applying a history

class _Bad:
    """a value no setter of the library accepts"""

    def __repr__(self):
        return "<bad>"


def apply_op(o, op):
    """apply one operation; returns the (possibly replaced) object. Exceptions propagate except where the op says otherwise."""
    import numpy as np
    kind = op[0]
    if kind == "set":
        setattr(o, op[1], copy.deepcopy(getattr(S.build(op[2]), op[1])))
    elif kind == "set-same":
        setattr(o, op[1], getattr(o, op[1]))
    elif kind == "set-bad":
        try:
            setattr(o, op[1], _Bad())
        except Exception:  # noqa
            pass
    elif kind == "inplace":
        cur, new = getattr(o, op[1]), copy.deepcopy(getattr(S.build(op[2]), op[1]))
        if isinstance(cur, list) and isinstance(new, list):
            cur[:] = new
        elif isinstance(cur, set) and isinstance(new, set):
            cur.clear()
            cur.update(new)
        elif isinstance(cur, dict) and isinstance(new, dict):
            cur.clear()
            cur.update(new)
        elif isinstance(cur, np.ndarray) and isinstance(new, np.ndarray) and cur.shape == new.shape:
            cur[...] = new
        else:
            raise TypeError("no in-place edit for this pair of values")
    elif kind == "call":
        try:
            getattr(o, op[1])(*canned_args(op[1], o))
        except Exception:  # noqa  a failing operation is part of the history; what it leaves behind is compared
            pass
    elif kind == "motion0":
        # the identity motion: translation (0, 0), angle 0 — every coordinate and angle keeps its value, but the library
        # recomputes (and re-allocates) the arrays.  Shapes / states hand back a new object instead of moving themselves.
        res = getattr(o, op[1])(np.array([0.0, 0.0]), 0.0)
        if res is not None and type(res) is type(o):
            o = res
    elif kind == "reads":
        S.read_only_history(o)
    elif kind == "nested":
        sub = getattr(o, op[1])
        new = apply_op(sub, op[2])
        if new is not sub:
            setattr(o, op[1], new)
    elif kind == "pickle":
        import pickle
        o = pickle.loads(pickle.dumps(o))
    elif kind == "copy":
        o = copy.copy(o)
    elif kind == "replace":
        import dataclasses
        o = dataclasses.replace(o)
    else:
        raise ValueError(op)
    return o


def apply_history(o, hist):
    for op in hist:
        o = apply_op(o, op)
    return o


# ------------------------------------------------------------------------------------------------ generating histories

def _settable(cls, getter):
    t = _load_table().get(cls)
    spec = S.SPECS[cls]
    if spec.family == "State" or cls in ("SignalState", "ScenarioID", "Scenario"):
        return True  # dataclass fields / slots / plain attributes
    return t is not None and t["setters"].get(getter) == CTOR


def numeric_twin(d, mode):
    """same description with every integral float written as an int (mode 'int'), every number as a numpy scalar ('np')"""
    if isinstance(d, bool) or d is None or isinstance(d, str):
        return d
    if isinstance(d, float):
        if mode == "int":
            return int(d) if d == int(d) and abs(d) < 1e9 else d
        return {"np": "float64", "v": d}
    if isinstance(d, int):
        return {"np": "int64", "v": d} if mode == "np" else d
    if isinstance(d, list):
        return [numeric_twin(e, mode) for e in d]
    if isinstance(d, dict):
        if "nd" in d or "enum" in d:
            return d
        if "set" in d:
            return {"set": [numeric_twin(e, mode) for e in d["set"]]}
        if "dict" in d:
            return {"dict": [[k, numeric_twin(v, mode)] for k, v in d["dict"]]}
        if "cls" in d:
            return {"cls": d["cls"], "args": {k: numeric_twin(v, mode) for k, v in d["args"].items()}}
    return d


def gen_histories(r, dx, n_params=2):
    """[{"hkind", "hist" (ops for y built from dx), "partner": "x" | {"desc": dz} | {"hist": ops for a second object built from dx},
        "note"}]"""
    cls = dx["cls"]
    spec = S.SPECS[cls]
    out = []
    tab = _load_table().get(cls, {"setters": {}, "methods": {}})
    names = spec.param_names(dx)
    r.shuffle(names)
    for pname in names[:n_params]:
        getter = spec.param(pname).getter
        if not _settable(cls, getter):
            continue
        dz = S.perturb_param(r, dx, pname)
        if dz is None:
            continue
        pre = [["reads"]] if r.random() < 0.5 else []
        explicit = pname in dx["args"]   # an omitted argument may be a default object shared by all instances: never edited in place
        out.append({"hkind": "set-change", "attr": pname, "hist": pre + [["set", getter, dz]], "partner": {"desc": dz}})
        out.append({"hkind": "set-restore", "attr": pname, "hist": pre + [["set", getter, dz], ["set", getter, dx]], "partner": "x"})
        if explicit:
            out.append({"hkind": "inplace-change", "attr": pname, "hist": pre + [["inplace", getter, dz]], "partner": {"desc": dz}})
            out.append({"hkind": "inplace-restore", "attr": pname,
                        "hist": pre + [["inplace", getter, dz], ["inplace", getter, dx]], "partner": "x"})
        out.append({"hkind": "set-same", "attr": pname, "hist": pre + [["set-same", getter]], "partner": "x"})
        out.append({"hkind": "set-bad", "attr": pname, "hist": [["set-bad", getter]] + pre, "partner": "x"})
        # one level down: a setter of a nested object
        cur = dx["args"].get(pname)
        if isinstance(cur, dict) and "cls" in cur:
            sub = S.SPECS[cur["cls"]]
            q = r.choice(sub.param_names(cur))
            if _settable(cur["cls"], sub.param(q).getter):
                dsub = S.perturb_param(r, cur, q)
                if dsub is not None:
                    dz2 = copy.deepcopy(dx)
                    dz2["args"][pname] = dsub
                    out.append({"hkind": "nested-set", "attr": f"{pname}.{q}",
                                "hist": pre + [["nested", getter, ["set", sub.param(q).getter, dsub]]],
                                "partner": {"desc": dz2}})
    # mutating methods with canned arguments: the same call on two twins, and a failing / succeeding call before comparing
    ms = [m for m, how in tab["methods"].items() if how == CANNED_M]
    r.shuffle(ms)
    for m in ms[:2]:
        h = ([["reads"]] if r.random() < 0.3 else []) + [["call", m]]
        out.append({"hkind": "call", "attr": m, "hist": h, "partner": {"hist": [["call", m]]}})
    # alternative ways to obtain "the same" object
    out.append({"hkind": "pickle", "attr": None, "hist": [["pickle"]], "partner": "x"})
    out.append({"hkind": "copy", "attr": None, "hist": [["copy"]], "partner": "x"})
    if spec.family == "State" and cls != "CustomState":
        out.append({"hkind": "replace", "attr": None, "hist": [["replace"]], "partner": "x"})
    out += gen_routes(r, dx)
    if cls in S.ALT_CLASSES:
        out.append({"hkind": "alt-entry", "attr": None, "hist": [], "partner": {"desc": dict(dx, via="alt")}})
    out += gen_layouts(r, dx, tab)
    for mode in ("int", "np"):
        dn = numeric_twin(dx, mode)
        if json.dumps(dn) != json.dumps(dx):  # 2 == 2.0 in Python: compare the written form
            out.append({"hkind": "numeric-" + mode, "attr": None, "hist": [], "partner": {"desc": dn}})
    return out


def gen_layouts(r, dx, tab):
    """MEMORY LAYOUT of the array-valued attributes (positions, centers, polylines, polygon vertices at any depth): twins
    with identical entries whose arrays are column-major, transposed views, strided / reversed views into larger buffers or
    big-endian (one side, and both sides differently); the object after the identity motion (translate_rotate by (0, 0), 0:
    same values, arrays re-allocated by the library); and pairs whose arrays hold different points in the same bytes."""
    out = []
    l1, l2 = S.relayout(r, dx), S.relayout(r, dx)
    if l1:
        out.append({"hkind": "layout", "attr": None, "hist": [], "partner": {"desc": l1[0]}, "tags": ["layout:" + u for u in l1[1]]})
    if l1 and l2 and json.dumps(l1[0]) != json.dumps(l2[0]):
        out.append({"hkind": "layout-both", "attr": None, "hist": [["reads"]] if r.random() < 0.3 else [], "y_desc": l2[0],
                    "partner": {"desc": l1[0]}, "tags": ["layout:" + u for u in l2[1]]})
    for m in ("translate_rotate", "rotate_translate_local"):
        if m in tab["methods"] and (m == "translate_rotate" or r.random() < 0.5):
            out.append({"hkind": "identity-motion", "attr": m, "hist": [["motion0", m]], "partner": "x"})
            if l1 and r.random() < 0.5:
                out.append({"hkind": "identity-motion", "attr": m, "hist": [["motion0", m]], "y_desc": l1[0], "partner": "x"})
    al = S.layout_alias(r, dx)
    if al:
        out.append({"hkind": "layout-alias", "attr": "/".join(str(k) for k in al[2] if k != "args"), "hist": [], "y_desc": al[1],
                    "partner": {"desc": al[0]}, "differs": True})
    return out


def _max_id(d):
    m = 0
    if isinstance(d, list):
        for e in d:
            m = max(m, _max_id(e))
    elif isinstance(d, dict):
        if "cls" in d:
            for k, v in d["args"].items():
                if k.endswith("_id") and isinstance(v, int):
                    m = max(m, v)
                m = max(m, _max_id(v))
        elif "set" in d:
            m = max([m] + [e for e in d["set"] if isinstance(e, int)])
        elif "dict" in d:
            for _, v in d["dict"]:
                m = max(m, _max_id(v))
    return m


def _extra_element(r, kind, fresh):
    """an element with a fresh id that nothing refers to (added and removed again before the comparison)"""
    d = S.gen_obj(r, kind, 1)
    key = {"Lanelet": "lanelet_id", "TrafficSign": "traffic_sign_id", "TrafficLight": "traffic_light_id",
           "Intersection": "intersection_id", "Area": "area_id", "StaticObstacle": "obstacle_id",
           "EnvironmentObstacle": "obstacle_id"}[kind]
    d["args"][key] = fresh
    if kind == "Intersection":
        for i, inc in enumerate(d["args"]["incomings"]):
            inc["args"]["incoming_id"] = fresh + 1 + i
    if kind == "StaticObstacle":
        d["args"].pop("initial_shape_lanelet_ids", None)
        d["args"].pop("initial_center_lanelet_ids", None)
    return d


def gen_routes(r, dx):
    """CONSTRUCTION ROUTES of the two containers: the same content assembled through different sequences of public calls —
    container level (scenario.add_objects) vs member level (scenario.lanelet_network.add_*), element by element vs the whole
    network, another order of the road elements, an extra element added and removed again (through the scenario / through
    its lanelet network, in all four combinations).  Every variant is compared with the standard build and with the
    variant before it; the oracle demands equality (and equal hashes) whenever all public getters show identical values."""
    cls = dx["cls"]
    if cls not in ("Scenario", "LaneletNetwork"):
        return []
    fresh = _max_id(dx) + 1000
    vias = []
    if cls == "Scenario":
        vias += [("route:member-level", {"elements": "member"}), ("route:single-objects", {"elements": "single"})]
    vias.append(("route:shuffled", {"elements": "member", "order": r.randint(1, 10 ** 6)}))
    vias.append(("route:cleanup-only", {"cleanup": True}))
    kinds = ["Lanelet", "TrafficSign", "TrafficLight", "Intersection", "Area"] + (["StaticObstacle", "EnvironmentObstacle"] if cls == "Scenario" else [])
    r.shuffle(kinds)
    for kind in kinds[:3]:
        for add, rem in (("scenario", "network"), ("network", "scenario"), ("scenario", "scenario"), ("network", "network")):
            if cls == "LaneletNetwork" and (add, rem) != ("network", "network"):
                continue
            if r.random() < 0.5 and cls == "Scenario":
                continue
            ex = {"desc": _extra_element(r, kind, fresh), "add": add, "remove": rem}
            fresh += 10
            vias.append((f"route:add-remove-{kind}", {"extras": [ex], "cleanup": True}))
    out, prev = [], None
    for name, via in vias:
        dy = dict(dx, via=via)
        out.append({"hkind": name, "attr": None, "y_desc": dy, "hist": [], "partner": "x"})
        if prev is not None:
            out.append({"hkind": name, "attr": None, "y_desc": dy, "hist": [], "partner": {"desc": prev}})
        prev = dy
    return out


if __name__ == "__main__":
    import json
    import sys
    sys.path.insert(0, "/repo")
    if "--dump" in sys.argv:
        import os
        p = os.path.join(os.path.dirname(os.path.abspath(__file__)), "c12_dimensions.json")
        json.dump(build_table(), open(p, "w"), indent=1, sort_keys=True)
        print("wrote", p, sum(len(t["setters"]) + len(t["methods"]) for t in build_table().values()), "entries")
