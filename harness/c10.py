"""C10 — removing or cutting out lanelet-network elements leaves no dangling references.
model: lean/CRModel/Refs.lean; theorems: lean/CRProps/C10.lean (lemmas: lean/CRProofs/Refs.lean).

A case is a *history*: a lanelet network (grid of axis-aligned lanelets with predecessor / successor / adjacency
relations, shared signs and lights, stop lines, intersections) plus a list of removals / cut-outs.  The real code is
run step by step; the whole history is then sent once to the Lean model (`C10 run`) and the two traces are compared
(correspondence).  Independently the oracle evaluates the property sentence on the before/after snapshots of every step.
"""
from __future__ import annotations

import copy
import glob
import hashlib
import json
import os
from fractions import Fraction

from common import CORPUS_DIR, call

RULE = ("histories: a well-formed network of 1..10 grid lanelets (built through one of three public routes: LaneletNetwork.add_* + add_objects(network) / create_from_lanelet_list / Scenario.add_objects object by object with lanelet_ids; optional constructor arguments omitted, None or empty; areas; ids as Python or numpy integers; read-only queries and user edits through setters, in-place mutation and add_* between the operations; cut-outs whose result goes into a fresh Scenario, through replace_lanelet_network, or is dropped while the history stays on the source network; list and object forms of every scenario-level removal incl. remove_hanging_lanelet_members called directly; ids from 0 upwards; the spatial index of the source network fresh or stale — lanelets added with add_lanelet(rtree=False) after the index was built, remove_lanelet(rtree=False); random pred/succ/adjacency incl. mutual adjacency, 0..4 shared "
        "signs and 0..3 lights, stop lines whose refs are subsets of the lanelet's refs, 0..2 intersections with 1..3 incomings "
        "spanning arbitrary lanelets, crossings) followed by 1..5 operations drawn from LaneletNetwork.remove_lanelet / "
        "remove_traffic_sign / remove_traffic_light / remove_intersection, Scenario.remove_lanelet (lists, with and without "
        "referenced_elements, stale and duplicate objects), Scenario.remove_traffic_sign/-light/-intersection, "
        "create_from_lanelet_network (no shape / rectangle / rotated rectangle / circle / polygon, type sets, cleanup flag) and "
        "create_from_lanelet_list; 15% of the histories start from a network outside the property's precondition (dangling "
        "references, stop-line refs not covered by the lanelet) and are used for the correspondence only. "
        "non-trivial = every history (each applies >= 1 removal to a network with relations); distinct = distinct canonical JSON")
ASSUMPTIONS = [
    "Python set/dict semantics (sets and dict values are compared as sorted lists; order is not claimed)",
    "copy.deepcopy copies a lanelet / sign / light faithfully",
    "the geometric filter of create_from_lanelet_network (shapely intersects on Shape.shapely_object) is a parameter of the "
    "model: its result `keep` is evaluated by the harness with the implementation's own shapes; the oracle re-derives it "
    "exactly (interval overlap in Fractions) for axis-aligned rectangles only",
    "cut-outs: an incoming element that keeps no incoming lanelet or no successor, an intersection that keeps no incoming and a "
    "sign / light that no kept lanelet references count as 'selected for removal' (the narrower reading of the sentence); this "
    "reading exists twice — py_selection() here and Op.sel?B in CRModel/Refs.lean (the vocabulary of C10_present_run) — and "
    "the two are compared on every step of every history",
    "left_of, adjacent_areas and TrafficSign.first_occurrence are not among the relations the property lists; observation "
    "(not demanded, counted in the bucket obs:left_of-dangling-after-cut_out, Lean witness C10_witness_leftOf_dangles, corpus "
    "lean_example_cut_124_leftof.json): create_from_lanelet_network copies left_of verbatim, so a kept incoming element can "
    "name an incoming element the cut-out dropped",
    "well-formed start network = no dangling reference + stop-line refs covered by the lanelet + pairwise different ids (what "
    "Scenario.add_objects enforces); the 15% malformed histories are outside it and feed the correspondence only "
    "(C10_noNewDangling_* and C10_frame_* still apply to them in the model)",
    "DIMENSIONS (harness/c10_dims.py, 175 entries, checked against the real signatures every run): every constructor parameter, "
    "setter and public method of Lanelet, StopLine, IntersectionIncomingElement, Intersection, LaneletNetwork, of the "
    "TrafficSign / TrafficLight constructors and of the lanelet-network side of Scenario has one decision: varied / content / "
    "query / operation / edit / no-influence / outside",
    "edits between two operations (setters, in-place mutation of the lists / sets the properties hand out, add_lanelet / "
    "add_traffic_sign(lanelet_ids) / add_intersection, translate_rotate) are the user's changes, not removals: they are not "
    "judged; the model and the oracle start again from the edited network (if it is still well-formed)",
    "outside the quantifier, named here: re-assigning lanelet_id / intersection_id / incoming_id of an element that already "
    "sits in a network (the dict key and Scenario._id_set go stale); IntersectionIncomingElement without incoming lanelets; "
    "ShapeGroup as shape_input and a single Lanelet handed to remove_hanging_lanelet_members (both raise before anything "
    "changes); AREAS: they are neither elements nor relations of the property and are not modelled — observations "
    "(buckets obs:*): LaneletNetwork.remove_area leaves the lanelets' adjacent_areas untouched although its docstring promises "
    "to delete all references, and create_from_lanelet_list copies adjacent_areas into a network without areas; on either "
    "network create_from_lanelet_network raises AssertionError (add_area(None)) — such cut-outs are left out of the history",
    "after a cut-out the history continues in a fresh Scenario, through Scenario.replace_lanelet_network (only when _id_set is "
    "consistent, so that the model's id pool = ids of the new network), or stays on the source network (the cut-out is then "
    "compared on its own and the source network must be unchanged: key source-network-changed)",
    "scenario-level removals are modelled as in the repaired tree (look-up in the network first, KeyError without any change "
    "when the element is not there); stale objects whose id is still in Scenario._id_set are generated "
    "(bucket stale:id-still-in-pool)",
]
EXTRA_MODULES = ["CRProps.T10"]      # translator tie: Gen.SrcC10 (regenerated from the repository every run) = hand model
TRUSTED = ["harness/c10.py snapshot(): reads every id-valued attribute through the public accessors; the content of an element "
           "(geometry, types, markings, sign elements, light cycle) is compared through a SHA-1 digest of those attributes"]
REQUIRED_BUCKETS = ["net_remove_lanelet", "net_remove_sign", "net_remove_light", "net_remove_inter", "scn_remove_lanelets",
                    "scn_remove_signs", "scn_remove_lights", "scn_remove_inters", "scn_remove_hanging", "net_remove_area", "cut_out", "from_list",
                    "query", "after-query", "edit", "after-edit", "edit:add_lanelet", "edit:translate", "edit:set_adj", "edit:inc_set",
                    "edit:set_stop", "build:net", "build:list", "build:scenario", "ctor:none-for-empty", "arg:numpy-int",
                    "then:replace_lanelet_network", "then:stay-on-source", "empty-network-left",
                    "cut:shape", "cut:types", "cut:incoming-dropped", "cut:intersection-dropped", "cut:sign-dropped",
                    "hanging:sign-removed", "hanging:sign-kept-shared", "lanelet-ref-cleaned", "adjacency-cleaned",
                    "stopline-ref-cleaned", "intersection-ref-cleaned", "error:key", "stale:id-still-in-pool", "cut:shape-on-stale-index", "id0:adjacent-lanelet-removed", "stream:wf", "stream:malformed"]

TYPES = ["URBAN", "HIGHWAY", "BUS_LANE", "SIDEWALK", "CROSSWALK", "INTERSECTION"]
CELL_W, CELL_H, LANE_H = 10, 4, 3


# ------------------------------------------------------------------------------------------------ generator

def gen_case(ctx):
    r = ctx.rng
    x = r.random()
    stream = "wf" if x < 0.85 else ("dangling" if x < 0.93 else "stopline")
    nl = r.choice([1, 2, 3, 4, 5, 5, 6, 6, 7, 8, 9, 10])
    ns = r.choice([0, 1, 2, 2, 3, 4])
    nt = r.choice([0, 1, 1, 2, 3])
    ni = r.choice([0, 1, 1, 1, 2])
    ninc = [r.randint(1, 3) for _ in range(ni)]
    total = nl + ns + nt + ni + sum(ninc)
    hi = r.choice([40, 60, 200, 10 ** 6])
    pool = r.sample(range(0, max(hi, total + 5)), total)
    if 0 not in pool and r.random() < 0.3:     # id 0 is a valid id of every element kind; mostly give it to a lanelet
        pool[r.randrange(nl) if r.random() < 0.7 else r.randrange(total)] = 0
    lids, pool = pool[:nl], pool[nl:]
    sids, pool = pool[:ns], pool[ns:]
    tids, pool = pool[:nt], pool[nt:]
    iids, pool = pool[:ni], pool[ni:]
    ghost = [max(lids + sids + tids + iids + pool + [0]) + k for k in (1, 2, 3)]  # ids nothing has

    cols, rows = r.choice([(3, 2), (4, 2), (3, 3), (4, 3), (5, 2)])
    cells = r.sample([(c, rr) for c in range(cols) for rr in range(rows)], min(nl, cols * rows))
    while len(cells) < nl:
        cells.append((r.randrange(cols), r.randrange(rows)))  # overlapping lanelets are allowed
    at = {}
    for i, c in zip(lids, cells):
        at.setdefault(c, i)
    area_ids = [ghost[2] + 10 + k for k in range(r.choice([0, 0, 1, 2]))]   # areas: referenced by lanelets, copied by cut-outs

    def some(ids, lo=0, hi_=3):
        if not ids:
            return []
        k = r.randint(lo, min(hi_, len(ids)))
        return sorted(r.sample(ids, k))

    lanelets = []
    for i, (c, rr) in zip(lids, cells):
        la = {"id": i, "cell": [c, rr], "nv": r.choice([2, 2, 3]), "types": some(TYPES, 0, 2), "pred": [], "succ": [],
              "adjL": None, "adjLSame": None, "adjR": None, "adjRSame": None, "signs": some(sids, 0, 2),
              "lights": some(tids, 0, 2), "stop": None}
        if r.random() < 0.5:
            la["mark"] = [r.choice(MARKS), r.choice(MARKS)]
        if r.random() < 0.4:
            la["users"] = [some(USERS, 0, 2), some(USERS, 0, 2)]
        if area_ids and r.random() < 0.5:
            la["areas"] = some(area_ids, 0, 2)
        lanelets.append(la)
    by = {la["id"]: la for la in lanelets}
    for la in lanelets:
        c, rr = la["cell"]
        nxt = at.get((c + 1, rr))
        if nxt is not None and nxt != la["id"] and r.random() < 0.8:
            la["succ"].append(nxt)
            if r.random() < 0.85:
                by[nxt]["pred"].append(la["id"])
        up = at.get((c, rr + 1))
        if up is not None and up != la["id"] and r.random() < 0.7:
            la["adjL"], la["adjLSame"] = up, r.random() < 0.7
            if r.random() < 0.8 and by[up]["adjR"] is None:  # mutual adjacency
                by[up]["adjR"], by[up]["adjRSame"] = la["id"], la["adjLSame"]
        if r.random() < 0.25:
            la["succ"] += some([j for j in lids if j != la["id"]], 1, 2)
        if r.random() < 0.25:
            la["pred"] += some([j for j in lids if j != la["id"]], 1, 2)
        if la["adjR"] is None and r.random() < 0.15:
            la["adjR"], la["adjRSame"] = r.choice(lids), r.random() < 0.5
        if r.random() < 0.05 and la["succ"]:
            la["succ"].append(la["succ"][0])  # a duplicate entry in the Python list
        if r.random() < 0.45:
            la["stop"] = {"s": None if r.random() < 0.3 else some(la["signs"], 0, 2),
                          "t": None if r.random() < 0.3 else some(la["lights"], 0, 2), "m": r.choice(MARKS)}
    signs = [{"id": i, "elem": r.choice(["U1", "U2", "U3", "U4"]), "val": r.choice(["10", "30", "50"]),
              "fo": some(lids, 0, 2), "virtual": r.random() < 0.2} for i in sids]
    lights = [{"id": i, "cyc": [[r.randrange(4), r.randint(1, 9)] for _ in range(r.randint(1, 3))], "off": r.randint(0, 5),
               "nocycle": r.random() < 0.15, "active": r.random() < 0.8, "dir": r.choice(["ALL", "ALL", "LEFT", "STRAIGHT_RIGHT"])}
              for i in tids]
    inters = []
    for i, k in zip(iids, ninc):
        kids, pool = pool[:k], pool[k:]
        incs = []
        for kid in kids:
            incs.append({"id": kid, "inc": some(lids, 1, 2), "right": some(lids, 0, 2), "straight": some(lids, 0, 2),
                         "left": some(lids, 0, 1), "leftOf": r.choice([None] + kids)})
        inters.append({"id": i, "incomings": incs, "crossings": some(lids, 0, 2)})

    if stream == "dangling":
        for _ in range(r.randint(1, 4)):
            la = r.choice(lanelets)
            what = r.choice(["pred", "succ", "adjL", "adjR", "signs", "lights", "inter", "stop"])
            g = r.choice(ghost)
            if what in ("pred", "succ", "signs", "lights"):
                la[what] = sorted(set(la[what]) | {g})
            elif what == "adjL":
                la["adjL"], la["adjLSame"] = g, True
            elif what == "adjR":
                la["adjR"], la["adjRSame"] = g, False
            elif what == "stop":
                la["stop"] = {"s": [g], "t": [g]}
            elif inters:
                it = r.choice(inters)
                k = r.choice(it["incomings"] + [None])
                if k is None:
                    it["crossings"] = sorted(set(it["crossings"]) | {g})
                else:
                    f = r.choice(["inc", "right", "straight", "left"])
                    k[f] = sorted(set(k[f]) | {g})
    if stream == "stopline":
        for _ in range(r.randint(1, 3)):
            la = r.choice(lanelets)
            la["stop"] = {"s": some(sids, 0, 2), "t": some(tids, 0, 2)}

    # ---- operations
    ops = []
    alive_l, alive_s, alive_t, alive_i = list(lids), list(sids), list(tids), list(iids)
    dead_l, dead_s, dead_t, dead_i = [], [], [], []
    kinds = (["net_remove_lanelet"] * 3 + ["scn_remove_lanelets"] * 5 + ["net_remove_sign", "scn_remove_signs",
             "net_remove_light", "scn_remove_lights", "net_remove_inter", "scn_remove_inter"] + ["cut_out"] * 5 + ["from_list"])
    kinds = kinds + ["scn_remove_hanging", "net_remove_area"]
    n_real = r.choice([1, 2, 2, 3, 3, 4, 5])
    while n_real > 0:
        y = r.random()
        if y < 0.12:       # read-only queries before the next operation (caches, lazily computed attributes)
            ops.append({"op": "query", "q": r.sample(QUERIES, r.randint(1, 4)), "a": r.randrange(1000)})
            continue
        if y < 0.22:       # the user edits the network through setters / in-place / add_* between two removals
            ops.append(gen_edit(r, cols, rows))
            continue
        n_real -= 1
        k = r.choice(kinds)
        if k == "net_remove_area":
            ops.append({"op": k, "x": r.choice(area_ids + ghost[:1])})
        elif k == "scn_remove_hanging":
            if not alive_l:
                continue
            ops.append({"op": k, "ids": some(alive_l, 1, 3)})
        elif k == "net_remove_lanelet":
            x = r.choice(alive_l + ghost[:1]) if alive_l else ghost[0]
            ops.append({"op": k, "x": x, "rtree": r.random() < 0.7})
            if x in alive_l:
                alive_l.remove(x); dead_l.append(x)
        elif k == "scn_remove_lanelets":
            if not alive_l:
                continue
            ids = some(alive_l, 1, 3)
            y = r.random()
            if y < 0.10 and dead_l:
                ids.append(r.choice(dead_l))            # a stale object: KeyError
            elif y < 0.16:
                ids.append(ids[0])                      # the same object twice: KeyError
            single = len(ids) == 1 and r.random() < 0.5
            ref = r.random() < 0.8
            ops.append({"op": k, "ids": ids, "ref": ref, "single": single, "default_ref": ref and r.random() < 0.5})
            for x in ids:
                if x in alive_l:
                    alive_l.remove(x); dead_l.append(x)
        elif k in ("net_remove_sign", "net_remove_light"):
            al, de = (alive_s, dead_s) if k == "net_remove_sign" else (alive_t, dead_t)
            x = r.choice(al + ghost[:1])
            ops.append({"op": k, "x": x})
            if x in al:
                al.remove(x); de.append(x)
        elif k in ("scn_remove_signs", "scn_remove_lights"):
            al, de = (alive_s, dead_s) if k == "scn_remove_signs" else (alive_t, dead_t)
            if not al:
                continue
            ids = some(al, 1, 2)
            if r.random() < 0.15 and de:
                ids.append(r.choice(de))
            single = len(ids) == 1 and r.random() < 0.5
            ops.append({"op": k, "ids": ids, "single": single})
            for x in ids:
                if x in al:
                    al.remove(x); de.append(x)
        elif k == "net_remove_inter":
            x = r.choice(alive_i + ghost[:1])
            ops.append({"op": k, "x": x})
            if x in alive_i:
                alive_i.remove(x); dead_i.append(x)
        elif k == "scn_remove_inter":
            if not alive_i and not dead_i:
                continue
            if not alive_i:
                ops.append({"op": "scn_remove_inters", "ids": [r.choice(dead_i)], "single": r.random() < 0.5})
                continue
            xs = some(alive_i, 1, 2)
            if r.random() < 0.2 and dead_i:
                xs.append(r.choice(dead_i))                     # a stale object
            ops.append({"op": "scn_remove_inters", "ids": xs, "single": len(xs) == 1 and r.random() < 0.5})
            for x in xs:
                if x in alive_i:
                    alive_i.remove(x); dead_i.append(x)
        elif k == "cut_out":
            y = r.random()
            if y < 0.25:
                shape = None
            else:
                cx = Fraction(r.randint(0, cols * CELL_W * 2), 2)
                cy = Fraction(r.randint(0, rows * CELL_H * 2), 2)
                if y < 0.6:    # axis-aligned rectangle on the half-unit grid: touches lanelet borders often
                    shape = {"kind": "rect", "cx": str(cx), "cy": str(cy), "l": r.choice([1, 2, 5, 10, 20]),
                             "w": r.choice([1, 2, 4, 8]), "o": "0"}
                elif y < 0.7:
                    shape = {"kind": "rect", "cx": str(cx), "cy": str(cy), "l": r.choice([5, 10, 20]), "w": r.choice([1, 2, 4]),
                             "o": r.choice(["1/2", "1", "-3/4", "3/2"])}
                elif y < 0.85:
                    shape = {"kind": "circle", "cx": str(cx), "cy": str(cy), "r": r.choice([1, 2, 5, 8, 12])}
                else:
                    shape = {"kind": "poly", "pts": [[str(cx), str(cy)], [str(cx + r.randint(2, 15)), str(cy + r.randint(-3, 3))],
                                                     [str(cx + r.randint(-3, 3)), str(cy + r.randint(2, 8))]]}
            excl = None if r.random() < 0.4 else some(TYPES, 0, 2)
            if shape is None and not excl and r.random() < 0.7:
                excl = some(TYPES, 1, 2)
            ops.append({"op": k, "shape": shape, "excl": excl, "cleanup": r.random() < 0.9,
                        "then": r.choice(["fresh", "fresh", "replace", "replace", "stay"]), "kw": r.random() < 0.3})
        elif k == "from_list":
            if not alive_l:
                continue
            ids = some(alive_l, 1, 4)
            if r.random() < 0.15:
                ids.append(ids[0])
            ops.append({"op": k, "ids": ids, "cleanup": r.random() < 0.85, "then": r.choice(["fresh", "replace"])})
    if not any(o["op"] not in ("query", "edit") for o in ops):
        ops.append({"op": "net_remove_lanelet", "x": lids[0]})
    # spatial index of the source network: built after `indexed` lanelets, the others arrive with add_lanelet(rtree=False)
    indexed = nl if r.random() < 0.6 else r.randint(0, nl - 1)
    route = r.choice(["net", "net", "list", "scenario"])
    if route != "net":
        indexed = nl
    return {"stream": stream, "lanelets": lanelets, "signs": signs, "lights": lights, "inters": inters, "indexed": indexed,
            "areas": [{"id": a, "types": some(["BUS_STOP", "PARKING", "BORDER"], 0, 2)} for a in area_ids],
            "build": route, "none_empty": r.random() < 0.4, "npint": r.random() < 0.25, "ops": ops}


QUERIES = ["find_by_id", "map_inc", "map_incoming", "polygon", "lanelet_polygons", "by_position", "by_shape", "proximity",
           "sign_referenced", "light_referenced", "distance", "hash_eq", "repr", "deepcopy", "successors_in_range",
           "merge_successors", "properties"]


def gen_edit(r, cols, rows):
    """An edit of the live network between two removals.  Elements are addressed by index into the sorted ids the network
    holds at that moment (resolved when the edit is applied), so that the edit stays well-formed whatever was removed."""
    k = r.choice(["add_succ", "add_pred", "rm_succ", "rm_pred", "set_succ", "set_pred", "append_succ", "set_adj", "set_signs",
                  "add_sign_ref", "inplace_sign_ref", "set_lights", "set_stop", "stop_ref", "inc_set", "inc_inplace", "crossings",
                  "incomings_reassign", "add_lanelet", "add_lanelet", "add_sign", "add_light", "add_inter", "translate"])
    e = {"k": k, "a": r.randrange(1000), "b": r.randrange(1000), "c": r.randrange(1000), "m": r.randrange(64)}
    if k == "add_lanelet":
        e.update(cell=[r.randrange(cols), r.randrange(rows)], via=r.choice(["net", "net_nortree", "scn"]),
                 types=sorted(r.sample(TYPES, r.randint(0, 2))), adj=r.random() < 0.5)
    if k in ("add_sign", "add_light", "add_inter"):
        e.update(via=r.choice(["net", "scn"]))
    if k == "translate":
        e.update(dx=r.choice([-20, -5, 5, 10, 40]), dy=r.choice([-8, 0, 4, 12]), via=r.choice(["net", "scn"]))
    if k == "set_adj":
        e.update(side=r.choice(["L", "R"]), same=r.random() < 0.5)
    if k in ("inc_set", "inc_inplace"):
        e.update(f=r.choice(["incoming_lanelets", "successors_right", "successors_straight", "successors_left"]))
    return {"op": "edit", "e": e}


# ------------------------------------------------------------------------------------------------ building the real objects

def _rect_of(la):
    c, rr = la["cell"]
    return (c * CELL_W, rr * CELL_H, c * CELL_W + CELL_W, rr * CELL_H + LANE_H)


MARKS = ["DASHED", "SOLID", "BROAD_DASHED", "NO_MARKING", "UNKNOWN"]
USERS = ["VEHICLE", "CAR", "BUS", "BICYCLE", "PEDESTRIAN"]


def _coll(xs, none_empty, conv):
    """an optional collection argument: None instead of an empty one when the case asks for it"""
    return None if (none_empty and not xs) else conv(xs)


def mk_lanelet(la, none_empty=False, rect=None):
    import numpy as np
    from commonroad.common.common_lanelet import LaneletType, LineMarking, RoadUser, StopLine
    from commonroad.scenario.lanelet import Lanelet
    x0, y0, x1, y1 = rect or _rect_of(la)
    xs = [x0, x1] if la["nv"] == 2 else [x0, (x0 + x1) / 2, x1]
    left = np.array([[x, y1] for x in xs], dtype=float)
    right = np.array([[x, y0] for x in xs], dtype=float)
    center = np.array([[x, (y0 + y1) / 2] for x in xs], dtype=float)
    st = None
    if la["stop"] is not None:
        st = StopLine(np.array([float(x1), float(y0)]), np.array([float(x1), float(y1)]),
                      LineMarking[la["stop"].get("m", "SOLID")],
                      None if la["stop"]["s"] is None else set(la["stop"]["s"]),
                      None if la["stop"]["t"] is None else set(la["stop"]["t"]))
    mark = la.get("mark", ["DASHED", "NO_MARKING"])
    users = la.get("users", [[], []])
    kw = {}
    if "users" in la or not none_empty:
        kw["user_one_way"] = _coll(users[0], none_empty, lambda v: {RoadUser[u] for u in v})
        kw["user_bidirectional"] = _coll(users[1], none_empty, lambda v: {RoadUser[u] for u in v})
    if "areas" in la:
        kw["adjacent_areas"] = _coll(la["areas"], none_empty, set)
    return Lanelet(left, center, right, la["id"], predecessor=_coll(la["pred"], none_empty, list),
                   successor=_coll(la["succ"], none_empty, list),
                   adjacent_left=la["adjL"], adjacent_left_same_direction=la["adjLSame"],
                   adjacent_right=la["adjR"], adjacent_right_same_direction=la["adjRSame"],
                   line_marking_left_vertices=LineMarking[mark[0]], line_marking_right_vertices=LineMarking[mark[1]],
                   stop_line=st, lanelet_type=_coll(la["types"], none_empty, lambda v: {LaneletType[t] for t in v}),
                   traffic_signs=_coll(la["signs"], none_empty, set), traffic_lights=_coll(la["lights"], none_empty, set), **kw)


def mk_sign(s, none_empty=False):
    import numpy as np
    from commonroad.scenario.traffic_sign import TrafficSign, TrafficSignElement, TrafficSignIDZamunda
    el = TrafficSignElement({"U1": TrafficSignIDZamunda.MAX_SPEED, "U2": TrafficSignIDZamunda.STOP,
                             "U3": TrafficSignIDZamunda.YIELD, "U4": TrafficSignIDZamunda.MIN_SPEED}[s["elem"]], [s["val"]])
    return TrafficSign(s["id"], [el], _coll(s["fo"], none_empty, set), np.array([1.0, float(s["id"] % 7)]), s["virtual"])


def mk_light(t):
    import numpy as np
    from commonroad.scenario.traffic_light import (TrafficLight, TrafficLightCycle, TrafficLightCycleElement,
                                                   TrafficLightDirection, TrafficLightState)
    states = list(TrafficLightState)
    cyc = None if t.get("nocycle") else TrafficLightCycle([TrafficLightCycleElement(states[a], d) for a, d in t["cyc"]],
                                                          time_offset=t["off"])
    return TrafficLight(t["id"], np.array([2.0, float(t["id"] % 5)]), cyc, active=t.get("active", True),
                        direction=TrafficLightDirection[t.get("dir", "ALL")])


def mk_inter(it, none_empty=False):
    from commonroad.scenario.intersection import Intersection, IntersectionIncomingElement
    incs = [IntersectionIncomingElement(k["id"], set(k["inc"]), _coll(k["right"], none_empty, set),
                                        _coll(k["straight"], none_empty, set), _coll(k["left"], none_empty, set), k["leftOf"])
            for k in it["incomings"]]
    return Intersection(it["id"], incs, _coll(it["crossings"], none_empty, set))


def mk_area(a):
    import numpy as np
    from commonroad.scenario.area import Area, AreaBorder, AreaType
    border = AreaBorder(a["id"] * 1000 + 1, np.array([[0.0, -5.0], [10.0, -5.0]]))
    return Area(a["id"], [border], {AreaType[t] for t in a.get("types", [])})


def build(case):
    """The start scenario, assembled through one of three public routes (case["build"]):
    net       LaneletNetwork.add_lanelet / add_traffic_sign / add_traffic_light / add_intersection, then Scenario.add_objects(network)
    list      LaneletNetwork.create_from_lanelet_list(lanelets, cleanup_ids=False), then signs / lights / intersections as in `net`
    scenario  Scenario.add_objects for every lanelet, sign (lanelet_ids=referencing lanelets: the references are added by
              add_traffic_sign_to_lanelet instead of the Lanelet constructor), light and intersection one by one
    and with the spatial index built after `indexed` lanelets (route net only)."""
    from commonroad.scenario.lanelet import LaneletNetwork
    from commonroad.scenario.scenario import Scenario
    ne = bool(case.get("none_empty"))
    route = case.get("build", "net")
    nl = len(case["lanelets"])
    if route == "scenario":
        scn = Scenario(0.1)
        refs_s = {s["id"]: set() for s in case["signs"]}
        refs_t = {t["id"]: set() for t in case["lights"]}
        for la in case["lanelets"]:
            la2 = dict(la)
            # sign / light references that name an element of the network arrive through add_objects(sign, lanelet_ids)
            for x in la["signs"]:
                if x in refs_s:
                    refs_s[x].add(la["id"])
            for x in la["lights"]:
                if x in refs_t:
                    refs_t[x].add(la["id"])
            la2["signs"] = [x for x in la["signs"] if x not in refs_s]
            la2["lights"] = [x for x in la["lights"] if x not in refs_t]
            scn.add_objects(mk_lanelet(la2, ne))
        for a in case.get("areas", []):
            scn.lanelet_network.add_area(mk_area(a), set())
        for s_ in case["signs"]:
            scn.add_objects(mk_sign(s_, ne), refs_s[s_["id"]] or None)
        for t in case["lights"]:
            scn.add_objects(mk_light(t), refs_t[t["id"]])
        for it in case["inters"]:
            scn.add_objects(mk_inter(it, ne))
        return scn
    if route == "list":
        ln = LaneletNetwork.create_from_lanelet_list([mk_lanelet(la, ne) for la in case["lanelets"]], cleanup_ids=False)
    else:
        ln = LaneletNetwork()
        indexed = case.get("indexed", nl)
        for n_added, la in enumerate(case["lanelets"]):
            if n_added == indexed:
                ln._create_strtree()     # the lanelets after this point are added with the batch switch and never indexed
            ln.add_lanelet(mk_lanelet(la, ne), rtree=False)
        if indexed >= nl:
            ln._create_strtree()
    for a in case.get("areas", []):
        ln.add_area(mk_area(a), set())
    for s_ in case["signs"]:
        ln.add_traffic_sign(mk_sign(s_, ne), set())
    for t in case["lights"]:
        ln.add_traffic_light(mk_light(t), set())
    for it in case["inters"]:
        ln.add_intersection(mk_inter(it, ne))
    scn = Scenario(0.1)
    scn.add_objects(ln)
    return scn


def mk_shape(sp):
    import numpy as np
    from commonroad.geometry.shape import Circle, Polygon, Rectangle
    if sp is None:
        return None
    f = lambda s: float(Fraction(s))
    if sp["kind"] == "rect":
        return Rectangle(float(sp["l"]), float(sp["w"]), np.array([f(sp["cx"]), f(sp["cy"])]), f(sp["o"]))
    if sp["kind"] == "circle":
        return Circle(float(sp["r"]), np.array([f(sp["cx"]), f(sp["cy"])]))
    return Polygon(np.array([[f(a), f(b)] for a, b in sp["pts"]]))


# ------------------------------------------------------------------------------------------------ snapshot

def _h(*parts):
    m = hashlib.sha1()
    for p in parts:
        m.update(p if isinstance(p, bytes) else repr(p).encode())
        m.update(b"|")
    return int.from_bytes(m.digest()[:6], "big")


def _arr(a):
    import numpy as np
    return np.asarray(a, dtype=float).tobytes()


def dig_lanelet(la):
    st = la.stop_line
    return _h(_arr(la.left_vertices), _arr(la.center_vertices), _arr(la.right_vertices), sorted(t.name for t in la.lanelet_type),
              la.line_marking_left_vertices.name, la.line_marking_right_vertices.name, sorted(u.name for u in la.user_one_way),
              sorted(u.name for u in la.user_bidirectional), sorted(la.adjacent_areas),
              None if st is None else (_arr(st.start), _arr(st.end), st.line_marking.name))


def dig_sign(s):
    return _h(s.traffic_sign_id, sorted((e.traffic_sign_element_id.name, tuple(e.additional_values)) for e in s.traffic_sign_elements),
              sorted(s.first_occurrence), _arr(s.position), bool(s.virtual))


def dig_light(t):
    c = t.traffic_light_cycle
    return _h(t.traffic_light_id, _arr(t.position), bool(t.active), t.direction.name, [x.name for x in t.color],
              None if c is None else ([(e.state.name, int(e.duration)) for e in c.cycle_elements], int(c.time_offset)))


def _ids(xs):
    # a collection attribute that holds None is read as empty: the snapshot must not be what breaks on it
    return sorted(int(x) for x in (xs if xs is not None else ()))


def _opt(x):
    return None if x is None else int(x)


def snapshot(ln):
    """Canonical JSON form of every id-valued attribute of a LaneletNetwork (public accessors only)."""
    L = []
    for la in ln.lanelets:
        st = la.stop_line
        L.append({"id": int(la.lanelet_id), "c": dig_lanelet(la), "pred": _ids(la.predecessor), "succ": _ids(la.successor),
                  "adjL": _opt(la.adj_left), "adjLSame": la.adj_left_same_direction, "adjR": _opt(la.adj_right),
                  "adjRSame": la.adj_right_same_direction, "signs": _ids(la.traffic_signs), "lights": _ids(la.traffic_lights),
                  "stop": None if st is None else {"s": None if st.traffic_sign_ref is None else _ids(st.traffic_sign_ref),
                                                   "t": None if st.traffic_light_ref is None else _ids(st.traffic_light_ref)}})
    S = sorted([int(s.traffic_sign_id), dig_sign(s)] for s in ln.traffic_signs)
    T = sorted([int(t.traffic_light_id), dig_light(t)] for t in ln.traffic_lights)
    I = []
    for it in ln.intersections:
        I.append({"id": int(it.intersection_id), "crossings": _ids(it.crossings),
                  "incomings": sorted(({"id": int(k.incoming_id), "inc": _ids(k.incoming_lanelets), "right": _ids(k.successors_right),
                                        "straight": _ids(k.successors_straight), "left": _ids(k.successors_left),
                                        "leftOf": _opt(k.left_of)} for k in it.incomings), key=lambda k: k["id"])})
    return {"lanelets": sorted(L, key=lambda l: l["id"]), "signs": S, "lights": T, "inters": sorted(I, key=lambda i: i["id"])}


def canon_net(n):
    """Same canonical form for a network that came back from the model (lists that denote sets are sorted)."""
    L = []
    for la in n["lanelets"]:
        la = dict(la)
        for k in ("pred", "succ", "signs", "lights"):
            la[k] = sorted(la[k])
        if la["stop"] is not None:
            la["stop"] = {k: (None if v is None else sorted(v)) for k, v in la["stop"].items()}
        L.append(la)
    I = []
    for it in n["inters"]:
        incs = []
        for k in it["incomings"]:
            k = dict(k)
            for f in ("inc", "right", "straight", "left"):
                k[f] = sorted(k[f])
            incs.append(k)
        I.append({"id": it["id"], "crossings": sorted(it["crossings"]), "incomings": sorted(incs, key=lambda k: k["id"])})
    return {"lanelets": sorted(L, key=lambda l: l["id"]), "signs": sorted(n["signs"]), "lights": sorted(n["lights"]),
            "inters": sorted(I, key=lambda i: i["id"])}


# ------------------------------------------------------------------------------------------------ running the real code

class Impl:
    def __init__(self, case):
        self.case = case
        self.scn = build(case)
        self.stale = case.get("indexed", len(case["lanelets"])) < len(case["lanelets"])   # spatial index misses lanelets
        self.rects = {la["id"]: _rect_of(la) for la in case["lanelets"]}    # where each lanelet lies (exact, for the oracle)
        self.types = {la["id"]: set(la["types"]) for la in case["lanelets"]}
        self.shapes = {}                                                     # shape objects are reused between cut-outs
        self.npint = bool(case.get("npint"))
        self.fresh_id = 10 ** 7
        self._remember()

    def _i(self, x):
        """an id argument: a numpy integer when the case asks for it"""
        if self.npint:
            import numpy as np
            return np.int64(x)
        return x

    def shape_of(self, sp):
        key = json.dumps(sp, sort_keys=True)
        if key not in self.shapes:
            self.shapes[key] = mk_shape(sp)
        return self.shapes[key]

    def pool_consistent(self):
        n = snapshot(self.ln)
        return set(self.ids()) == set(all_ids(n))

    def _remember(self):
        """every object of the network, by id: after a removal (scenario level or network level) the object can be handed in
        again as a stale object"""
        ln = self.scn.lanelet_network
        self.grave = {"l": {int(o.lanelet_id): o for o in ln.lanelets},
                      "s": {int(o.traffic_sign_id): o for o in ln.traffic_signs},
                      "t": {int(o.traffic_light_id): o for o in ln.traffic_lights},
                      "i": {int(o.intersection_id): o for o in ln.intersections}}

    @property
    def ln(self):
        return self.scn.lanelet_network

    def _obj(self, kind, x):
        f = {"l": self.ln.find_lanelet_by_id, "s": self.ln.find_traffic_sign_by_id, "t": self.ln.find_traffic_light_by_id,
             "i": self.ln.find_intersection_by_id}[kind]
        o = f(x)
        if o is not None:
            self.grave[kind][x] = o
            return o
        return self.grave[kind].get(x)

    def keep_of(self, op):
        """the filter of create_from_lanelet_network (lanelet.py:1488-1494) evaluated with the implementation's own shapes"""
        from commonroad.common.common_lanelet import LaneletType
        shape = self.shape_of(op["shape"])
        excl = set() if op["excl"] is None else {LaneletType[t] for t in op["excl"]}
        return sorted(int(la.lanelet_id) for la in self.ln.lanelets
                      if not (la.lanelet_type & excl)
                      and (shape is None or shape.shapely_object.intersects(la.polygon.shapely_object)))

    def apply(self, op):
        """-> (result of common.call, the operation as the model sees it) ; None if the operation has no object to act on"""
        from commonroad.common.common_lanelet import LaneletType
        from commonroad.scenario.lanelet import LaneletNetwork
        from commonroad.scenario.scenario import Scenario
        k = op["op"]
        if k == "net_remove_lanelet":
            if op.get("rtree", True):
                self.stale = False
                return call(self.ln.remove_lanelet, self._i(op["x"])), {"op": k, "x": op["x"]}
            if self.ln.find_lanelet_by_id(op["x"]) is not None:
                self.stale = True     # the index still holds the removed lanelet
            return call(self.ln.remove_lanelet, self._i(op["x"]), False), {"op": k, "x": op["x"]}
        if k == "net_remove_sign":
            return call(self.ln.remove_traffic_sign, self._i(op["x"])), {"op": k, "x": op["x"]}
        if k == "net_remove_light":
            return call(self.ln.remove_traffic_light, self._i(op["x"])), {"op": k, "x": op["x"]}
        if k == "net_remove_inter":
            return call(self.ln.remove_intersection, self._i(op["x"])), {"op": k, "x": op["x"]}
        if k == "scn_remove_lanelets":
            objs = [o for o in (self._obj("l", x) for x in op["ids"]) if o is not None]
            if not objs:
                return None
            args = [{"id": int(o.lanelet_id), "signs": _ids(o.traffic_signs), "lights": _ids(o.traffic_lights)} for o in objs]
            arg = objs[0] if op.get("single") and len(objs) == 1 else objs
            if self.ln.find_lanelet_by_id(int(objs[0].lanelet_id)) is not None:
                self.stale = False    # LaneletNetwork.remove_lanelet (default rtree=True) rebuilds the index
            if op["ref"] and op.get("default_ref"):
                res = call(self.scn.remove_lanelet, arg)
            else:
                res = call(self.scn.remove_lanelet, arg, op["ref"])
            return res, {"op": k, "args": args, "ref": op["ref"]}
        if k in ("scn_remove_signs", "scn_remove_lights"):
            kind = "s" if k == "scn_remove_signs" else "t"
            objs = [o for o in (self._obj(kind, x) for x in op["ids"]) if o is not None]
            if not objs:
                return None
            xs = [int(o.traffic_sign_id if kind == "s" else o.traffic_light_id) for o in objs]
            arg = objs[0] if op.get("single") and len(objs) == 1 else objs
            f = self.scn.remove_traffic_sign if kind == "s" else self.scn.remove_traffic_light
            return call(f, arg), {"op": k, "xs": xs}
        if k in ("scn_remove_inter", "scn_remove_inters"):
            ids_ = [op["x"]] if k == "scn_remove_inter" else op["ids"]
            objs = [o for o in (self._obj("i", x) for x in ids_) if o is not None]
            if not objs:
                return None
            arg = objs[0] if (k == "scn_remove_inter" or op.get("single")) and len(objs) == 1 else objs
            return call(self.scn.remove_intersection, arg), {"op": "scn_remove_inters", "xs": [int(o.intersection_id) for o in objs]}
        if k == "scn_remove_hanging":
            objs = [o for o in (self._obj("l", x) for x in op["ids"]) if o is not None]
            if not objs:
                return None
            args = [{"id": int(o.lanelet_id), "signs": _ids(o.traffic_signs), "lights": _ids(o.traffic_lights)} for o in objs]
            return call(self.scn.remove_hanging_lanelet_members, objs), {"op": k, "args": args}
        if k == "cut_out":
            keep = self.keep_of(op)
            shape = self.shape_of(op["shape"])
            excl = None if op["excl"] is None else {LaneletType[t] for t in op["excl"]}
            if op.get("kw"):
                kw = {"lanelet_network": self.ln}
                if shape is not None:
                    kw["shape_input"] = shape
                if excl is not None:
                    kw["exclude_lanelet_types"] = excl
                if not op["cleanup"]:
                    kw["cleanup_ids"] = False
                res = call(LaneletNetwork.create_from_lanelet_network, **kw)
            elif op["cleanup"]:
                res = call(LaneletNetwork.create_from_lanelet_network, self.ln, shape, excl)
            else:
                res = call(LaneletNetwork.create_from_lanelet_network, self.ln, shape, excl, False)
            if res[0] == "ok" and op.get("then") != "stay":
                self._fresh(res[1], op.get("then"))
            return res, {"op": k, "keep": keep, "cleanup": op["cleanup"]}
        if k == "from_list":
            objs = [o for o in (self.ln.find_lanelet_by_id(x) for x in op["ids"]) if o is not None]
            if not objs:
                return None
            sel = [int(o.lanelet_id) for o in objs]
            if op["cleanup"]:
                res = call(LaneletNetwork.create_from_lanelet_list, objs)
            else:
                res = call(LaneletNetwork.create_from_lanelet_list, objs, False)
            if res[0] == "ok":
                self._fresh(res[1], op.get("then"))
            return res, {"op": k, "sel": sel, "cleanup": op["cleanup"]}
        raise ValueError(k)

    def _fresh(self, ln, how=None):
        """the history goes on with the new network: in a fresh Scenario (add_objects) or, when the id pool of the current
        scenario is consistent, through Scenario.replace_lanelet_network"""
        from commonroad.scenario.scenario import Scenario
        self.replace_error = None
        if how == "replace" and self.pool_consistent():
            self.replaced = True
            r = call(self.scn.replace_lanelet_network, ln)
            if r[0] != "ok":              # erase_lanelet_network (removals) raised: reported by run_case; go on in a fresh Scenario
                self.replace_error = r
                self.scn = Scenario(0.1)
                self.scn.add_objects(ln)
        else:
            self.scn = Scenario(0.1)
            self.scn.add_objects(ln)
        self.stale = False
        self._remember()

    # ---- read-only queries (never change what the property observes)
    def query(self, op):
        import copy as _copy
        import numpy as np
        from commonroad.geometry.shape import Rectangle
        from commonroad.scenario.lanelet import Lanelet
        ln = self.ln
        L = sorted(ln.lanelets, key=lambda la: la.lanelet_id)
        la = L[op.get("a", 0) % len(L)] if L else None
        for q in op["q"]:
            try:
                if q == "find_by_id" and la is not None:
                    ln.find_lanelet_by_id(self._i(la.lanelet_id)); ln.find_traffic_sign_by_id(0); ln.find_intersection_by_id(0)
                elif q == "map_inc":
                    ln.map_inc_lanelets_to_intersections
                elif q == "map_incoming":
                    [it.map_incoming_lanelets for it in ln.intersections]
                elif q == "polygon" and la is not None:
                    la.polygon.shapely_object; la.convert_to_polygon()
                elif q == "lanelet_polygons":
                    ln.lanelet_polygons
                elif q == "by_position" and la is not None:
                    ln.find_lanelet_by_position([la.center_vertices[0], np.array([-50.0, -50.0])])
                elif q == "by_shape":
                    ln.find_lanelet_by_shape(Rectangle(30.0, 8.0, np.array([10.0, 4.0])))
                elif q == "proximity":
                    ln.lanelets_in_proximity(np.array([5.0, 2.0]), 15.0)
                elif q == "sign_referenced":
                    [ln.get_traffic_sign_referenced_lanelets(s_.traffic_sign_id) for s_ in ln.traffic_signs]
                elif q == "light_referenced":
                    [ln.get_traffic_lights_referenced_lanelets(t.traffic_light_id) for t in ln.traffic_lights]
                elif q == "distance" and la is not None:
                    la.distance; la.inner_distance; la.interpolate_position(1.0); la.orientation_by_position(la.center_vertices[0])
                elif q == "hash_eq" and la is not None:
                    hash(la); la == L[0]; [hash(it) for it in ln.intersections]; [it == it for it in ln.intersections]
                elif q == "repr":
                    [repr(x) for x in L]; [str(x) for x in ln.intersections]; [repr(k) for it in ln.intersections for k in it.incomings]
                elif q == "deepcopy":
                    _copy.deepcopy(ln)
                elif q == "successors_in_range" and la is not None:
                    la.find_lanelet_successors_in_range(ln, 30.0); la.find_lanelet_predecessors_in_range(ln, 30.0)
                elif q == "merge_successors" and la is not None:
                    Lanelet.all_lanelets_by_merging_successors_from_lanelet(la, ln, 40.0)
                elif q == "properties":
                    ln.lanelets; ln.traffic_signs; ln.traffic_lights; ln.intersections; ln.areas
                    [(x.predecessor, x.successor, x.adj_left, x.traffic_signs, x.stop_line, x.lanelet_type, x.adjacent_areas) for x in L]
            except Exception:  # noqa  a query that raises is not this property's business
                pass

    # ---- edits through setters / in-place mutation / add_*  (the user changes the network between two removals)
    def edit(self, op):
        """-> name of the edit that was applied (None: nothing to act on).  Elements are picked by index among those present."""
        import numpy as np
        from commonroad.common.common_lanelet import LineMarking, StopLine
        e = op["e"]
        k = e["k"]
        ln = self.ln
        L = sorted(ln.lanelets, key=lambda x: x.lanelet_id)
        S = sorted(int(x.traffic_sign_id) for x in ln.traffic_signs)
        T = sorted(int(x.traffic_light_id) for x in ln.traffic_lights)
        I = sorted(ln.intersections, key=lambda x: x.intersection_id)
        pick = lambda xs, n: xs[n % len(xs)] if xs else None
        la, lb = pick(L, e["a"]), pick(L, e["b"])
        mask = lambda xs: {x for j, x in enumerate(xs) if (e["m"] >> (j % 6)) & 1}
        if k in ("add_succ", "add_pred", "rm_succ", "rm_pred", "set_succ", "set_pred", "append_succ", "set_adj") and la is None:
            return None
        if k == "add_succ":
            la.add_successor(int(lb.lanelet_id))
        elif k == "add_pred":
            la.add_predecessor(int(lb.lanelet_id))
        elif k == "rm_succ":
            if not la.successor:
                return None
            la.remove_successor(la.successor[e["b"] % len(la.successor)])
        elif k == "rm_pred":
            if not la.predecessor:
                return None
            la.remove_predecessor(la.predecessor[e["b"] % len(la.predecessor)])
        elif k == "set_succ":
            la.successor = sorted(mask([int(x.lanelet_id) for x in L]))
        elif k == "set_pred":
            la.predecessor = sorted(mask([int(x.lanelet_id) for x in L]), reverse=True)
        elif k == "append_succ":
            la.successor.append(int(lb.lanelet_id))                      # in place, on the list the property hands out
        elif k == "set_adj":
            if e["side"] == "L":
                la.adj_left = int(lb.lanelet_id); la.adj_left_same_direction = bool(e["same"])
            else:
                la.adj_right = int(lb.lanelet_id); la.adj_right_same_direction = bool(e["same"])
        elif k in ("set_signs", "set_lights", "add_sign_ref", "inplace_sign_ref"):
            if la is None:
                return None
            st = la.stop_line
            if k == "set_signs":
                la.traffic_signs = mask(S) | (set(st.traffic_sign_ref) if st is not None and st.traffic_sign_ref else set())
            elif k == "set_lights":
                la.traffic_lights = mask(T) | (set(st.traffic_light_ref) if st is not None and st.traffic_light_ref else set())
            elif not S:
                return None
            elif k == "add_sign_ref":
                la.add_traffic_sign_to_lanelet(pick(S, e["b"]))
            else:
                la.traffic_signs.add(pick(S, e["b"]))                     # in place, on the set the property hands out
        elif k == "set_stop":
            if la is None:
                return None
            refs_s = {x for x in mask(sorted(la.traffic_signs))}
            refs_t = {x for x in mask(sorted(la.traffic_lights))}
            la.stop_line = StopLine(np.array([0.0, 0.0]), np.array([0.0, 3.0]), LineMarking.BROAD_SOLID,
                                    refs_s if e["c"] % 3 else None, refs_t if e["c"] % 2 else None)
        elif k == "stop_ref":
            if la is None or la.stop_line is None:
                return None
            la.stop_line.traffic_sign_ref = mask(sorted(la.traffic_signs))
            la.stop_line.traffic_light_ref = mask(sorted(la.traffic_lights)) if e["c"] % 2 else None
        elif k in ("inc_set", "inc_inplace", "crossings", "incomings_reassign"):
            it = pick(I, e["a"])
            if it is None:
                return None
            ids = [int(x.lanelet_id) for x in L]
            if k == "crossings":
                it.crossings = mask(ids)
            elif k == "incomings_reassign":
                it.incomings = list(reversed(it.incomings))              # the same objects handed back in another order
            else:
                inc = pick(it.incomings, e["b"])
                if inc is None:
                    return None
                if k == "inc_set":
                    v = mask(ids)
                    if e["f"] == "incoming_lanelets" and not v:
                        v = set(ids[:1])
                    setattr(inc, e["f"], v)
                else:
                    if not ids:
                        return None
                    getattr(inc, e["f"]).add(pick(ids, e["c"]))
        elif k == "add_lanelet":
            self.fresh_id += 1
            i = self.fresh_id
            spec = {"id": i, "cell": e["cell"], "nv": 2, "types": e["types"], "pred": [int(lb.lanelet_id)] if lb is not None else [],
                    "succ": [], "adjL": int(la.lanelet_id) if (la is not None and e["adj"]) else None,
                    "adjLSame": True if (la is not None and e["adj"]) else None, "adjR": None, "adjRSame": None,
                    "signs": sorted(mask(S)), "lights": [], "stop": None}
            off = getattr(self, "offset", (0, 0))
            x0, y0, x1, y1 = _rect_of(spec)
            rect = (x0 + off[0], y0 + off[1], x1 + off[0], y1 + off[1])
            obj = mk_lanelet(spec, rect=rect)
            if e["via"] == "scn":
                self.scn.add_objects(obj)
                self.stale = False
            elif e["via"] == "net":
                ln.add_lanelet(obj)
                self.stale = False
            else:
                ln.add_lanelet(obj, rtree=False)
                self.stale = True
            if lb is not None:
                lb.add_successor(i)
            self.rects[i] = rect
            self.types[i] = set(e["types"])
            self.grave["l"][i] = obj
        elif k in ("add_sign", "add_light"):
            self.fresh_id += 1
            i = self.fresh_id
            refs = mask([int(x.lanelet_id) for x in L])
            if k == "add_sign":
                obj = mk_sign({"id": i, "elem": "U2", "val": "5", "fo": [], "virtual": False})
                (self.scn.add_objects(obj, refs) if e["via"] == "scn" else ln.add_traffic_sign(obj, refs))
                self.grave["s"][i] = obj
            else:
                obj = mk_light({"id": i, "cyc": [[0, 2]], "off": 0})
                (self.scn.add_objects(obj, refs) if e["via"] == "scn" else ln.add_traffic_light(obj, refs))
                self.grave["t"][i] = obj
        elif k == "add_inter":
            if not L:
                return None
            self.fresh_id += 3
            i = self.fresh_id
            ids = [int(x.lanelet_id) for x in L]
            obj = mk_inter({"id": i, "incomings": [{"id": i - 1, "inc": [pick(ids, e["a"])], "right": sorted(mask(ids)),
                                                    "straight": [pick(ids, e["b"])], "left": [], "leftOf": None}],
                            "crossings": [pick(ids, e["c"])]})
            (self.scn.add_objects(obj) if e["via"] == "scn" else ln.add_intersection(obj))
            self.grave["i"][i] = obj
        elif k == "translate":
            t = np.array([float(e["dx"]), float(e["dy"])])
            (self.scn.translate_rotate(t, 0.0) if e["via"] == "scn" else ln.translate_rotate(t, 0.0))
            off = getattr(self, "offset", (0, 0))
            self.offset = (off[0] + e["dx"], off[1] + e["dy"])
            self.rects = {i: (r_[0] + e["dx"], r_[1] + e["dy"], r_[2] + e["dx"], r_[3] + e["dy"]) for i, r_ in self.rects.items()}
            self.stale = False      # the repaired translate_rotate rebuilds the index
        else:
            raise ValueError(k)
        return k

    def ids(self):
        return sorted(int(i) for i in self.scn._id_set)


# ------------------------------------------------------------------------------------------------ oracle

def all_ids(n):
    """every id Scenario.add_objects(network) records: lanelets, signs, lights, intersections, incoming elements"""
    return ([l["id"] for l in n["lanelets"]] + [x[0] for x in n["signs"]] + [x[0] for x in n["lights"]]
            + [i["id"] for i in n["inters"]] + [c["id"] for i in n["inters"] for c in i["incomings"]])


def py_nodangling(n):
    L = {l["id"] for l in n["lanelets"]}
    S = {s[0] for s in n["signs"]}
    T = {t[0] for t in n["lights"]}
    for l in n["lanelets"]:
        refs = set(l["pred"]) | set(l["succ"]) | ({l["adjL"]} - {None}) | ({l["adjR"]} - {None})
        if not refs <= L or not set(l["signs"]) <= S or not set(l["lights"]) <= T:
            return False
        if l["stop"] is not None:
            if not set(l["stop"]["s"] or []) <= S or not set(l["stop"]["t"] or []) <= T:
                return False
    for it in n["inters"]:
        refs = set(it["crossings"])
        for k in it["incomings"]:
            refs |= set(k["inc"]) | set(k["right"]) | set(k["straight"]) | set(k["left"])
        if not refs <= L:
            return False
    return True


def py_wf(n):
    for l in n["lanelets"]:
        if l["stop"] is not None:
            if not set(l["stop"]["s"] or []) <= set(l["signs"]) or not set(l["stop"]["t"] or []) <= set(l["lights"]):
                return False
    return True


def exact_keep(geo, B, op):
    """The selection of a cut-out derived from the description of the lanelets alone (types; axis-aligned rectangle overlap
    in exact arithmetic; `geo` = where every lanelet lies and which types it has, kept up to date by the harness through
    additions and translations).  Returns (keep:set, exact:bool); exact=False -> only the type clause was decided here."""
    excl = set(op["excl"] or [])
    sh = op["shape"]
    keep, exact = set(), True
    for l in B["lanelets"]:
        if geo["types"][l["id"]] & excl:
            continue
        if sh is not None:
            if sh["kind"] == "rect" and Fraction(sh["o"]) == 0:
                cx, cy, hl, hw = Fraction(sh["cx"]), Fraction(sh["cy"]), Fraction(sh["l"]) / 2, Fraction(sh["w"]) / 2
                x0, y0, x1, y1 = geo["rects"][l["id"]]
                if not (cx - hl <= x1 and x0 <= cx + hl and cy - hw <= y1 and y0 <= cy + hw):
                    continue
            else:
                exact = False
        keep.add(l["id"])
    return keep, exact


def py_selection(op, mop, B, keep):
    """What one operation selects for removal in the network snapshot B (the property's "selected for removal", read
    narrowly): lanelet / sign / light / intersection id sets and, per intersection, the incoming ids that may vanish.
    Independent of the Lean functions Op.sel?B, with which it is compared on every step."""
    k = op["op"]
    Bl = {l["id"]: l for l in B["lanelets"]}
    Bs = {x[0] for x in B["signs"]}
    Bt = {x[0] for x in B["lights"]}
    Bi = {i["id"]: i for i in B["inters"]}
    selL, selS, selT, selI, inc = set(), set(), set(), set(), {}
    if k == "net_remove_lanelet":
        selL = {op["x"]}
    elif k == "net_remove_sign":
        selS = {op["x"]}
    elif k == "net_remove_light":
        selT = {op["x"]}
    elif k == "net_remove_inter":
        selI = {mop["x"]}
        inc = {mop["x"]: {c["id"] for c in Bi[mop["x"]]["incomings"]}} if mop["x"] in Bi else {}
    elif k in ("scn_remove_inter", "scn_remove_inters"):
        selI = set(mop["xs"])
        inc = {x: {c["id"] for c in Bi[x]["incomings"]} for x in selI if x in Bi}
    elif k == "scn_remove_hanging":
        rm = {a["id"] for a in mop["args"]}
        remaining = [l for i, l in Bl.items() if i not in rm]
        usedS = set().union(*[set(l["signs"]) for l in remaining]) if remaining else set()
        usedT = set().union(*[set(l["lights"]) for l in remaining]) if remaining else set()
        selS = set().union(*[set(a["signs"]) for a in mop["args"]]) - usedS
        selT = set().union(*[set(a["lights"]) for a in mop["args"]]) - usedT
    elif k == "scn_remove_signs":
        selS = set(mop["xs"])
    elif k == "scn_remove_lights":
        selT = set(mop["xs"])
    elif k == "scn_remove_lanelets":
        selL = {a["id"] for a in mop["args"]}
        if mop["ref"]:
            remaining = [l for i, l in Bl.items() if i not in selL]
            usedS = set().union(*[set(l["signs"]) for l in remaining]) if remaining else set()
            usedT = set().union(*[set(l["lights"]) for l in remaining]) if remaining else set()
            ofS = set().union(*[set(a["signs"]) for a in mop["args"]])
            ofT = set().union(*[set(a["lights"]) for a in mop["args"]])
            selS, selT = ofS - usedS, ofT - usedT
    elif k == "cut_out":
        keep = set(keep) & set(Bl)
        selL = set(Bl) - keep
        usedS = set().union(*[set(Bl[i]["signs"]) for i in keep]) if keep else set()
        usedT = set().union(*[set(Bl[i]["lights"]) for i in keep]) if keep else set()
        selS, selT = Bs - usedS, Bt - usedT
        for i, it in Bi.items():
            gone = set()
            for c in it["incomings"]:
                if not (set(c["inc"]) & keep) or not ((set(c["right"]) | set(c["straight"]) | set(c["left"])) & keep):
                    gone.add(c["id"])
            inc[i] = gone
            if len(gone) == len(it["incomings"]):
                selI.add(i)
    elif k == "from_list":
        selL = set(Bl) - set(mop["sel"])
        selS, selT, selI = set(Bs), set(Bt), set(Bi)
        inc = {i: {c["id"] for c in it["incomings"]} for i, it in Bi.items()}
    return selL, selS, selT, selI, inc


def canon_selection(op, mop, B):
    """py_selection restricted to the elements B holds, in the wire format of the model's `Scn.selection`."""
    selL, selS, selT, selI, inc = py_selection(op, mop, B, mop.get("keep"))
    Bl = {l["id"] for l in B["lanelets"]}
    Bs = {x[0] for x in B["signs"]}
    Bt = {x[0] for x in B["lights"]}
    Bi = {i["id"]: i for i in B["inters"]}
    K = sorted([i, c["id"]] for i, it in Bi.items() for c in it["incomings"] if c["id"] in inc.get(i, set()))
    return {"L": sorted(selL & Bl), "S": sorted(selS & Bs), "T": sorted(selT & Bt), "I": sorted(selI & set(Bi)), "K": K}


class Rep:
    """collects oracle failures of one step"""
    def __init__(self, ctx, case, step, op):
        self.ctx, self.case, self.step, self.op = ctx, case, step, op

    def fail(self, obs, what):
        c = dict(self.case)
        c["ops"] = self.case["ops"][:self.step + 1]
        self.ctx.fail(f"C10/{self.op['op']}/{obs}", f"step {self.step} {json.dumps(self.op)[:160]}: {what}", c)


def oracle_step(ctx, rep, case, op, mop, B, A, err, impl_keep=None, geo=None):
    """The property sentence on one step: B / A = snapshots before / after, op = operation as generated, mop = as applied."""
    k = op["op"]
    Bl = {l["id"]: l for l in B["lanelets"]}
    Al = {l["id"]: l for l in A["lanelets"]}
    Bs, As = dict(map(tuple, B["signs"])), dict(map(tuple, A["signs"]))
    Bt, At = dict(map(tuple, B["lights"])), dict(map(tuple, A["lights"]))
    Bi = {i["id"]: i for i in B["inters"]}
    Ai = {i["id"]: i for i in A["inters"]}
    remL, remS, remT = set(Bl) - set(Al), set(Bs) - set(As), set(Bt) - set(At)
    survL, survS, survT = set(Al), set(As), set(At)

    # (1) no remaining element refers to a removed id
    def no_ref(name, refs, removed, where):
        bad = set(refs) & removed
        if bad:
            rep.fail(f"dangling/{name}", f"{where} still refers to removed id(s) {sorted(bad)} in {name}")

    for l in A["lanelets"]:
        w = f"lanelet {l['id']}"
        no_ref("predecessor", l["pred"], remL, w)
        no_ref("successor", l["succ"], remL, w)
        no_ref("adj_left", [l["adjL"]], remL, w)
        no_ref("adj_right", [l["adjR"]], remL, w)
        no_ref("lanelet.traffic_signs", l["signs"], remS, w)
        no_ref("lanelet.traffic_lights", l["lights"], remT, w)
        if l["stop"] is not None:
            no_ref("stop_line.traffic_sign_ref", l["stop"]["s"] or [], remS, w)
            no_ref("stop_line.traffic_light_ref", l["stop"]["t"] or [], remT, w)
    for it in A["inters"]:
        no_ref("crossings", it["crossings"], remL, f"intersection {it['id']}")
        for c in it["incomings"]:
            w = f"incoming {c['id']} of intersection {it['id']}"
            no_ref("incoming_lanelets", c["inc"], remL, w)
            no_ref("successors_right", c["right"], remL, w)
            no_ref("successors_straight", c["straight"], remL, w)
            no_ref("successors_left", c["left"], remL, w)

    # (2) relations between remaining elements untouched, content unchanged
    def same_rel(name, old, new, surv, where):
        old, new = set(old), set(new)
        if not new <= old:
            rep.fail(f"relation-added/{name}", f"{where}: {name} gained {sorted(new - old)}")
        elif (old & surv) - new:
            rep.fail(f"relation-lost/{name}", f"{where}: {name} lost {sorted((old & surv) - new)} although still present")
            return False
        return new != old

    cleaned = {"l": False, "adj": False, "stop": False, "int": False}
    for l in A["lanelets"]:
        b = Bl.get(l["id"])
        w = f"lanelet {l['id']}"
        if b is None:
            rep.fail("new-element/lanelet", f"{w} was not in the network before")
            continue
        if l["c"] != b["c"]:
            rep.fail("content-changed/lanelet", f"{w}: geometry / type / marking content changed")
        cleaned["l"] |= bool(same_rel("predecessor", b["pred"], l["pred"], survL, w))
        cleaned["l"] |= bool(same_rel("successor", b["succ"], l["succ"], survL, w))
        for side, nm in (("adjL", "adj_left"), ("adjR", "adj_right")):
            if b[side] in survL:
                if l[side] != b[side]:
                    rep.fail(f"relation-lost/{nm}", f"{w}: {nm} {b[side]} -> {l[side]} although {b[side]} is still present")
            elif l[side] is not None and l[side] != b[side]:
                rep.fail(f"relation-added/{nm}", f"{w}: {nm} {b[side]} -> {l[side]}")
            if l[side] is not None and l[side + "Same"] != b[side + "Same"]:
                rep.fail(f"content-changed/{nm}_same_direction", f"{w}: direction flag {b[side + 'Same']} -> {l[side + 'Same']}")
            if l[side] is None and b[side] is not None:
                cleaned["adj"] = True
        same_rel("lanelet.traffic_signs", b["signs"], l["signs"], survS, w)
        same_rel("lanelet.traffic_lights", b["lights"], l["lights"], survT, w)
        if (l["stop"] is None) != (b["stop"] is None):
            rep.fail("content-changed/stop_line", f"{w}: stop line appeared / vanished")
        elif l["stop"] is not None:
            for f, nm, surv in (("s", "stop_line.traffic_sign_ref", survS), ("t", "stop_line.traffic_light_ref", survT)):
                if (l["stop"][f] is None) != (b["stop"][f] is None):
                    rep.fail(f"content-changed/{nm}", f"{w}: {nm} None-ness changed")
                elif l["stop"][f] is not None:
                    cleaned["stop"] |= bool(same_rel(nm, b["stop"][f], l["stop"][f], surv, w))
    for i, c in As.items():
        if i not in Bs:
            rep.fail("new-element/sign", f"sign {i} was not in the network before")
        elif Bs[i] != c:
            rep.fail("content-changed/sign", f"sign {i} content changed")
    for i, c in At.items():
        if i not in Bt:
            rep.fail("new-element/light", f"light {i} was not in the network before")
        elif Bt[i] != c:
            rep.fail("content-changed/light", f"light {i} content changed")
    for it in A["inters"]:
        b = Bi.get(it["id"])
        w = f"intersection {it['id']}"
        if b is None:
            rep.fail("new-element/intersection", f"{w} was not in the network before")
            continue
        cleaned["int"] |= bool(same_rel("crossings", b["crossings"], it["crossings"], survL, w))
        bk = {c["id"]: c for c in b["incomings"]}
        for c in it["incomings"]:
            o = bk.get(c["id"])
            ww = f"incoming {c['id']} of {w}"
            if o is None:
                rep.fail("new-element/incoming", f"{ww} was not there before")
                continue
            if o["leftOf"] != c["leftOf"]:
                rep.fail("content-changed/left_of", f"{ww}: left_of {o['leftOf']} -> {c['leftOf']}")
            for f, nm in (("inc", "incoming_lanelets"), ("right", "successors_right"), ("straight", "successors_straight"),
                          ("left", "successors_left")):
                cleaned["int"] |= bool(same_rel(nm, o[f], c[f], survL, ww))
    if cleaned["l"]:
        ctx.tag("lanelet-ref-cleaned")
    if cleaned["adj"]:
        ctx.tag("adjacency-cleaned")
    if cleaned["stop"]:
        ctx.tag("stopline-ref-cleaned")
    if cleaned["int"]:
        ctx.tag("intersection-ref-cleaned")

    # (3) every element not selected for removal is still present; signs / lights leave with a lanelet only if unreferenced
    keep = None
    if k == "cut_out":
        if geo is None:
            geo = {"rects": {la["id"]: _rect_of(la) for la in case["lanelets"]}, "types": {la["id"]: set(la["types"]) for la in case["lanelets"]}}
        keep, exact = exact_keep(geo, B, op)
        if exact:
            if set(impl_keep) != keep:
                rep.fail("selection/lanelets", f"filter kept {sorted(impl_keep)}, shape/type definition gives {sorted(keep)}")
        else:
            if not set(impl_keep) <= keep:
                rep.fail("selection/lanelets", f"filter kept {sorted(set(impl_keep) - keep)} although their type is excluded")
            keep = set(impl_keep)   # geometry of a rotated rectangle / circle / polygon: shapely on the implementation's shapes
    selL, selS, selT, selI, inc_may_go = py_selection(op, mop, B, keep)   # what the operation may remove
    must_go_L = selL
    if k == "scn_remove_lanelets":
        pass
    if k == "scn_remove_lanelets" and mop["ref"]:
        ofS = set().union(*[set(a["signs"]) for a in mop["args"]])
        if selS & set(Bs):
            ctx.tag("hanging:sign-removed")
        if ofS - selS:
            ctx.tag("hanging:sign-kept-shared")
    if k == "cut_out":
        if set(Bs) & selS:
            ctx.tag("cut:sign-dropped")
        if any(inc_may_go.values()):
            ctx.tag("cut:incoming-dropped")
        if selI:
            ctx.tag("cut:intersection-dropped")
        if op["shape"] is not None:
            ctx.tag("cut:shape")
        if op["excl"]:
            ctx.tag("cut:types")
        # observation (not demanded: left_of is not among the relations the property lists): a kept incoming element whose
        # left_of names an incoming element the cut-out dropped
        for it in A["inters"]:
            ids_ = {c["id"] for c in it["incomings"]}
            if any(c["leftOf"] is not None and c["leftOf"] not in ids_ and
                   c["leftOf"] in {o["id"] for o in Bi.get(it["id"], {"incomings": []})["incomings"]} for c in it["incomings"]):
                ctx.tag("obs:left_of-dangling-after-cut_out")

    def present(kind, before, after, sel):
        lost = (set(before) - set(after)) - sel
        if lost:
            rep.fail(f"removed-unselected/{kind}", f"{kind}(s) {sorted(lost)} vanished although not selected for removal")

    present("lanelet", Bl, Al, selL)
    if k in ("scn_remove_lanelets", "scn_remove_hanging", "cut_out") and (remS - selS):
        rep.fail("removed-referenced/sign", f"sign(s) {sorted(remS - selS)} removed although a remaining lanelet references them")
    elif remS - selS:
        present("sign", Bs, As, selS)
    if k in ("scn_remove_lanelets", "scn_remove_hanging", "cut_out") and (remT - selT):
        rep.fail("removed-referenced/light", f"light(s) {sorted(remT - selT)} removed although a remaining lanelet references them")
    elif remT - selT:
        present("light", Bt, At, selT)
    present("intersection", Bi, Ai, selI)
    for i, it in Ai.items():
        if i in Bi:
            lost = {c["id"] for c in Bi[i]["incomings"]} - {c["id"] for c in it["incomings"]} - inc_may_go.get(i, set())
            if lost:
                rep.fail("removed-unselected/incoming", f"incoming(s) {sorted(lost)} of intersection {i} vanished")
    if err is None and (must_go_L & set(Al)):
        rep.fail("not-removed/lanelet", f"lanelet(s) {sorted(must_go_L & set(Al))} are still in the network")
    if err is None and k in ("net_remove_sign", "scn_remove_signs") and (selS & set(As)):
        rep.fail("not-removed/sign", f"sign(s) {sorted(selS & set(As))} are still in the network")
    if err is None and k in ("net_remove_light", "scn_remove_lights") and (selT & set(At)):
        rep.fail("not-removed/light", f"light(s) {sorted(selT & set(At))} are still in the network")
    if err is None and k in ("net_remove_inter", "scn_remove_inter", "scn_remove_inters") and (selI & set(Ai)):
        rep.fail("not-removed/intersection", f"intersection(s) {sorted(selI & set(Ai))} are still in the network")


# ------------------------------------------------------------------------------------------------ one case

def _canon_model_trace(out):
    return [{"net": canon_net(x["net"]), "ids": sorted(x["ids"]), "err": x["err"], "nd": x["nd"], "wf": x["wf"]} for x in out]


class Segment:
    """a stretch of the history between two edits: one model run"""
    def __init__(self, init):
        self.init, self.mops, self.trace, self.sels = init, [], [], []

    def flush(self, ctx, case):
        if not self.mops:
            return
        out = ctx.driver.ask("C10", "run", {"init": self.init, "ops": self.mops})
        ctx.compare(case, self.trace, _canon_model_trace(out),
                    "history of removals / cut-outs on the real Scenario / LaneletNetwork vs CR.Refs.Scn.trace")
        msel = ctx.driver.ask("C10", "selections", {"init": self.init, "ops": self.mops})
        msel = [{"L": sorted(x["L"]), "S": sorted(x["S"]), "T": sorted(x["T"]), "I": sorted(x["I"]), "K": sorted(x["K"])} for x in msel]
        ctx.compare(case, self.sels, msel, "what each operation selects for removal: the oracle's reading vs "
                                           "CR.Refs.Scn.selections (the vocabulary of C10_present_run)")


def _nfail(ctx):
    return len(ctx.failures) if hasattr(ctx, "failures") else len(ctx.keys)


def run_case(ctx, case, with_model=True):
    import warnings
    warnings.filterwarnings("ignore")
    wf_stream = case["stream"] == "wf"
    impl = Impl(case)
    B = snapshot(impl.ln)
    seg = Segment({"net": B, "ids": impl.ids()})
    ctx.tag("stream:wf" if wf_stream else "stream:malformed")
    ctx.tag("build:" + case.get("build", "net"))
    if case.get("none_empty"):
        ctx.tag("ctor:none-for-empty")
    if not wf_stream:
        ctx.excluded += 1
    ctx.case(case)
    oracle_on = wf_stream and py_nodangling(B) and py_wf(B)
    queried = edited = False
    for step, op in enumerate(case["ops"]):
        kind = op["op"]
        rep = Rep(ctx, case, step, op)
        # ---- operations the model does not see: they must not change what the property observes
        if kind in ("query", "net_remove_area"):
            ids0 = impl.ids()
            if kind == "query":
                impl.query(op)
                queried = True
            else:
                if any(op["x"] in la.adjacent_areas for la in impl.ln.lanelets):
                    # observation, outside the property (areas are not among its elements / relations): remove_area leaves the
                    # lanelets' adjacent_areas untouched, after which create_from_lanelet_network raises (add_area(None)).
                    ctx.tag("obs:remove_area-would-leave-adjacent_areas")
                    continue
                call(impl.ln.remove_area, impl._i(op["x"]))
            A = snapshot(impl.ln)
            ctx.tag(kind)
            if A != B or impl.ids() != ids0:
                rep.fail("network-changed", "a read-only query / remove_area changed a lanelet, sign, light or intersection")
            B = A
            continue
        # ---- an edit by the user: the model starts again from the edited network
        if kind == "edit":
            name = impl.edit(op)
            if name is None:
                continue
            if with_model:
                seg.flush(ctx, case)
            B = snapshot(impl.ln)
            seg = Segment({"net": B, "ids": impl.ids()})
            ctx.tag("edit", "edit:" + name)
            edited = True
            if oracle_on and not (py_nodangling(B) and py_wf(B)):
                oracle_on = False
                ctx.excluded += 1
            continue
        if kind == "cut_out" and op["shape"] is not None and impl.stale:
            ctx.tag("cut:shape-on-stale-index")
        ids_before = impl.ids()
        present_before = ({l["id"] for l in B["lanelets"]} | {x[0] for x in B["signs"]} | {x[0] for x in B["lights"]}
                          | {i["id"] for i in B["inters"]})
        geo = {"rects": dict(impl.rects), "types": dict(impl.types)}
        impl.replaced = False
        if kind == "cut_out":
            # Areas are neither elements nor relations of the property and are not modelled.  A kept lanelet whose adjacent_areas
            # names an area the network does not hold (left behind by create_from_lanelet_list, which copies lanelets but no
            # areas) makes create_from_lanelet_network raise AssertionError (add_area(None)) without changing anything:
            # outside the quantifier, no verdict, the operation is left out of the history.
            have = {int(a.area_id) for a in impl.ln.areas}
            keep_ = set(impl.keep_of(op))
            if any(not set(la.adjacent_areas) <= have for la in impl.ln.lanelets if la.lanelet_id in keep_):
                ctx.tag("obs:cut_out-raises-on-dangling-adjacent_areas")
                ctx.excluded += 1
                continue
        r = impl.apply(op)
        if r is None:
            continue
        res, mop = r
        err = None if res[0] == "ok" else res[1]
        if kind.startswith("scn_remove") and err == "key":
            gone = [x for x in (mop.get("xs") or [a["id"] for a in mop.get("args", [])])
                    if x in set(ids_before) and x not in present_before]
            if gone:
                ctx.tag("stale:id-still-in-pool")   # removed on network level before: KeyError from the look-up, not from _id_set
        stay = kind == "cut_out" and op.get("then") == "stay"
        if stay and res[0] == "ok":
            A = snapshot(res[1])
            ids_after = sorted(all_ids(A))
        elif stay:
            A, ids_after = B, ids_before
        else:
            A = snapshot(impl.ln)
            ids_after = impl.ids()
        ctx.tag(kind)
        if queried:
            ctx.tag("after-query")
        if edited:
            ctx.tag("after-edit")
        if impl.replaced:
            ctx.tag("then:replace_lanelet_network")
            if getattr(impl, "replace_error", None) is not None and oracle_on:
                rep.fail(f"replace_lanelet_network/raises-{impl.replace_error[1]}",
                         f"Scenario.replace_lanelet_network (erase_lanelet_network + add_objects) raises {impl.replace_error[2]} "
                         "on a well-formed network")
        if err is not None:
            ctx.tag("error:" + err)
        if impl.npint and kind.startswith("net_remove"):
            ctx.tag("arg:numpy-int")
        if not A["lanelets"] and B["lanelets"]:
            ctx.tag("empty-network-left")
        entry = {"net": A, "ids": ids_after, "err": err, "nd": py_nodangling(A), "wf": py_wf(A)}
        if stay:
            # side branch: the cut-out is compared on its own, the history goes on with the source network
            ctx.tag("then:stay-on-source")
            if with_model:
                out = ctx.driver.ask("C10", "run", {"init": {"net": B, "ids": ids_before}, "ops": [mop]})
                ctx.compare(case, [entry], _canon_model_trace(out), "cut-out (history continues on the source network) vs CR.Refs.Scn.step")
            src = snapshot(impl.ln)
            if src != B or impl.ids() != ids_before:
                rep.fail("source-network-changed", "create_from_lanelet_network changed the network it was cut out of")
        else:
            seg.mops.append(mop)
            seg.sels.append(canon_selection(op, mop, B))
            seg.trace.append(entry)
        if any(l["id"] == 0 for l in B["lanelets"]) and not any(l["id"] == 0 for l in A["lanelets"]) and \
                any(0 in (l["adjL"], l["adjR"]) for l in B["lanelets"] if any(a["id"] == l["id"] for a in A["lanelets"])):
            ctx.tag("id0:adjacent-lanelet-removed")
        if oracle_on and not (kind in ("cut_out", "from_list") and not op["cleanup"]):
            if err is not None and kind in ("cut_out", "from_list", "net_remove_lanelet", "net_remove_sign",
                                            "net_remove_light", "net_remove_inter"):
                rep.fail(f"raises-{err}", f"raises {res[2]} on a well-formed network")
            before = _nfail(ctx)
            oracle_step(ctx, rep, case, op, mop, B, A, err, impl_keep=mop.get("keep"), geo=geo)
            if not py_nodangling(A):
                rep.fail("dangling/any", "the network holds a reference to an id it does not contain")
            if _nfail(ctx) != before:
                oracle_on = False   # the rest of this history starts from a broken state: report the first failing step only
        elif oracle_on and not stay:
            oracle_on = False   # cleanup_ids=False leaves dangling references by design: outside the property from here on
            ctx.excluded += 1
        if not stay:
            B = A
    if with_model:
        seg.flush(ctx, case)


def run(ctx):
    from c10_dims import check_dimensions
    check_dimensions()          # a constructor parameter / setter / method without a decision in the table: exit 2
    for p in sorted(glob.glob(os.path.join(CORPUS_DIR, "C10", "*.json"))):
        run_case(ctx, json.load(open(p)))
    for _ in range(ctx.n(1200)):
        run_case(ctx, gen_case(ctx))


search = run


def replay(ctx, case):
    run_case(ctx, case, with_model=False)


class _Collect:
    """oracle-only context used while shrinking"""
    def __init__(self):
        self.keys, self.excluded = set(), 0

    def fail(self, key, what, case, detail=None):
        self.keys.add(key)

    def tag(self, *a):
        pass

    def case(self, *a, **k):
        pass


def _fails(case, key):
    c = _Collect()
    try:
        run_case(c, case, with_model=False)
    except Exception:  # noqa
        return False
    return key in c.keys


def shrink(case, key):
    case = copy.deepcopy(case)
    # drop operations before the failing one, then whole elements nobody needs
    i = 0
    while i < len(case["ops"]) - 1:
        cand = dict(case, ops=case["ops"][:i] + case["ops"][i + 1:])
        if _fails(cand, key):
            case = cand
        else:
            i += 1
    for field in ("inters", "lights", "signs"):
        i = 0
        while i < len(case[field]):
            cand = copy.deepcopy(case)
            gone = cand[field].pop(i)["id"]
            if field != "inters":
                f = "signs" if field == "signs" else "lights"
                for la in cand["lanelets"]:
                    la[f] = [x for x in la[f] if x != gone]
                    if la["stop"] is not None:
                        g = "s" if field == "signs" else "t"
                        if la["stop"][g] is not None:
                            la["stop"][g] = [x for x in la["stop"][g] if x != gone]
            if _fails(cand, key):
                case = cand
            else:
                i += 1
    return case
