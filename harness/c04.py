"""C04 — obstacle occupancy is the shape placed at the state, for every time step.
model: lean/CRModel/Occupancy.lean; theorems: lean/CRProps/C04.lean."""
import glob
import json
import math
import os
import warnings
from fractions import Fraction

import geom
from common import CORPUS_DIR, call, frac, rat

RULE = ("obstacles of every role (static; dynamic with trajectory / set-based / no prediction; phantom; environment) x shapes "
        "(rectangle, circle, polygon, shape group; centred and off-centre) x state classes (KS, ST, Initial, PM with vx/vy in all "
        "quadrants) queried at every integer step from 3 before the initial step to 3 after the horizon end; uncertain states "
        "(position region rectangle/circle/polygon, orientation interval) with 40 sampled admissible poses each; scenarios of 2..6 "
        "such obstacles queried with every role filter / type filter / position interval at several steps. distinct = canonical "
        "JSON; every case is non-trivial (each spans both horizon ends)")
ASSUMPTIONS = ["placement geometry (rotate about the shape's own centre, then translate) is recomputed by the oracle with float "
               "cos/sin and compared to 1e-9; it is symbolic in the Lean model",
               "well-formed trajectories (state i carries time step t0+i) as the property's horizon notion presupposes",
               "enclosure for uncertain states is sampled (40 poses x shape vertices), a test not a theorem; the proved part is "
               "C04_extent_le_small/_max, C04_enclosure_box/_long"]
EXTRA_MODULES = ["CRProps.T17", "CRProps.T04", "CRProps.P04"]      # translator tie: Gen.Src (regenerated from /repo every run) = hand model
REQUIRED_BUCKETS = ["role/static", "role/dynamic-traj", "role/dynamic-set", "role/dynamic-none", "role/phantom", "role/environment",
                    "state/PMState", "t/before", "t/initial", "t/inside", "t/after", "uncertain/orientation", "uncertain/position",
                    "scenario/role-filter", "scenario/position-interval", "shape/group", "shape/poly",
                    "history/trajectory-replaced", "history/update-initial-state",
                    "place/rect", "place/circ", "place/poly", "place/group", "set/unsorted"]

TOL = 1e-9


# ------------------------------------------------------------------------------------------------ generation

def gen_pose(r):
    return {"pos": [r.randint(-320, 320) / 16.0, r.randint(-320, 320) / 16.0],
            "ori": r.choice([0.0, math.pi / 2, -1.0, 3.0, r.uniform(-6.2, 6.2)])}


def gen_obst_shape(r):
    spec = geom.gen_shape(r)
    if r.random() < 0.6:      # CommonRoad convention: obstacle shapes are centred at the origin, orientation 0
        def centre(s):
            if s["k"] == "rect":
                s["c"], s["o"] = [0.0, 0.0], 0.0
            elif s["k"] == "circ":
                s["c"] = [0.0, 0.0]
            elif s["k"] == "group":
                for x in s["s"]:
                    centre(x)
        centre(spec)
    return spec


def gen_obstacle(r, oid):
    kind = r.choice(["static", "dynamic-traj", "dynamic-traj", "dynamic-set", "dynamic-none", "phantom", "environment"])
    o = {"id": oid, "kind": kind, "type": r.randrange(8), "shape": gen_obst_shape(r)}
    t0 = r.choice([0, 0, 1, 3, r.randint(0, 10)])
    o["t_init"] = t0
    o["init"] = gen_pose(r)
    if kind == "dynamic-traj":
        n = r.randint(1, 8)
        first = t0 + r.choice([1, 1, 1, 2, 3])
        cls = r.choice(["KSState", "STState", "PMState", "PMState", "CustomState"])
        sts = []
        for i in range(n):
            p = gen_pose(r)
            if cls == "PMState":
                v = r.choice([(3.0, 4.0), (-3.0, 4.0), (-1.0, -1.0), (2.0, -0.5), (0.0, 1.0), (-2.0, 0.0), (r.uniform(-5, 5), r.uniform(-5, 5))])
                p = {"pos": p["pos"], "vx": v[0], "vy": v[1]}
            sts.append(p)
        o["traj"] = {"t0": first, "cls": cls, "states": sts}
    elif kind in ("dynamic-set", "phantom"):
        first = t0 + 1
        occs, t = [], first
        for _ in range(r.randint(0 if kind == "phantom" else 1, 6)):
            if r.random() < 0.4:
                hi = t + r.randint(0, 3)
                occs.append({"time": [t, hi], "shape": geom.gen_shape(r)})
                t = hi + r.choice([0, 1, 2])          # intervals may touch / leave gaps
            else:
                occs.append({"time": [t], "shape": geom.gen_shape(r)})
                t += r.choice([1, 1, 2])
        if len(occs) > 1 and r.random() < 0.35:
            r.shuffle(occs)                            # the occupancy set is a list in ANY order: no sortedness may be assumed
            o["unsorted_set"] = True
        o["set"] = {"t0": first, "occs": occs}
        if kind == "phantom" and r.random() < 0.15:
            o["set"] = None
    return o


def horizon_ts(o):
    lo = o["t_init"]
    hi = lo
    if o["kind"] == "dynamic-traj":
        hi = o["traj"]["t0"] + len(o["traj"]["states"]) - 1
    elif o.get("set"):
        for oc in o["set"]["occs"]:
            hi = max(hi, oc["time"][-1])
    return list(range(lo - 3, hi + 4))


def gen_case(ctx):
    r = ctx.rng
    x = r.random()
    if x < 0.55:
        o = gen_obstacle(r, 1)
        return {"kind": "obstacle", "obst": o, "ts": horizon_ts(o)}
    if x < 0.75:
        return {"kind": "uncertain", **gen_uncertain(r)}
    obs = [gen_obstacle(r, i + 1) for i in range(r.randint(2, 6))]
    lo, hi = sorted([r.randint(-320, 320) / 16.0, r.randint(-320, 320) / 16.0])
    lo2, hi2 = sorted([r.randint(-320, 320) / 16.0, r.randint(-320, 320) / 16.0])
    return {"kind": "scenario", "obs": obs, "ts": sorted({0, r.randint(0, 6), r.randint(0, 14)}),
            "role": r.choice([None, "static", "dynamic", "phantom", "environment"]), "ty": r.choice([None, r.randrange(8)]),
            "box": [[lo, hi], [lo2, hi2]],
            "roles": r.choice([["dynamic", "static"], ["dynamic"], ["static"], ["phantom", "environment"],
                               ["dynamic", "static", "phantom", "environment"]])}


def gen_uncertain(r):
    shape = r.choice([
        {"k": "rect", "l": r.randint(8, 96) / 16.0, "w": r.randint(4, 48) / 16.0, "c": [0.0, 0.0], "o": 0.0},
        {"k": "circ", "r": r.randint(4, 48) / 16.0, "c": [0.0, 0.0]},
        {"k": "poly", "v": [[-2.0, -1.0], [2.0, -1.0], [2.0, 1.0], [-2.0, 1.0]]},
        {"k": "poly", "v": [[-1.5, -0.75], [1.5, -0.75], [2.5, 0.0], [1.5, 0.75], [-1.5, 0.75], [-2.5, 0.0]]},
        {"k": "poly", "v": [[-1.0, -1.0], [3.0, -1.0], [3.0, 1.0], [-1.0, 1.0]]},                  # reference point not at the centre
        {"k": "poly", "v": [[0.0, 0.0], [4.0, 0.0], [4.0, 1.0], [1.0, 2.0]]},
        {"k": "rect", "l": 4.0, "w": 2.0, "c": [1.5, -0.5], "o": 0.0},
        {"k": "rect", "l": 4.0, "w": 2.0, "c": [0.0, 0.0], "o": 0.5},
        {"k": "circ", "r": 1.5, "c": [1.0, 1.0]},
        {"k": "group", "s": [{"k": "rect", "l": 4.0, "w": 2.0, "c": [0.0, 0.0], "o": 0.0}, {"k": "circ", "r": 1.0, "c": [0.0, 0.0]}]},
    ])
    u = {"shape": shape}
    mode = r.choice(["ori", "pos", "both"])
    centre = [r.randint(-160, 160) / 16.0, r.randint(-160, 160) / 16.0]
    if mode in ("ori", "both"):
        half = r.choice([0.0, 0.05, 0.3, 0.7, 1.2, math.pi / 2, 2.0, 3.0])
        mid = r.uniform(-3.0, 3.0)
        u["ori"] = [mid - half, mid + half]
    else:
        u["ori"] = r.uniform(-3.0, 3.0)
    if mode in ("pos", "both"):
        k = r.choice(["rect", "circ", "poly"])
        if k == "rect":
            u["pos"] = {"k": "rect", "l": r.randint(4, 64) / 16.0, "w": r.randint(4, 64) / 16.0, "c": centre,
                        "o": r.choice([0.0, 0.4, r.uniform(-3, 3)])}
        elif k == "circ":
            u["pos"] = {"k": "circ", "r": r.randint(4, 48) / 16.0, "c": centre}
        else:
            a, b = r.randint(8, 48) / 16.0, r.randint(8, 48) / 16.0
            u["pos"] = {"k": "poly", "v": [[centre[0] - a, centre[1] - b], [centre[0] + a, centre[1] - b],
                                           [centre[0] + a, centre[1] + b], [centre[0] - a, centre[1] + b]]}
    else:
        u["pos"] = centre
    return u


# ------------------------------------------------------------------------------------------------ real objects

def build_state(cls, t, p):
    import numpy as np
    import commonroad.scenario.state as S
    pos = np.array(p["pos"], dtype=float)
    if cls == "PMState":
        return S.PMState(time_step=t, position=pos, velocity=p["vx"], velocity_y=p["vy"])
    if cls == "CustomState":
        return S.CustomState(time_step=t, position=pos, orientation=p["ori"], velocity=1.0)
    if cls == "InitialState":
        return S.InitialState(time_step=t, position=pos, orientation=p["ori"], velocity=0.0, acceleration=0.0, yaw_rate=0.0,
                              slip_angle=0.0)
    return getattr(S, cls)(time_step=t, position=pos, orientation=p["ori"], velocity=1.0)


def build_obstacle(o):
    from commonroad.common.util import Interval
    from commonroad.prediction.prediction import Occupancy, SetBasedPrediction, TrajectoryPrediction
    from commonroad.scenario.obstacle import (DynamicObstacle, EnvironmentObstacle, ObstacleType, PhantomObstacle, StaticObstacle)
    from commonroad.scenario.trajectory import Trajectory
    otype = list(ObstacleType)[o["type"]]
    shape = geom.build_shape(o["shape"])
    init = build_state("InitialState", o["t_init"], o["init"])
    k = o["kind"]

    def setpred(sp):
        occs = [Occupancy(oc["time"][0] if len(oc["time"]) == 1 else Interval(oc["time"][0], oc["time"][1]),
                          geom.build_shape(oc["shape"])) for oc in sp["occs"]]
        return SetBasedPrediction(sp["t0"], occs)
    if k == "static":
        return StaticObstacle(o["id"], otype, shape, init)
    if k == "environment":
        return EnvironmentObstacle(o["id"], otype, shape)
    if k == "phantom":
        return PhantomObstacle(o["id"], setpred(o["set"]) if o.get("set") else None)
    pred = None
    if k == "dynamic-traj":
        tr = o["traj"]
        sts = [build_state(tr["cls"], tr["t0"] + i, p) for i, p in enumerate(tr["states"])]
        pred = TrajectoryPrediction(Trajectory(tr["t0"], sts), shape)
    elif k == "dynamic-set":
        pred = setpred(o["set"])
    return DynamicObstacle(o["id"], otype, shape, init, pred)


def model_obst(o):
    k = o["kind"]
    if k == "static":
        return {"k": "static", "t0": o["t_init"]}
    if k == "environment":
        return {"k": "env"}
    if k == "phantom":
        return {"k": "phantom", "occs": [oc["time"] for oc in o["set"]["occs"]] if o.get("set") else None}
    if k == "dynamic-traj":
        tr = o["traj"]
        return {"k": "dynamic", "t0": o["t_init"], "pred": {"k": "traj", "t0": tr["t0"],
                                                          "ts": [tr["t0"] + i for i in range(len(tr["states"]))]}}
    if k == "dynamic-set":
        return {"k": "dynamic", "t0": o["t_init"], "pred": {"k": "set", "occs": [oc["time"] for oc in o["set"]["occs"]]}}
    return {"k": "dynamic", "t0": o["t_init"], "pred": {"k": "none"}}


# ------------------------------------------------------------------------------------------------ geometry oracle

def shape_points(shape):
    """Canonical numeric description of a commonroad shape: list of ('rect'|'circ'|'poly', numbers...)."""
    from commonroad.geometry.shape import Circle, Polygon, Rectangle, ShapeGroup
    if isinstance(shape, Rectangle):
        return [("rect", float(shape.length), float(shape.width), float(shape.center[0]), float(shape.center[1]),
                 float(shape.orientation))]
    if isinstance(shape, Circle):
        return [("circ", float(shape.radius), float(shape.center[0]), float(shape.center[1]))]
    if isinstance(shape, Polygon):
        return [("poly",) + tuple(float(x) for v in shape.vertices for x in v)]
    if isinstance(shape, ShapeGroup):
        out = []
        for s in shape.shapes:
            out += shape_points(s)
        return out
    raise TypeError(type(shape))


def poly_centroid(vs):
    a = 0.0
    cx = cy = 0.0
    n = len(vs)
    for i in range(n):
        x0, y0 = vs[i]
        x1, y1 = vs[(i + 1) % n]
        cr = x0 * y1 - x1 * y0
        a += cr
        cx += (x0 + x1) * cr
        cy += (y0 + y1) * cr
    a *= 0.5
    return cx / (6 * a), cy / (6 * a)


def wrap2pi(x):
    while x > 2 * math.pi:
        x -= 2 * math.pi
    while x < -2 * math.pi:
        x += 2 * math.pi
    return x


def expected_placement(spec, pos, th):
    """The shape rotated by th about its own centre, then moved by pos (independent of the library)."""
    k = spec["k"]
    if k == "rect":
        return [("rect", spec["l"], spec["w"], spec["c"][0] + pos[0], spec["c"][1] + pos[1], wrap2pi(spec["o"] + th))]
    if k == "circ":
        return [("circ", spec["r"], spec["c"][0] + pos[0], spec["c"][1] + pos[1])]
    if k == "poly":
        vs = [tuple(v) for v in spec["v"]]
        cx, cy = poly_centroid(vs)
        c, s = math.cos(th), math.sin(th)
        out = []
        for x, y in vs:
            dx, dy = x - cx, y - cy
            out += [cx + c * dx - s * dy + pos[0], cy + s * dx + c * dy + pos[1]]
        return [("poly",) + tuple(out)]
    out = []
    for sub in spec["s"]:
        out += expected_placement(sub, pos, th)
    return out


def wire_shape(spec):
    """Shape spec with exact rationals for the driver."""
    k = spec["k"]
    if k == "rect":
        return {"k": "rect", "l": rat(spec["l"]), "w": rat(spec["w"]), "c": [rat(spec["c"][0]), rat(spec["c"][1])], "o": rat(spec["o"])}
    if k == "circ":
        return {"k": "circ", "r": rat(spec["r"]), "c": [rat(spec["c"][0]), rat(spec["c"][1])]}
    if k == "poly":
        return {"k": "poly", "v": [[rat(x), rat(y)] for x, y in spec["v"]]}
    return {"k": "group", "s": [wire_shape(x) for x in spec["s"]]}


def model_points(m):
    """The model's placed shape in the form of shape_points()."""
    from common import unrat
    k = m["k"]
    if k == "rect":
        return [("rect", float(unrat(m["l"])), float(unrat(m["w"])), float(unrat(m["c"][0])), float(unrat(m["c"][1])), float(unrat(m["o"])))]
    if k == "circ":
        return [("circ", float(unrat(m["r"])), float(unrat(m["c"][0])), float(unrat(m["c"][1])))]
    if k == "poly":
        return [("poly",) + tuple(float(unrat(x)) for v in m["v"] for x in v)]
    out = []
    for x in m["s"]:
        out += model_points(x)
    return out


def ring_equal(a, b):
    """Vertex rings equal up to the closing vertex, the starting vertex and the direction (the library re-orients rings)."""
    def strip(r):
        r = list(r)
        if len(r) > 1 and abs(r[0][0] - r[-1][0]) < TOL and abs(r[0][1] - r[-1][1]) < TOL:
            r = r[:-1]
        return r
    a, b = strip(a), strip(b)
    if len(a) != len(b):
        return False
    n = len(a)

    def eq(p, q):
        return abs(p[0] - q[0]) <= TOL * max(1.0, abs(q[0])) and abs(p[1] - q[1]) <= TOL * max(1.0, abs(q[1]))
    for cand in (b, b[::-1]):
        for k in range(n):
            if all(eq(a[i], cand[(i + k) % n]) for i in range(n)):
                return True
    return False


def same_geometry(got, want):
    if len(got) != len(want):
        return False
    for g, w in zip(got, want):
        if g[0] != w[0]:
            return False
        if g[0] == "poly":
            if not ring_equal(list(zip(g[1::2], g[2::2])), list(zip(w[1::2], w[2::2]))):
                return False
        elif g[0] == "rect":
            if any(abs(a - b) > TOL * max(1.0, abs(b)) for a, b in zip(g[1:5], w[1:5])):
                return False
            d = (g[5] - w[5]) % (2 * math.pi)
            if min(d, 2 * math.pi - d) > TOL:
                return False
        else:
            if any(abs(a - b) > TOL * max(1.0, abs(b)) for a, b in zip(g[1:], w[1:])):
                return False
    return True


def pose_of(o, ref):
    """(pos, heading) of the referenced state, straight from the generating spec."""
    if ref == "init":
        return o["init"]["pos"], o["init"]["ori"]
    p = o["traj"]["states"][ref[1]]
    if o["traj"]["cls"] == "PMState":
        return p["pos"], math.atan2(p["vy"], p["vx"])
    return p["pos"], p["ori"]


# ------------------------------------------------------------------------------------------------ per-obstacle check

def classify(obj, o, occ_ref, t):
    """Implementation answers in the model's vocabulary (by object identity through public accessors)."""
    from commonroad.scenario.obstacle import DynamicObstacle, EnvironmentObstacle, PhantomObstacle, StaticObstacle
    with warnings.catch_warnings():
        warnings.simplefilter("ignore")
        r = call(obj.occupancy_at_time, t)
        if isinstance(obj, PhantomObstacle):
            rs = call(obj.state_at_time)
        elif isinstance(obj, EnvironmentObstacle):
            rs = ("ok", None)
        else:
            rs = call(obj.state_at_time, t)
    if r[0] != "ok":
        return {"err": r[1], "msg": r[2]}, None, None
    if rs[0] != "ok":
        return {"err": rs[1], "msg": rs[2]}, None, None
    occ, st = r[1], rs[1]
    oc = None
    if occ is not None:
        pred = getattr(obj, "prediction", None)
        if isinstance(obj, EnvironmentObstacle):
            oc = "shape" if occ.shape is obj.obstacle_shape else "?"
        elif occ_ref is not None and occ.shape is occ_ref:
            oc = "init"
        elif pred is not None and any(occ is x for x in pred.occupancy_set):
            i = [j for j, x in enumerate(pred.occupancy_set) if occ is x][0]
            oc = ["placed" if o["kind"] == "dynamic-traj" else "stored", i]
        else:
            oc = "?"
    sr = None
    if st is not None:
        if st is obj.initial_state:
            sr = "init"
        else:
            pred = getattr(obj, "prediction", None)
            idx = [j for j, x in enumerate(pred.trajectory.state_list) if x is st] if pred is not None and hasattr(pred, "trajectory") else []
            sr = ["traj", idx[0]] if idx else "?"
    return {"occ": oc, "st": sr}, occ, st


def run_obstacle(ctx, case):
    from commonroad.common.util import Interval
    o, ts = case["obst"], case["ts"]
    ctx.tag("role/" + o["kind"])
    if o.get("unsorted_set") and o.get("set"):
        ctx.tag("set/unsorted")
    ctx.tag("shape/" + o["shape"]["k"])
    if o["kind"] == "dynamic-traj":
        ctx.tag("state/" + o["traj"]["cls"])
    try:
        obj = build_obstacle(o)
    except Exception as e:  # noqa
        ctx.fail(f"C04/constructor/raises-{type(e).__name__}", f"building a valid {o['kind']} obstacle raised {e}", case)
        return
    occ_ref = None
    if o["kind"] in ("static",) or o["kind"].startswith("dynamic"):
        occ_ref = obj.occupancy_at_time(o["t_init"]).shape
    impl = []
    model = ctx.driver.ask("C04", "obstacle_at", {"obst": model_obst(o), "ts": ts})
    lo, hi = ts[0] + 3, ts[-1] - 3
    for t in ts:
        ans, occ, st = classify(obj, o, occ_ref, t)
        sub = {"kind": "obstacle", "obst": o, "ts": [t]}
        ctx.tag("t/before" if t < lo else "t/initial" if t == lo else "t/after" if t > hi else "t/inside")
        if "err" in ans:
            impl.append({"err": ans["err"]})
            ctx.fail(f"C04/{o['kind']}.occupancy_at_time/raises-{ans['err']}", f"t={t}: {ans['msg']}", sub)
            continue
        impl.append(ans)
        # ---- oracle, from the property text
        k = o["kind"]
        want_occ, want_pose = False, None
        if k in ("static", "environment"):
            want_occ = True
            want_pose = "init" if k == "static" else None
        elif k.startswith("dynamic"):
            if t == o["t_init"]:
                want_occ, want_pose = True, "init"
            elif k == "dynamic-traj" and o["traj"]["t0"] <= t < o["traj"]["t0"] + len(o["traj"]["states"]) and t > o["t_init"]:
                want_occ, want_pose = True, ["traj", t - o["traj"]["t0"]]
            elif k == "dynamic-set" and t > o["t_init"]:
                want_occ = any((len(oc["time"]) == 1 and oc["time"][0] == t) or (len(oc["time"]) == 2 and oc["time"][0] <= t <= oc["time"][1])
                               for oc in o["set"]["occs"])
        elif k == "phantom":
            want_occ = bool(o.get("set")) and any((len(oc["time"]) == 1 and oc["time"][0] == t) or
                                                  (len(oc["time"]) == 2 and oc["time"][0] <= t <= oc["time"][1]) for oc in o["set"]["occs"])
        if (occ is not None) != want_occ:
            ctx.fail(f"C04/{k}.occupancy_at_time/" + ("missing-inside-horizon" if want_occ else "present-outside-horizon"),
                     f"t={t}: occupancy {'None' if occ is None else 'returned'}, horizon says {'defined' if want_occ else 'None'}", sub)
            continue
        if occ is not None:
            if k in ("dynamic-set", "phantom") and want_pose is None:
                ts_ = occ.time_step
                inside = ts_.contains(t) if isinstance(ts_, Interval) else ts_ == t
                stored = any(occ is x for x in obj.prediction.occupancy_set)
                if not (inside and stored):
                    ctx.fail(f"C04/{k}.occupancy_at_time/wrong-stored-occupancy", f"t={t}: returned occupancy has time {ts_}", sub)
            elif k == "environment":
                if not same_geometry(shape_points(occ.shape), expected_placement(o["shape"], [0.0, 0.0], 0.0)):
                    ctx.fail("C04/environment.occupancy_at_time/wrong-region", f"t={t}", sub)
            else:
                pos, th = pose_of(o, want_pose)
                # correspondence with the placement model (CR.Place.place; cos/sin are parameters evaluated here)
                mp = ctx.driver.ask("C04", "place", {"c": rat(math.cos(th)), "s": rat(math.sin(th)), "a": rat(th), "tau": rat(2.0 * math.pi),
                                                      "t": [rat(pos[0]), rat(pos[1])], "shape": wire_shape(o["shape"])})
                okm = same_geometry(shape_points(occ.shape), model_points(mp))
                ctx.compare(sub, "placement within 1e-9" if okm else shape_points(occ.shape),
                            "placement within 1e-9" if okm else model_points(mp), "occupancy geometry vs CR.Place.place")
                ctx.tag("place/" + o["shape"]["k"])
                if not same_geometry(shape_points(occ.shape), expected_placement(o["shape"], pos, th)):
                    ctx.fail(f"C04/{k}.occupancy_at_time/wrong-placement",
                             f"t={t}: occupancy {shape_points(occ.shape)} is not the shape placed at pos={pos}, heading={th}", sub)
                if k != "static" and occ.time_step != t:
                    ctx.fail(f"C04/{k}.occupancy_at_time/wrong-time-stamp", f"t={t}: occupancy stamped {occ.time_step}", sub)
        # state
        if k.startswith("dynamic"):
            want_state = t == o["t_init"] or (k == "dynamic-traj" and t > o["t_init"] and
                                              o["traj"]["t0"] <= t < o["traj"]["t0"] + len(o["traj"]["states"]))
            if (st is not None) != want_state:
                ctx.fail(f"C04/{k}.state_at_time/" + ("missing" if want_state else "present-outside-horizon"), f"t={t}", sub)
            elif st is not None and st.time_step != t:
                ctx.fail(f"C04/{k}.state_at_time/wrong-time-step", f"asked t={t}, got the state of time step {st.time_step}", sub)
        elif k == "static" and st is not obj.initial_state:
            ctx.fail("C04/static.state_at_time/not-initial-state", f"t={t}", sub)
    ctx.compare(case, [{k: v for k, v in a.items()} for a in impl], model, "occupancy_at_time/state_at_time vs CR.Occ")
    # the same obstacle after update_initial_state: the occupancy at the new initial step is the shape placed at the NEW initial state
    if o["kind"].startswith("dynamic") and o["id"] % 2 == 1 or o["kind"] == "dynamic-none":
        o3 = json.loads(json.dumps(o))
        npose = {"pos": [o["init"]["pos"][0] + 2.5, o["init"]["pos"][1] - 1.5], "ori": o["init"]["ori"]}
        nt = o["t_init"] + 1
        obj2 = build_obstacle(o)
        obj2.occupancy_at_time(o["t_init"])
        r5 = call(obj2.update_initial_state, build_state("InitialState", nt, npose))
        ctx.tag("history/update-initial-state")
        sub = {"kind": "obstacle", "obst": o, "ts": [nt]}
        if r5[0] != "ok":
            ctx.fail(f"C04/{o['kind']}.update_initial_state/raises-{r5[1]}", r5[2], sub)
        else:
            occ5, st5 = obj2.occupancy_at_time(nt), obj2.state_at_time(nt)
            if occ5 is None or st5 is None or st5.time_step != nt or not same_geometry(
                    shape_points(occ5.shape), expected_placement(o["shape"], npose["pos"], npose["ori"])):
                ctx.fail(f"C04/{o['kind']}.occupancy_at_time/stale-after-update_initial_state",
                         f"t={nt}: after update_initial_state the occupancy is not the shape placed at the new initial state", sub)
        _ = o3
    # the same obstacle after its prediction's trajectory / shape has been replaced through the public setters: occupancy and state
    # must again be the shape placed at the (new) state of that step  (query -> replace -> query)
    if o["kind"] == "dynamic-traj":
        from commonroad.scenario.trajectory import Trajectory
        tr = o["traj"]
        o2 = json.loads(json.dumps(o))
        sts2 = [dict(p, pos=[p["pos"][0] + 1.5, p["pos"][1] - 0.5]) for p in tr["states"]][: max(1, len(tr["states"]) - 1)]
        o2["traj"]["states"] = sts2
        obj.prediction.trajectory = Trajectory(tr["t0"], [build_state(tr["cls"], tr["t0"] + i, p) for i, p in enumerate(sts2)])
        ctx.tag("history/trajectory-replaced")
        for t in (tr["t0"], tr["t0"] + len(sts2) - 1, tr["t0"] + len(sts2)):
            if t <= o["t_init"]:
                continue
            occ, st = obj.occupancy_at_time(t), obj.state_at_time(t)
            inside = t < tr["t0"] + len(sts2)
            sub = {"kind": "obstacle", "obst": o, "ts": [t]}
            if (occ is not None) != inside or (st is not None) != inside:
                ctx.fail("C04/dynamic-traj.occupancy_at_time/stale-after-trajectory-replaced",
                         f"t={t}: after prediction.trajectory = <shorter, shifted trajectory> occupancy is "
                         f"{'None' if occ is None else 'returned'}, state {'None' if st is None else 'returned'}", sub)
                break
            if inside:
                pos, th = pose_of(o2, ["traj", t - tr["t0"]])
                if not same_geometry(shape_points(occ.shape), expected_placement(o["shape"], pos, th)):
                    ctx.fail("C04/dynamic-traj.occupancy_at_time/stale-after-trajectory-replaced",
                             f"t={t}: occupancy is not the shape placed at the new trajectory state", sub)
                    break


# ------------------------------------------------------------------------------------------------ uncertain states

def run_uncertain(ctx, case):
    import numpy as np
    from commonroad.common.util import AngleInterval
    from commonroad.geometry.shape import occupancy_shape_from_state
    from commonroad.scenario.state import KSState
    r = ctx.rng
    shape = geom.build_shape(case["shape"])
    unc_o = isinstance(case["ori"], list)
    unc_p = isinstance(case["pos"], dict)
    ctx.tag("uncertain/orientation" if unc_o else "uncertain/position")
    if unc_p:
        ctx.tag("uncertain/position")
    st = KSState(time_step=1, position=geom.build_shape(case["pos"]) if unc_p else np.array(case["pos"]),
                 orientation=AngleInterval(case["ori"][0], case["ori"][1]) if unc_o else case["ori"], velocity=0.0)
    res = call(occupancy_shape_from_state, shape, st)
    if res[0] != "ok":
        ctx.fail(f"C04/occupancy_shape_from_state/raises-{res[1]}", f"uncertain state {case}: {res[2]}", case)
        return
    occ = res[1]
    from commonroad.geometry.shape import ShapeGroup as _SG
    encs = [{"k": "rect", "l": float(x.length), "w": float(x.width), "c": [float(x.center[0]), float(x.center[1])],
             "o": float(x.orientation)} for x in (occ.shapes if isinstance(occ, _SG) else [occ])]
    enc = encs[0] if len(encs) == 1 else {"k": "group", "s": encs}
    # sample admissible poses; every vertex / boundary sample of the placed shape must lie in the enclosure (band 1e-9)
    for _ in range(40):
        th = r.choice([case["ori"][0], case["ori"][1], r.uniform(case["ori"][0], case["ori"][1])]) if unc_o else case["ori"]
        if unc_p:
            ps = case["pos"]
            if ps["k"] == "circ":
                a, rad = r.uniform(0, 2 * math.pi), ps["r"] * r.choice([1.0, 1.0, r.random()])
                pos = [ps["c"][0] + rad * math.cos(a), ps["c"][1] + rad * math.sin(a)]
            elif ps["k"] == "rect":
                vs = [(float(x), float(y)) for x, y in geom.rect_vertices(ps)]
                u, v = r.choice([0.0, 1.0, r.random()]), r.choice([0.0, 1.0, r.random()])
                pos = [vs[0][0] + u * (vs[1][0] - vs[0][0]) + v * (vs[3][0] - vs[0][0]),
                       vs[0][1] + u * (vs[1][1] - vs[0][1]) + v * (vs[3][1] - vs[0][1])]
            else:
                vs = ps["v"]
                u, v = r.choice([0.0, 1.0, r.random()]), r.choice([0.0, 1.0, r.random()])
                pos = [vs[0][0] + u * (vs[1][0] - vs[0][0]) + v * (vs[3][0] - vs[0][0]),
                       vs[0][1] + u * (vs[1][1] - vs[0][1]) + v * (vs[3][1] - vs[0][1])]
        else:
            pos = case["pos"]
        pts = []
        for item in expected_placement(case["shape"], pos, th):
            if item[0] == "rect":
                pts += [(float(x), float(y)) for x, y in geom.rect_vertices({"l": item[1], "w": item[2], "c": [item[3], item[4]], "o": item[5]})]
            elif item[0] == "circ":
                pts += [(item[2] + item[1] * math.cos(a), item[3] + item[1] * math.sin(a)) for a in [k * math.pi / 8 for k in range(16)]]
            else:
                pts += list(zip(item[1::2], item[2::2]))
        for p in pts:
            member, _ = geom.point_in_shape(enc, p)
            if not member:
                # tolerance: distance outside the enclosure
                d2 = min(geom.seg_dist2((frac(p[0]), frac(p[1])), ring[i], ring[(i + 1) % 4])
                         for ring in (geom.rect_vertices(e) for e in encs) for i in range(4))
                if d2 > Fraction(1, 10 ** 16):
                    ctx.fail(f"C04/occupancy_shape_from_state/not-enclosing/{case['shape']['k']}",
                             f"shape {case['shape']} at admissible pose pos={pos}, ori={th} has point {p} outside the occupancy {enc}",
                             dict(case, witness={"pos": pos, "ori": th, "point": list(p)}))
                    return


# ------------------------------------------------------------------------------------------------ scenario level

def run_scenario(ctx, case):
    import numpy as np  # noqa
    from commonroad.common.util import Interval
    from commonroad.scenario.obstacle import ObstacleRole, ObstacleType
    from commonroad.scenario.scenario import Scenario
    sc = Scenario(0.1)
    objs = {}
    for o in case["obs"]:
        objs[o["id"]] = build_obstacle(o)
        sc.add_objects(objs[o["id"]])
    role_map = {"static": ObstacleRole.STATIC, "dynamic": ObstacleRole.DYNAMIC, "phantom": ObstacleRole.Phantom,
                "environment": ObstacleRole.ENVIRONMENT}
    role = role_map[case["role"]] if case["role"] else None
    ty = list(ObstacleType)[case["ty"]] if case["ty"] is not None else None
    if role is not None:
        ctx.tag("scenario/role-filter")
    mobs = [{"id": o["id"], "obst": model_obst(o), "ty": None if o["kind"] == "phantom" else o["type"]} for o in case["obs"]]
    for t in case["ts"]:
        sub = dict(case, ts=[t])
        with warnings.catch_warnings():
            warnings.simplefilter("ignore")
            r1 = call(sc.occupancies_at_time_step, t, role)
            r2 = call(sc.obstacle_states_at_time_step, t)
            r3 = call(sc.obstacles_by_role_and_type, role, ty)
            r4 = call(sc.obstacles_by_position_intervals, [Interval(*case["box"][0]), Interval(*case["box"][1])],
                      tuple(role_map[x] for x in case["roles"]), t)
        for name, r in (("occupancies_at_time_step", r1), ("obstacle_states_at_time_step", r2), ("obstacles_by_role_and_type", r3),
                        ("obstacles_by_position_intervals", r4)):
            if r[0] != "ok":
                ctx.fail(f"C04/Scenario.{name}/raises-{r[1]}", f"t={t}: {r[2]}", sub)
        if any(r[0] != "ok" for r in (r1, r2, r3, r4)):
            continue
        # per-obstacle answers
        per_occ, per_st = {}, {}
        with warnings.catch_warnings():
            warnings.simplefilter("ignore")
            for o in case["obs"]:
                ob = objs[o["id"]]
                per_occ[o["id"]] = ob.occupancy_at_time(t)
                if o["kind"].startswith("dynamic") or o["kind"] == "static":
                    per_st[o["id"]] = ob.state_at_time(t)
        # occupancies: exactly the per-obstacle occupancies of the obstacles passing the role filter
        want = [(o["id"], per_occ[o["id"]]) for o in case["obs"]
                if (role is None or objs[o["id"]].obstacle_role == role) and per_occ[o["id"]] is not None]
        got = r1[1]

        def occ_key(oc):
            return (str(oc.time_step), json.dumps(shape_points(oc.shape)))
        if sorted(occ_key(x) for x in got) != sorted(occ_key(oc) for _, oc in want):
            ctx.fail("C04/Scenario.occupancies_at_time_step/not-the-per-obstacle-answers",
                     f"t={t} role={case['role']}: {len(got)} occupancies returned, per-obstacle answers give {len(want)}", sub)
        want_st = {i: s for i, s in per_st.items() if s is not None}
        if set(r2[1].keys()) != set(want_st.keys()) or any(r2[1][i] is not want_st[i] for i in want_st):
            ctx.fail("C04/Scenario.obstacle_states_at_time_step/not-the-per-obstacle-answers",
                     f"t={t}: ids {sorted(r2[1].keys())} vs per-obstacle {sorted(want_st.keys())}", sub)
        want_f = sorted(o["id"] for o in case["obs"] if (role is None or objs[o["id"]].obstacle_role == role)
                        and (ty is None or getattr(objs[o["id"]], "obstacle_type", None) == ty))
        if sorted(x.obstacle_id for x in r3[1]) != want_f:
            ctx.fail("C04/Scenario.obstacles_by_role_and_type/wrong-filter", f"{sorted(x.obstacle_id for x in r3[1])} vs {want_f}", sub)
        # position interval: centre of the occupancy at t (dynamic/phantom), initial position (static), shape centre (environment)
        ctx.tag("scenario/position-interval")
        (x0, x1), (y0, y1) = case["box"]
        want_p = []
        for o in case["obs"]:
            ob = objs[o["id"]]
            rk = {"static": "static", "environment": "environment", "phantom": "phantom"}.get(o["kind"], "dynamic")
            if rk not in case["roles"]:
                continue
            if rk == "static":
                c = o["init"]["pos"]
            elif rk == "environment":
                c = getattr(ob.obstacle_shape, "center", None)
            else:
                oc = per_occ[o["id"]]
                if oc is None:
                    continue
                c = getattr(oc.shape, "center", None)
            if c is None or (x0 <= c[0] <= x1 and y0 <= c[1] <= y1):
                want_p.append(o["id"])
        if sorted(x.obstacle_id for x in r4[1]) != sorted(want_p):
            ctx.fail("C04/Scenario.obstacles_by_position_intervals/wrong-filter",
                     f"t={t}: {sorted(x.obstacle_id for x in r4[1])} vs per-obstacle {sorted(want_p)}", sub)
        # correspondence with the model (ids + symbolic answers)
        m = ctx.driver.ask("C04", "scenario", {"obs": mobs, "t": t, "role": case["role"], "ty": case["ty"]})
        impl = {"occs": len(got), "states": sorted(r2[1].keys()), "by_role_type": sorted(x.obstacle_id for x in r3[1])}
        mod = {"occs": len(m["occs"]), "states": sorted(i for i, _ in m["states"]), "by_role_type": sorted(m["by_role_type"])}
        ctx.compare(sub, impl, mod, "Scenario queries vs CR.Occ.occupanciesAt/statesAt/byRoleType")
        # position filter: the model decides which obstacles have an occupancy and applies the closed-interval test to the
        # centre the real answer offers (a parameter of the model); the ORDER of the list is compared too
        pobs = []
        for o in case["obs"]:
            ob = objs[o["id"]]
            if o["kind"] == "static":
                c = o["init"]["pos"]
            elif o["kind"] == "environment":
                c = getattr(ob.obstacle_shape, "center", None)
            else:
                c = getattr(per_occ[o["id"]].shape, "center", None) if per_occ[o["id"]] is not None else None
            pobs.append({"id": o["id"], "obst": model_obst(o), "c": None if c is None else [rat(float(c[0])), rat(float(c[1]))]})
        mp = ctx.driver.ask("C04", "by_position", {"obs": pobs, "t": t, "roles": list(case["roles"]),
                                                   "ix": [rat(x0), rat(x1)], "iy": [rat(y0), rat(y1)]})
        ctx.compare(sub, [x.obstacle_id for x in r4[1]], mp, "Scenario.obstacles_by_position_intervals vs CR.Occ.byPosition")


def run_case(ctx, case):
    ctx.case(case)
    if case["kind"] == "obstacle":
        run_obstacle(ctx, case)
    elif case["kind"] == "uncertain":
        run_uncertain(ctx, case)
    else:
        run_scenario(ctx, case)


def witness_gapped(ctx):
    """Replay of C04_witness_gapped_trajectory on the real code: a trajectory with a gap in its time steps (outside the documented
    precondition) pairs state and time step wrongly. Recorded as excluded, never judged."""
    import numpy as np
    from commonroad.geometry.shape import Rectangle
    from commonroad.prediction.prediction import TrajectoryPrediction
    from commonroad.scenario.obstacle import DynamicObstacle, ObstacleType
    from commonroad.scenario.state import InitialState, KSState
    from commonroad.scenario.trajectory import Trajectory
    try:
        tr = Trajectory(3, [KSState(time_step=t, position=np.array([float(t), 0.0]), orientation=0.0, velocity=1.0) for t in (3, 5, 6)])
        ob = DynamicObstacle(1, ObstacleType.CAR, Rectangle(4, 2), InitialState(time_step=2, position=np.array([0.0, 0.0]), orientation=0.0,
                             velocity=0.0, acceleration=0.0, yaw_rate=0.0, slip_angle=0.0), TrajectoryPrediction(tr, Rectangle(4, 2)))
        st, occ = ob.state_at_time(4), ob.occupancy_at_time(4)
        as_model = st is not None and st.time_step == 5 and occ is None
    except Exception:  # noqa  (e.g. a constructor that rejects gapped trajectories: then the precondition is enforced)
        as_model = False
    ctx.excluded += 1
    ctx.tag("witness/gapped-trajectory:" + ("as-model" if as_model else "differs-from-model"))


def run(ctx):
    witness_gapped(ctx)
    for p in sorted(glob.glob(os.path.join(CORPUS_DIR, "C04", "*.json"))):
        run_case(ctx, json.load(open(p)))
    for _ in range(ctx.n(900)):
        run_case(ctx, gen_case(ctx))


search = run


def replay(ctx, case):
    run_case(ctx, case)
