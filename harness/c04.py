"""C04 — obstacle occupancy is the shape placed at the state, for every time step.
model: lean/CRModel/Occupancy.lean; theorems: lean/CRProps/C04.lean; dimension table: harness/c04_dims.py."""
import copy
import glob
import json
import math
import os
import pickle
import random
import warnings
from fractions import Fraction

import c04_dims
import geom
from common import CORPUS_DIR, InfraError, call, frac, rat

RULE = ("obstacles of every role (static; dynamic with trajectory / set-based / no prediction; phantom; environment) x shapes "
        "(rectangle, circle, polygon, shape group; centred and off-centre) x every state class with a position (KS, KST, ST, STD, MB, "
        "ExtendedPM, Initial, PM and Custom point-mass with vx/vy in all quadrants and of every magnitude: zero, ordinary, slow "
        "1e-2..1e-300, subnormal, 1e20..1e200, one slow component; Custom with extra attributes) x every optional "
        f"constructor argument (harness/c04_dims.py lists all {c04_dims.size()} parameters / setters / operations and is checked against the real "
        "signatures on every run) x number classes (float, int, float32, numpy scalars, 1e5 magnitudes) queried at every integer step "
        "from 3 before the initial step to 3 after the horizon end, through the obstacle and through the prediction / trajectory; "
        "HISTORIES of 2..6 public mutations after a first query (trajectory / shape / prediction / occupancy_set / initial_state "
        "setters incl. the held object handed back, in-place edits of a stored occupancy list, update_initial_state incl. failing "
        "half-way, update_prediction, translate_rotate, no-op setters, read-only queries, deepcopy / pickle / copy clones) re-judged "
        "after every step; uncertain states (position region rectangle/circle/polygon, orientation interval) directly and through "
        "initial / trajectory states of obstacles with 40 sampled admissible poses each; SCENARIO histories of add (single / list / "
        "duplicate ids) / remove (single / list / absent / look-alike) / mutate / translate_rotate with every query form (role and "
        "type filters, every role tuple as tuple / list / set / default, negative steps) after them. distinct = canonical JSON; every "
        "case is non-trivial (each spans both horizon ends or a mutation)")
ASSUMPTIONS = ["placement geometry (rotate about the shape's own centre, then translate) is recomputed by the oracle with float "
               "cos/sin and compared to 1e-9; it is symbolic in the Lean model",
               "well-formed trajectories (state i carries time step t0+i) as the property's horizon notion presupposes",
               "enclosure for uncertain states is sampled (40 poses x shape vertices), a test not a theorem; the proved part is "
               "C04_extent_le_small/_max, C04_enclosure_box/_long",
               "time steps are Python ints (the annotated type): a numpy integer QUERY step must give the int answer or be rejected "
               "with AssertionError (Occupancy / Prediction assert isinstance(int)); numpy integer time steps INSIDE states are "
               "accepted by Trajectory and rejected by Occupancy at the first query — replayed as an excluded witness, not judged",
               "in-place edits of a HELD trajectory or state that no setter sees (Trajectory.append_state / translate_rotate / "
               "initial_time_step, state.position = ... without re-assignment) are property C11's subject (known findings there) and "
               "are not generated; edits of a set-based prediction's occupancy LIST and of its stored Occupancy objects are generated "
               "(nothing is cached there)",
               "wheelbase_lengths (trailer-truck hook behind **kwargs: DynamicObstacle with it needs a hitch_angle no InitialState "
               "has, TrajectoryPrediction's setter stores it under another name) is outside the quantifier; the kwargs channel is "
               "varied with wheelbase=[...] as the XML reader passes it",
               "a TrajectoryPrediction whose shape differs from obstacle_shape: beyond the initial step 'the obstacle's shape' is the "
               "prediction's shape (the only one the prediction knows)",
               "negative steps at scenario level: occupancies_at_time_step / obstacle_states_at_time_step assert a natural number "
               "(modelled: occupanciesAtChk / statesAtChk, compared); obstacles_by_position_intervals accepts them and is judged"]
EXTRA_MODULES = ["CRProps.T17", "CRProps.T04", "CRProps.P04"]      # translator tie: Gen.Src (regenerated from /repo every run) = hand model
STATE_CLASSES = ["KSState", "KSTState", "STState", "STDState", "MBState", "ExtendedPMState", "InitialState", "PMState", "CustomState",
                 "CustomPM"]
PM_LIKE = ("PMState", "CustomPM")
REQUIRED_BUCKETS = ["role/static", "role/dynamic-traj", "role/dynamic-set", "role/dynamic-none", "role/phantom", "role/environment",
                    "t/before", "t/initial", "t/inside", "t/after", "uncertain/orientation", "uncertain/position",
                    "scenario/role-filter", "scenario/position-interval", "shape/group", "shape/poly",
                    "history/trajectory-replaced", "history/update-initial-state",
                    "place/rect", "place/circ", "place/poly", "place/group", "set/unsorted", "dimension-table/checked",
                    "dim/id-zero", "dim/id-large", "dim/type-upper", "dim/optional-args", "dim/lanelet-ids", "dim/signal", "dim/meta",
                    "dim/history-arg", "dim/kwargs", "dim/num-int", "dim/num-f32", "dim/num-np64", "dim/num-big", "dim/init-minimal",
                    "dim/custom-extra", "dim/traj-starts-at-init", "dim/traj-starts-before-init", "dim/pred-shape-copy",
                    "dim/pred-shape-other", "dim/lanelet-assignment", "dim/set-empty", "dim/set-nested", "dim/set-duplicate-object",
                    "dim/set-t0-inconsistent", "dim/numpy-step", "dim/pm-speed-zero", "dim/pm-speed-slow", "dim/pm-speed-subnormal",
                    "dim/pm-speed-fast", "dim/pm-speed-mixed", "entry/prediction.occupancy_at_time_step",
                    "entry/trajectory.state_at_time_step",
                    "hop/set_trajectory", "hop/reassign", "hop/set_pred_shape", "hop/set_prediction", "hop/update_prediction",
                    "hop/set_initial", "hop/set_initial-inplace", "hop/update_initial", "hop/update_initial_fail", "hop/occ_set",
                    "hop/phantom_prediction", "hop/translate_rotate", "hop/noop_setters", "hop/readonly", "hop/clone",
                    "sop/add-list", "sop/add-duplicate-id", "sop/add_many-fails-halfway", "sop/remove", "sop/remove-absent",
                    "sop/remove-lookalike", "sop/readd", "sop/mutate", "sop/translate_rotate", "sop/lanelets",
                    "sop/query-negative-step", "sop/query-default-args", "sop/roles-list", "sop/roles-set", "sop/obstacle_by_id",
                    "sop/second-scenario", "sop/remove-bad-arg", "sop/empty-scenario",
                    "uncertain/via-initial", "uncertain/via-trajectory", "uncertain/random-shape"] + \
                   ["state/" + c for c in STATE_CLASSES]

TOL = 1e-9
NTYPES = 16         # len(ObstacleType); checked in run()
LANELET_IDS = [100, 101]


# ------------------------------------------------------------------------------------------------ generation

def gen_pose(r, pm=False):
    """A pose spec. `num` is the number class the real state is built with (the VALUES are always exactly representable in it)."""
    num = r.choice(["float"] * 7 + ["int", "f32", "np64", "big"])
    if num == "int":
        p = {"pos": [float(r.randint(-20, 20)), float(r.randint(-20, 20))], "ori": float(r.choice([0, 1, -1, 3, -3, 6, -6]))}
    elif num == "f32":
        p = {"pos": [r.randint(-320, 320) / 16.0, r.randint(-320, 320) / 16.0], "ori": r.choice([0.0, 0.5, -1.0, 3.0, -2.25, 6.0])}
    elif num == "big":
        p = {"pos": [r.randint(-320, 320) * 256.0 + 0.5, r.randint(-320, 320) * 256.0 - 0.25], "ori": r.uniform(-6.2, 6.2)}
    else:
        p = {"pos": [r.randint(-320, 320) / 16.0, r.randint(-320, 320) / 16.0],
             "ori": r.choice([0.0, math.pi / 2, -1.0, 3.0, r.uniform(-6.2, 6.2)])}
    p["num"] = num
    if pm:
        v = gen_pm_velocity(r, num)
        p = {"pos": p["pos"], "vx": v[0], "vy": v[1], "num": num}
    return p


PM_DIRECTIONS = [(3.0, 4.0), (-3.0, 4.0), (-1.0, -1.0), (2.0, -0.5), (0.0, 1.0), (-2.0, 0.0), (0.0, -3.0), (1.0, 0.0), (-4.0, -0.25)]
SUBNORMAL = [5e-324, 1.5e-323, 1e-310, 2e-308]          # below the smallest normal double (2.2250738585072014e-308)


def gen_pm_velocity(r, num):
    """Velocity vector of a point-mass state. Its heading atan2(vy, vx) is a matter of the DIRECTION alone, so the MAGNITUDE is a
    dimension of its own: ordinary speeds, exactly zero, slow (log-uniform from 1e-2 down to 1e-300: creeping / numerically almost
    standing, in every direction), subnormal components, very fast, and one slow component beside an ordinary one."""
    if num == "int":
        v = r.choice(PM_DIRECTIONS + [(0.0, 0.0), (r.uniform(-5, 5), r.uniform(-5, 5))])
        return float(round(v[0])), float(round(v[1]))
    x = r.random()
    if x < 0.45:
        v = r.choice(PM_DIRECTIONS + [(0.0, 0.0), (r.uniform(-5, 5), r.uniform(-5, 5))])
        return (float(round(v[0])), float(round(v[1]))) if num == "f32" else v
    d = r.choice(PM_DIRECTIONS + [(r.uniform(-5, 5), r.uniform(-5, 5))])
    if num == "f32":            # exactly representable in float32: small integers times a power of two
        d = (float(round(d[0])), float(round(d[1])))
        d = d if d != (0.0, 0.0) else (0.0, -1.0)
        slow = 2.0 ** -r.choice([r.randint(8, 20), r.randint(20, 60), r.randint(60, 120)])
        if x < 0.80:
            return d[0] * slow, d[1] * slow
        if x < 0.88:
            return d[0] * 2.0 ** r.randint(64, 100), d[1] * 2.0 ** r.randint(64, 100)
        return r.choice([(d[0] or 1.0, slow * r.choice([1.0, -1.0])), (slow * r.choice([1.0, -1.0]), d[1] or -1.0)])
    if x < 0.75:                # slow: 60% just below everyday speeds (1e-6 .. 1e-2), the rest far below
        e = r.choice([r.uniform(-6, -2)] * 3 + [r.uniform(-16, -6), r.uniform(-300, -16)])
        k = 10.0 ** e / math.hypot(*d) if d != (0.0, 0.0) else 0.0
        return d[0] * k, d[1] * k
    if x < 0.80:                # subnormal components (the smallest non-zero doubles), all sign / zero combinations but (0, 0)
        while True:
            v = (r.choice([0.0, 1.0, -1.0]) * r.choice(SUBNORMAL), r.choice([0.0, 1.0, -1.0]) * r.choice(SUBNORMAL))
            if v != (0.0, 0.0):
                return v
    if x < 0.88:                # very fast (squares of the components overflow)
        k = 10.0 ** r.uniform(20, 200)
        return d[0] * k, d[1] * k
    k = 10.0 ** r.choice([r.uniform(-6, -2), r.uniform(-16, -6), r.uniform(-300, -16)])     # one slow component beside an ordinary one
    return r.choice([(d[0] or 1.0, k * r.choice([1.0, -1.0])), (k * r.choice([1.0, -1.0]), d[1] or -1.0)])


def pm_speed_class(vx, vy):
    """Magnitude class of a point-mass velocity vector (bucket dim/pm-speed-*), from the VALUES (also of stored corpus cases)."""
    ax, ay = abs(vx), abs(vy)
    if ax == 0.0 and ay == 0.0:
        return "zero"
    if max(ax, ay) < 2.2250738585072014e-308:
        return "subnormal"
    if max(ax, ay) < 1e-2:
        return "slow"
    if max(ax, ay) > 1e19:
        return "fast"
    if 0.0 < min(ax, ay) < 1e-2:
        return "mixed"
    return "ordinary"


def gen_obst_shape(r):
    spec = geom.gen_shape(r)
    if r.random() < 0.6:      # CommonRoad convention: obstacle shapes are centred at the origin, orientation 0
        def centre(s):
            if s["k"] == "rect":
                s["c"], s["o"] = [0.0, 0.0], 0.0
            elif s["k"] == "circ":
                s["c"] = [0.0, 0.0]
            elif s["k"] == "group":
                for x in s["s"]:
                    centre(x)
        centre(spec)
    return spec


def gen_ids(r):
    return r.choice([None, [], [100], [100, 101]])


def gen_opt(r, kind):
    """Optional constructor arguments of static / dynamic obstacles (all default with probability 1/2)."""
    if r.random() < 0.5:
        return {}
    opt = {"center_ids": gen_ids(r), "shape_ids": gen_ids(r), "signal": r.choice([None, "at-init", "other"]),
           "signal_series": r.choice([None, 0, 3])}
    if kind.startswith("dynamic"):
        opt.update({"meta": r.random() < 0.5, "meta_series": r.choice([None, 0, 2]), "ext_id": r.choice([None, 0, 7]),
                    "history": r.choice([None, 0, 2]), "signal_history": r.choice([None, 0, 2]), "cl_hist": r.choice([None, 0, 2]),
                    "sl_hist": r.choice([None, 0, 2]), "kw": r.random() < 0.5})
    return opt


def gen_traj(r, t_init, n=None, cls=None, first=None):
    n = n or r.randint(1, 8)
    if first is None:
        first = max(0, t_init + r.choice([1, 1, 1, 1, 2, 3, 0, -1]))
    cls = cls or r.choice(STATE_CLASSES)
    return {"t0": first, "cls": cls, "states": [gen_pose(r, pm=cls in PM_LIKE) for _ in range(n)],
            "extra": cls in ("CustomState", "CustomPM") and r.random() < 0.5}


def gen_set(r, first, lo=1):
    occs, t = [], first
    for _ in range(r.randint(lo, 6)):
        x = r.random()
        if x < 0.4:
            hi = t + r.randint(0, 3)
            occs.append({"time": [t, hi], "shape": geom.gen_shape(r)})
            if r.random() < 0.25 and hi > t:                       # nested / overlapping interval right behind
                occs.append({"time": [t + r.randint(0, 1), hi + r.choice([-1, 0, 1])], "shape": geom.gen_shape(r), "nested": True})
                occs[-1]["time"][1] = max(occs[-1]["time"])
                occs[-1]["time"][0] = min(occs[-1]["time"][0], occs[-1]["time"][1])
            t = hi + r.choice([0, 1, 2])          # intervals may touch / leave gaps
        else:
            occs.append({"time": [t], "shape": geom.gen_shape(r)})
            t += r.choice([1, 1, 2])
    for i, oc in enumerate(occs):
        oc["lab"] = i                               # entries with the same label are the same Occupancy OBJECT
    sp = {"t0": first, "occs": occs, "next": len(occs)}
    if len(occs) > 1 and r.random() < 0.35:
        r.shuffle(occs)                            # the occupancy set is a list in ANY order: no sortedness may be assumed
        sp["unsorted"] = True
    if occs and r.random() < 0.15:
        occs.insert(r.randint(0, len(occs)), dict(r.choice(occs)))
        sp["dup"] = True
    if r.random() < 0.2:
        sp["t0"] = max(0, first + r.choice([-2, 3, 7]))
    return sp


def gen_obstacle(r, oid, kind=None):
    kind = kind or r.choice(["static", "dynamic-traj", "dynamic-traj", "dynamic-set", "dynamic-none", "phantom", "environment"])
    o = {"id": oid, "kind": kind, "type": r.randrange(NTYPES), "shape": gen_obst_shape(r)}
    t0 = r.choice([0, 0, 1, 3, r.randint(0, 10)])
    o["t_init"] = t0
    o["init"] = gen_pose(r)
    o["init_min"] = r.random() < 0.2
    if kind in ("static",) or kind.startswith("dynamic"):
        o["opt"] = gen_opt(r, kind)
    if kind == "dynamic-traj":
        o["traj"] = gen_traj(r, t0)
        x = r.random()
        o["traj"]["pshape"] = "same" if x < 0.6 else "copy" if x < 0.8 else geom.gen_shape(r)
        o["traj"]["cla"] = r.choice([None, None, "empty", "some"])
        o["traj"]["sla"] = r.choice([None, None, "empty", "some"])
        o["traj"]["kw"] = r.random() < 0.2
    elif kind in ("dynamic-set", "phantom"):
        o["set"] = gen_set(r, t0 + 1, lo=0)
        if kind == "phantom" and r.random() < 0.15:
            o["set"] = None
    return o


def horizon(o):
    lo = hi = o["t_init"] if o["kind"] not in ("phantom", "environment") else 0
    if o["kind"] == "dynamic-traj":
        hi = max(hi, o["traj"]["t0"] + len(o["traj"]["states"]) - 1)
        lo = min(lo, o["traj"]["t0"])
    elif o.get("set"):
        for oc in o["set"]["occs"]:
            hi = max(hi, oc["time"][-1])
            lo = min(lo, oc["time"][0])
    return lo, hi


def horizon_ts(o):
    lo, hi = horizon(o)
    return list(range(lo - 3, hi + 4))


def probe_ts(o):
    """The few steps a history is re-judged at after every mutation: around the initial step and both horizon ends."""
    lo, hi = horizon(o)
    ti = o["t_init"] if o["kind"] not in ("phantom", "environment") else lo
    ts = {ti - 1, ti, ti + 1, lo, hi, hi + 1, (lo + hi) // 2}
    if o.get("set"):                       # every stored occupancy is looked at (an edit of any of them has to show)
        for oc in o["set"]["occs"][:8]:
            ts.update((oc["time"][0], oc["time"][-1]))
    return sorted(ts)


# ------------------------------------------------------------------------------------------------ real objects

def np_pos(p):
    import numpy as np
    num = p.get("num", "float")
    if num == "int":
        return np.array([int(p["pos"][0]), int(p["pos"][1])])
    if num == "f32":
        return np.array(p["pos"], dtype=np.float32)
    return np.array(p["pos"], dtype=float)


def np_num(v, num):
    import numpy as np
    if num == "int":
        return int(v)
    if num == "f32":
        return np.float32(v)
    if num == "np64":
        return np.float64(v)
    return v


def build_state(cls, t, p, extra=False, minimal=False):
    import commonroad.scenario.state as S
    pos, num = np_pos(p), p.get("num", "float")
    xtra = {"lanelet_guess": 7, "acceleration": 0.5} if extra else {}
    if cls == "PMState":
        return S.PMState(time_step=t, position=pos, velocity=np_num(p["vx"], num), velocity_y=np_num(p["vy"], num))
    if cls == "CustomPM":          # a state WITHOUT orientation: the heading is atan2(velocity_y, velocity)
        return S.CustomState(time_step=t, position=pos, velocity=np_num(p["vx"], num), velocity_y=np_num(p["vy"], num), **xtra)
    ori = np_num(p["ori"], "float" if num == "f32" else num)     # a float32 ANGLE would make the sum with the shape's angle float32
    if cls == "CustomState":
        return S.CustomState(time_step=t, position=pos, orientation=ori, velocity=1.0, **xtra)
    if cls == "InitialState":
        if minimal:
            return S.InitialState(time_step=t, position=pos, orientation=ori)
        return S.InitialState(time_step=t, position=pos, orientation=ori, velocity=0.0, acceleration=0.0, yaw_rate=0.0, slip_angle=0.0)
    if cls == "KSTState":
        return S.KSTState(time_step=t, position=pos, orientation=ori, velocity=1.0, steering_angle=0.1, hitch_angle=0.3)
    if cls == "STDState":
        return S.STDState(time_step=t, position=pos, orientation=ori, velocity=1.0, steering_angle=0.0, slip_angle=0.1, yaw_rate=0.2,
                          front_wheel_angular_speed=3.0, rear_wheel_angular_speed=3.0)
    if cls == "MBState":           # has an orientation AND a velocity_y: the orientation is the heading
        return S.MBState(time_step=t, position=pos, orientation=ori, velocity=1.0, velocity_y=2.5, yaw_rate=0.1, steering_angle=0.0)
    if cls == "ExtendedPMState":
        return S.ExtendedPMState(time_step=t, position=pos, orientation=ori, velocity=1.5, acceleration=0.0)
    return getattr(S, cls)(time_step=t, position=pos, orientation=ori, velocity=1.0)


def build_signal(t):
    from commonroad.scenario.state import SignalState
    return SignalState(time_step=t, horn=bool(t % 2), indicator_left=True, indicator_right=False, braking_lights=False,
                       hazard_warning_lights=False, flashing_blue_lights=False)


def build_occs(sp):
    """The Occupancy list of a set-based spec; entries with the same label are ONE object."""
    from commonroad.common.util import Interval
    from commonroad.prediction.prediction import Occupancy
    by_lab, out = {}, []
    for i, oc in enumerate(sp["occs"]):
        lab = oc.get("lab", ("u", i))
        if lab not in by_lab:
            by_lab[lab] = Occupancy(oc["time"][0] if len(oc["time"]) == 1 else Interval(oc["time"][0], oc["time"][1]),
                                    geom.build_shape(oc["shape"]))
        out.append(by_lab[lab])
    return out


def build_setpred(sp):
    from commonroad.prediction.prediction import SetBasedPrediction
    return SetBasedPrediction(sp["t0"], build_occs(sp))


def build_traj(tr):
    from commonroad.scenario.trajectory import Trajectory
    return Trajectory(tr["t0"], [build_state(tr["cls"], tr["t0"] + i, p, extra=tr.get("extra", False)) for i, p in enumerate(tr["states"])])


def build_trajpred(tr, obstacle_shape, shape_spec):
    from commonroad.prediction.prediction import TrajectoryPrediction
    ps = tr.get("pshape", "same")
    shape = obstacle_shape if ps == "same" else geom.build_shape(shape_spec) if ps == "copy" else geom.build_shape(ps)
    asg = {None: None, "empty": {}, "some": {tr["t0"]: {100}, tr["t0"] + 1: {100, 101}}}
    kw = {"wheelbase": [2.5, 4.0]} if tr.get("kw") else {}
    if tr.get("cla") is None and tr.get("sla") is None and not kw:
        return TrajectoryPrediction(build_traj(tr), shape)
    return TrajectoryPrediction(build_traj(tr), shape, center_lanelet_assignment=asg[tr.get("cla")],
                                shape_lanelet_assignment=asg[tr.get("sla")], **kw)


def build_prediction(o, obstacle_shape):
    if o["kind"] == "dynamic-traj":
        return build_trajpred(o["traj"], obstacle_shape, o["shape"])
    if o["kind"] == "dynamic-set":
        return build_setpred(o["set"])
    return None


def opt_kwargs(o):
    from commonroad.scenario.state import MetaInformationState
    opt, t0 = o.get("opt") or {}, o["t_init"]
    if not opt:
        return {}
    ids = lambda v: None if v is None else set(v)  # noqa
    ser = lambda n, f: None if n is None else [f(i) for i in range(n)]  # noqa
    kw = {"initial_center_lanelet_ids": ids(opt.get("center_ids")), "initial_shape_lanelet_ids": ids(opt.get("shape_ids")),
          "initial_signal_state": {None: None, "at-init": build_signal(t0), "other": build_signal(t0 + 2)}[opt.get("signal")],
          "signal_series": ser(opt.get("signal_series"), lambda i: build_signal(t0 + 1 + i))}
    if o["kind"].startswith("dynamic"):
        kw.update({"initial_meta_information_state": MetaInformationState(meta_data_str={"a": "b"}, meta_data_int={"n": 1})
                   if opt.get("meta") else None,
                   "meta_information_series": ser(opt.get("meta_series"), lambda i: MetaInformationState(meta_data_int={"i": i})),
                   "external_dataset_id": opt.get("ext_id"),
                   "history": ser(opt.get("history"), lambda i: build_state("InitialState", t0 - 2 + i, {"pos": [float(i), 1.0], "ori": 0.25})),
                   "signal_history": ser(opt.get("signal_history"), lambda i: build_signal(t0 - 2 + i)),
                   "center_lanelet_ids_history": ser(opt.get("cl_hist"), lambda i: {100}),
                   "shape_lanelet_ids_history": ser(opt.get("sl_hist"), lambda i: {100, 101})})
        if opt.get("kw"):
            kw["wheelbase"] = [2.5]
    return kw


def build_obstacle(o):
    from commonroad.scenario.obstacle import (DynamicObstacle, EnvironmentObstacle, ObstacleType, PhantomObstacle, StaticObstacle)
    otype = list(ObstacleType)[o["type"]]
    shape = geom.build_shape(o["shape"])
    k = o["kind"]
    if k == "environment":
        return EnvironmentObstacle(o["id"], otype, shape)
    if k == "phantom":
        return PhantomObstacle(o["id"], build_setpred(o["set"]) if o.get("set") else None)
    init = build_state("InitialState", o["t_init"], o["init"], minimal=o.get("init_min", False))
    if k == "static":
        return StaticObstacle(o["id"], otype, shape, init, **opt_kwargs(o))
    pred = build_prediction(o, shape)
    kw = opt_kwargs(o)
    if not kw and pred is None and o["id"] % 2 == 0:
        return DynamicObstacle(o["id"], otype, shape, init)          # the prediction argument left at its default
    return DynamicObstacle(o["id"], otype, shape, init, pred, **kw)


def ts_model(oc):
    return list(oc["time"])


def model_pred(o):
    k = o["kind"]
    if k == "dynamic-traj":
        tr = o["traj"]
        return {"k": "traj", "t0": tr["t0"], "ts": [tr["t0"] + i for i in range(len(tr["states"]))]}
    if k == "dynamic-set":
        return {"k": "set", "occs": [ts_model(oc) for oc in o["set"]["occs"]]}
    return {"k": "none"}


def model_obst(o):
    k = o["kind"]
    if k == "static":
        return {"k": "static", "t0": o["t_init"]}
    if k == "environment":
        return {"k": "env"}
    if k == "phantom":
        return {"k": "phantom", "occs": [ts_model(oc) for oc in o["set"]["occs"]] if o.get("set") else None}
    return {"k": "dynamic", "t0": o["t_init"], "pred": model_pred(o)}


def tag_dims(ctx, o):
    """Buckets of the construction-time dimensions one obstacle spec exercises."""
    ctx.tag("role/" + o["kind"], "shape/" + o["shape"]["k"])
    if o["id"] == 0:
        ctx.tag("dim/id-zero")
    if o["id"] >= 2 ** 31:
        ctx.tag("dim/id-large")
    if o["type"] >= 8:
        ctx.tag("dim/type-upper")
    opt = o.get("opt") or {}
    if opt:
        ctx.tag("dim/optional-args")
        if opt.get("center_ids") or opt.get("shape_ids"):
            ctx.tag("dim/lanelet-ids")
        if opt.get("signal") or opt.get("signal_series"):
            ctx.tag("dim/signal")
        if opt.get("meta") or opt.get("meta_series") or opt.get("ext_id") is not None:
            ctx.tag("dim/meta")
        if opt.get("history") or opt.get("signal_history") or opt.get("cl_hist") or opt.get("sl_hist"):
            ctx.tag("dim/history-arg")
        if opt.get("kw"):
            ctx.tag("dim/kwargs")
    if o["kind"] not in ("phantom", "environment"):
        ctx.tag("dim/num-" + o["init"].get("num", "float"))
        if o.get("init_min"):
            ctx.tag("dim/init-minimal")
    if o["kind"] == "dynamic-traj":
        tr = o["traj"]
        ctx.tag("state/" + tr["cls"])
        for p in tr["states"]:
            ctx.tag("dim/num-" + p.get("num", "float"))
            if tr["cls"] in PM_LIKE:
                ctx.tag("dim/pm-speed-" + pm_speed_class(p["vx"], p["vy"]))
        if tr.get("extra"):
            ctx.tag("dim/custom-extra")
        if tr["t0"] == o["t_init"]:
            ctx.tag("dim/traj-starts-at-init")
        if tr["t0"] < o["t_init"]:
            ctx.tag("dim/traj-starts-before-init")
        ps = tr.get("pshape", "same")
        if ps != "same":
            ctx.tag("dim/pred-shape-copy" if ps == "copy" else "dim/pred-shape-other")
        if tr.get("cla") or tr.get("sla"):
            ctx.tag("dim/lanelet-assignment")
        if tr.get("kw"):
            ctx.tag("dim/kwargs")
    sp = o.get("set")
    if sp:
        if sp.get("unsorted"):
            ctx.tag("set/unsorted")
        if not sp["occs"]:
            ctx.tag("dim/set-empty")
        if any(oc.get("nested") for oc in sp["occs"]):
            ctx.tag("dim/set-nested")
        if sp.get("dup"):
            ctx.tag("dim/set-duplicate-object")
        if sp["occs"] and sp["t0"] != min(oc["time"][0] for oc in sp["occs"]):
            ctx.tag("dim/set-t0-inconsistent")


# ------------------------------------------------------------------------------------------------ geometry oracle

def shape_points(shape):
    """Canonical numeric description of a commonroad shape: list of ('rect'|'circ'|'poly', numbers...)."""
    from commonroad.geometry.shape import Circle, Polygon, Rectangle, ShapeGroup
    if isinstance(shape, Rectangle):
        return [("rect", float(shape.length), float(shape.width), float(shape.center[0]), float(shape.center[1]),
                 float(shape.orientation))]
    if isinstance(shape, Circle):
        return [("circ", float(shape.radius), float(shape.center[0]), float(shape.center[1]))]
    if isinstance(shape, Polygon):
        return [("poly",) + tuple(float(x) for v in shape.vertices for x in v)]
    if isinstance(shape, ShapeGroup):
        out = []
        for s in shape.shapes:
            out += shape_points(s)
        return out
    raise TypeError(type(shape))


def poly_centroid(vs):
    a = 0.0
    cx = cy = 0.0
    n = len(vs)
    for i in range(n):
        x0, y0 = vs[i]
        x1, y1 = vs[(i + 1) % n]
        cr = x0 * y1 - x1 * y0
        a += cr
        cx += (x0 + x1) * cr
        cy += (y0 + y1) * cr
    a *= 0.5
    return cx / (6 * a), cy / (6 * a)


def wrap2pi(x):
    while x > 2 * math.pi:
        x -= 2 * math.pi
    while x < -2 * math.pi:
        x += 2 * math.pi
    return x


def expected_placement(spec, pos, th):
    """The shape rotated by th about its own centre, then moved by pos (independent of the library)."""
    k = spec["k"]
    if k == "rect":
        return [("rect", spec["l"], spec["w"], spec["c"][0] + pos[0], spec["c"][1] + pos[1], wrap2pi(spec["o"] + th))]
    if k == "circ":
        return [("circ", spec["r"], spec["c"][0] + pos[0], spec["c"][1] + pos[1])]
    if k == "poly":
        vs = [tuple(v) for v in spec["v"]]
        cx, cy = poly_centroid(vs)
        c, s = math.cos(th), math.sin(th)
        out = []
        for x, y in vs:
            dx, dy = x - cx, y - cy
            out += [cx + c * dx - s * dy + pos[0], cy + s * dx + c * dy + pos[1]]
        return [("poly",) + tuple(out)]
    out = []
    for sub in spec["s"]:
        out += expected_placement(sub, pos, th)
    return out


def wire_shape(spec):
    """Shape spec with exact rationals for the driver."""
    k = spec["k"]
    if k == "rect":
        return {"k": "rect", "l": rat(spec["l"]), "w": rat(spec["w"]), "c": [rat(spec["c"][0]), rat(spec["c"][1])], "o": rat(spec["o"])}
    if k == "circ":
        return {"k": "circ", "r": rat(spec["r"]), "c": [rat(spec["c"][0]), rat(spec["c"][1])]}
    if k == "poly":
        return {"k": "poly", "v": [[rat(x), rat(y)] for x, y in spec["v"]]}
    return {"k": "group", "s": [wire_shape(x) for x in spec["s"]]}


def model_points(m):
    """The model's placed shape in the form of shape_points()."""
    from common import unrat
    k = m["k"]
    if k == "rect":
        return [("rect", float(unrat(m["l"])), float(unrat(m["w"])), float(unrat(m["c"][0])), float(unrat(m["c"][1])), float(unrat(m["o"])))]
    if k == "circ":
        return [("circ", float(unrat(m["r"])), float(unrat(m["c"][0])), float(unrat(m["c"][1])))]
    if k == "poly":
        return [("poly",) + tuple(float(unrat(x)) for v in m["v"] for x in v)]
    out = []
    for x in m["s"]:
        out += model_points(x)
    return out


def ring_equal(a, b):
    """Vertex rings equal up to the closing vertex, the starting vertex and the direction (the library re-orients rings)."""
    def strip(r):
        r = list(r)
        if len(r) > 1 and abs(r[0][0] - r[-1][0]) < TOL and abs(r[0][1] - r[-1][1]) < TOL:
            r = r[:-1]
        return r
    a, b = strip(a), strip(b)
    if len(a) != len(b):
        return False
    n = len(a)

    def eq(p, q):
        return abs(p[0] - q[0]) <= TOL * max(1.0, abs(q[0])) and abs(p[1] - q[1]) <= TOL * max(1.0, abs(q[1]))
    for cand in (b, b[::-1]):
        for k in range(n):
            if all(eq(a[i], cand[(i + k) % n]) for i in range(n)):
                return True
    return False


def same_geometry(got, want):
    if len(got) != len(want):
        return False
    for g, w in zip(got, want):
        if g[0] != w[0]:
            return False
        if g[0] == "poly":
            if not ring_equal(list(zip(g[1::2], g[2::2])), list(zip(w[1::2], w[2::2]))):
                return False
        elif g[0] == "rect":
            if any(abs(a - b) > TOL * max(1.0, abs(b)) for a, b in zip(g[1:5], w[1:5])):
                return False
            d = (g[5] - w[5]) % (2 * math.pi)
            if min(d, 2 * math.pi - d) > TOL:
                return False
        else:
            if any(abs(a - b) > TOL * max(1.0, abs(b)) for a, b in zip(g[1:], w[1:])):
                return False
    return True


def pose_of(o, ref):
    """(pos, heading) of the referenced state, straight from the generating spec."""
    if ref == "init":
        return o["init"]["pos"], o["init"]["ori"]
    p = o["traj"]["states"][ref[1]]
    if o["traj"]["cls"] in PM_LIKE:
        return p["pos"], math.atan2(p["vy"], p["vx"])
    return p["pos"], p["ori"]


def placed_shape_spec(o, ref):
    """The shape that is placed: the obstacle's at the initial step, the prediction's afterwards (see ASSUMPTIONS)."""
    if ref != "init" and isinstance(o["traj"].get("pshape"), dict):
        return o["traj"]["pshape"]
    return o["shape"]


def time_in(oc, t):
    return (len(oc["time"]) == 1 and oc["time"][0] == t) or (len(oc["time"]) == 2 and oc["time"][0] <= t <= oc["time"][1])


def expectation(o, t):
    """From the property text: (occupancy defined?, pose reference or None, state defined? / None when the role has no states)."""
    k = o["kind"]
    if k == "static":
        return True, "init", True
    if k == "environment":
        return True, None, None
    if k == "phantom":
        return bool(o.get("set")) and any(time_in(oc, t) for oc in o["set"]["occs"]), None, None
    if t == o["t_init"]:
        return True, "init", True
    if t < o["t_init"]:
        return False, None, False
    if k == "dynamic-traj":
        tr = o["traj"]
        if tr["t0"] <= t < tr["t0"] + len(tr["states"]):
            return True, ["traj", t - tr["t0"]], True
        return False, None, False
    if k == "dynamic-set":
        return any(time_in(oc, t) for oc in o["set"]["occs"]), None, False
    return False, None, False


# ------------------------------------------------------------------------------------------------ per-obstacle check

def classify(obj, o, t):
    """Implementation answers in the model's vocabulary (by object identity through public accessors)."""
    from commonroad.scenario.obstacle import EnvironmentObstacle, PhantomObstacle
    with warnings.catch_warnings():
        warnings.simplefilter("ignore")
        r = call(obj.occupancy_at_time, t)
        if isinstance(obj, PhantomObstacle):
            rs = call(obj.state_at_time)
        elif isinstance(obj, EnvironmentObstacle):
            rs = ("ok", None)
        else:
            rs = call(obj.state_at_time, t)
        if r[0] != "ok":
            return {"err": r[1], "msg": r[2]}, None, None
        if rs[0] != "ok":
            return {"err": rs[1], "msg": rs[2]}, None, None
        occ, st = r[1], rs[1]
        oc = None
        if occ is not None:
            pred = getattr(obj, "prediction", None)
            if isinstance(obj, EnvironmentObstacle):
                oc = "shape" if occ.shape is obj.obstacle_shape else "?"
            elif not isinstance(obj, PhantomObstacle) and occ.shape is obj.occupancy_at_time(obj.initial_state.time_step).shape:
                oc = "init"
            elif pred is not None and any(occ is x for x in pred.occupancy_set):
                i = [j for j, x in enumerate(pred.occupancy_set) if occ is x][0]
                oc = ["placed" if o["kind"] == "dynamic-traj" else "stored", i]
            else:
                oc = "?"
        sr = None
        if st is not None:
            if st is obj.initial_state:
                sr = "init"
            else:
                pred = getattr(obj, "prediction", None)
                idx = [j for j, x in enumerate(pred.trajectory.state_list) if x is st] if pred is not None and hasattr(pred, "trajectory") else []
                sr = ["traj", idx[0]] if idx else "?"
    return {"occ": oc, "st": sr}, occ, st


def judge(ctx, obj, o, ts, mk_sub, after=None, place_corr=True):
    """The oracle for ONE obstacle in its CURRENT state `o` at the steps `ts`; returns the classified answers (for the
    correspondence with CR.Occ).  `after` names the last mutation of a history (part of the finding key)."""
    import numpy as np
    from commonroad.common.util import Interval
    k = o["kind"]
    sfx = f"/after-{after}" if after else ""
    lo, hi = horizon(o)
    impl = []
    if k.startswith("dynamic") or k == "phantom":
        have = type(obj.prediction).__name__
        want = {"dynamic-traj": "TrajectoryPrediction", "dynamic-set": "SetBasedPrediction", "dynamic-none": "NoneType",
                "phantom": "SetBasedPrediction" if o.get("set") else "NoneType"}[k]
        if have != want:
            ctx.fail(f"C04/{k}.prediction/not-the-prediction-that-was-set{sfx}", f"the obstacle holds a {have}, the history set a {want}",
                     mk_sub(ts[0] if ts else 0))
            return [{"err": "prediction-kind"}]
    for t in ts:
        ans, occ, st = classify(obj, o, t)
        sub = mk_sub(t)
        ctx.tag("t/before" if t < lo else "t/initial" if t == lo else "t/after" if t > hi else "t/inside")
        if "err" in ans:
            impl.append({"err": ans["err"]})
            ctx.fail(f"C04/{k}.occupancy_at_time/raises-{ans['err']}{sfx}", f"t={t}: {ans['msg']}", sub)
            continue
        impl.append(ans)
        want_occ, want_pose, want_state = expectation(o, t)
        if (occ is not None) != want_occ:
            ctx.fail(f"C04/{k}.occupancy_at_time/" + ("missing-inside-horizon" if want_occ else "present-outside-horizon") + sfx,
                     f"t={t}: occupancy {'None' if occ is None else 'returned'}, horizon says {'defined' if want_occ else 'None'}", sub)
            continue
        if occ is not None:
            if k in ("dynamic-set", "phantom") and want_pose is None:
                ts_ = occ.time_step
                inside = ts_.contains(t) if isinstance(ts_, Interval) else ts_ == t
                idx = [j for j, x in enumerate(obj.prediction.occupancy_set) if occ is x]
                if not (inside and idx):
                    ctx.fail(f"C04/{k}.occupancy_at_time/wrong-stored-occupancy{sfx}", f"t={t}: returned occupancy has time {ts_}", sub)
                elif idx[0] < len(o["set"]["occs"]) and not same_geometry(
                        shape_points(occ.shape), expected_placement(o["set"]["occs"][idx[0]]["shape"], [0.0, 0.0], 0.0)):
                    ctx.fail(f"C04/{k}.occupancy_at_time/stored-occupancy-wrong-region{sfx}",
                             f"t={t}: the stored occupancy no. {idx[0]} does not have the region it was given", sub)
            elif k == "environment":
                if occ.shape is not obj.obstacle_shape or not same_geometry(shape_points(occ.shape), expected_placement(o["shape"], [0.0, 0.0], 0.0)):
                    ctx.fail(f"C04/environment.occupancy_at_time/wrong-region{sfx}", f"t={t}", sub)
            else:
                pos, th = pose_of(o, want_pose)
                spec = placed_shape_spec(o, want_pose)
                if place_corr:
                    # correspondence with the placement model (CR.Place.place; cos/sin are parameters evaluated here)
                    mp = ctx.driver.ask("C04", "place", {"c": rat(math.cos(th)), "s": rat(math.sin(th)), "a": rat(th), "tau": rat(2.0 * math.pi),
                                                          "t": [rat(pos[0]), rat(pos[1])], "shape": wire_shape(spec)})
                    okm = same_geometry(shape_points(occ.shape), model_points(mp))
                    ctx.compare(sub, "placement within 1e-9" if okm else shape_points(occ.shape),
                                "placement within 1e-9" if okm else model_points(mp), "occupancy geometry vs CR.Place.place")
                    ctx.tag("place/" + spec["k"])
                if not same_geometry(shape_points(occ.shape), expected_placement(spec, pos, th)):
                    ctx.fail(f"C04/{k}.occupancy_at_time/wrong-placement{sfx}",
                             f"t={t}: occupancy {shape_points(occ.shape)} is not the shape placed at pos={pos}, heading={th}", sub)
                if k != "static" and occ.time_step != t:
                    ctx.fail(f"C04/{k}.occupancy_at_time/wrong-time-stamp{sfx}", f"t={t}: occupancy stamped {occ.time_step}", sub)
        # state
        if k.startswith("dynamic"):
            if (st is not None) != want_state:
                ctx.fail(f"C04/{k}.state_at_time/" + ("missing" if want_state else "present-outside-horizon") + sfx, f"t={t}", sub)
            elif st is not None and st.time_step != t:
                ctx.fail(f"C04/{k}.state_at_time/wrong-time-step{sfx}", f"asked t={t}, got the state of time step {st.time_step}", sub)
        elif k == "static" and st is not obj.initial_state:
            ctx.fail(f"C04/static.state_at_time/not-initial-state{sfx}", f"t={t}", sub)
        # alternative entry points: the prediction and the trajectory asked directly give the very same objects
        pred = getattr(obj, "prediction", None)
        if pred is not None and (k == "phantom" or t > o["t_init"]):
            with warnings.catch_warnings():
                warnings.simplefilter("ignore")
                ctx.tag("entry/prediction.occupancy_at_time_step")
                r2 = call(pred.occupancy_at_time_step, t)
                if r2[0] != "ok" or r2[1] is not occ:
                    ctx.fail(f"C04/{k}.prediction.occupancy_at_time_step/differs-from-obstacle-level{sfx}",
                             f"t={t}: {r2[2] if r2[0] != 'ok' else 'another object / None'}", sub)
                if k == "dynamic-traj":
                    ctx.tag("entry/trajectory.state_at_time_step")
                    r3, r4 = call(pred.trajectory.state_at_time_step, t), call(pred.trajectory.states_in_time_interval, t, t)
                    if r3[0] != "ok" or r3[1] is not st or r4[0] != "ok" or len(r4[1]) != 1 or r4[1][0] is not st:
                        ctx.fail(f"C04/{k}.trajectory.state_at_time_step/differs-from-obstacle-level{sfx}", f"t={t}", sub)
        # numpy integer query steps: the int answer, or a clean rejection (ASSUMPTIONS)
        if (t + o["id"]) % 7 == 0:
            ctx.tag("dim/numpy-step")
            for nt in (np.int64(t), np.int32(t)):
                with warnings.catch_warnings():
                    warnings.simplefilter("ignore")
                    rn = call(obj.occupancy_at_time, nt)
                if rn[0] == "err" and rn[1] == "assert":
                    continue
                if rn[0] == "err":
                    ctx.fail(f"C04/{k}.occupancy_at_time/numpy-step-raises-{rn[1]}{sfx}", f"t={type(nt).__name__}({t}): {rn[2]}", sub)
                elif (rn[1] is None) != (occ is None) or (occ is not None and (
                        rn[1].time_step != occ.time_step or not same_geometry(shape_points(rn[1].shape), shape_points(occ.shape)))):
                    ctx.fail(f"C04/{k}.occupancy_at_time/numpy-step-different-answer{sfx}", f"t={type(nt).__name__}({t})", sub)
    return impl


# ------------------------------------------------------------------------------------------------ histories of one obstacle

def new_occ(r, sp, t):
    oc = {"time": [t] if r.random() < 0.6 else [t, t + r.randint(0, 2)], "shape": geom.gen_shape(r), "lab": sp["next"]}
    return oc


def gen_hop(r, o):
    """One public mutation that fits the obstacle's current state `o`."""
    k = o["kind"]
    ti = o.get("t_init", 0)
    common = ["translate_rotate", "noop_setters", "readonly", "clone"]
    if k == "environment":
        name = r.choice(common)
    elif k == "phantom":
        name = r.choice(common + ["phantom_prediction"] * 2 + (["occ_set"] * 4 if o.get("set") else []))
    elif k == "static":
        name = r.choice(common + ["set_initial"] * 3 + ["reassign"])
    else:
        name = r.choice(common + ["set_initial", "set_initial", "update_initial", "update_initial", "update_initial_fail", "set_prediction",
                                  "set_prediction", "reassign"] +
                        (["set_trajectory"] * 4 + ["set_pred_shape"] * 3 if k == "dynamic-traj" else []) +
                        (["occ_set"] * 4 if k == "dynamic-set" else []))
    op = {"op": name}
    if name == "translate_rotate":
        op.update(tr=[r.randint(-80, 80) / 16.0, r.randint(-80, 80) / 16.0], angle=r.choice([0.0, math.pi / 2, -1.0, 2.5, r.uniform(-6.2, 6.2)]))
    elif name == "clone":
        op["how"] = r.choice(["deepcopy", "pickle", "copy"])
    elif name == "reassign":
        op["what"] = r.choice({"static": ["initial_state"], "dynamic-none": ["initial_state", "prediction"],
                               "dynamic-set": ["initial_state", "prediction", "occupancy_set"],
                               "dynamic-traj": ["initial_state", "prediction", "trajectory", "pred_shape"]}[k])
    elif name == "set_initial":
        op.update(t=max(0, ti + r.choice([0, 0, 1, 2, -1, 4])), pose=gen_pose(r), inplace=r.random() < 0.4, minimal=r.random() < 0.2)
    elif name == "update_initial":
        op.update(t=max(0, ti + r.choice([1, 1, 1, 0, 2, 5, -1])), pose=gen_pose(r), signal=r.random() < 0.5, cl=gen_ids(r), sl=gen_ids(r),
                  maxlen=r.choice([None, None, 1, 2, 6000]), form=r.choice(["pos", "kw"]))
    elif name == "update_initial_fail":
        op.update(why=r.choice(["maxlen0", "not-initial-state"]), t=ti + 1, pose=gen_pose(r))
    elif name == "set_trajectory":
        op["traj"] = gen_traj(r, ti, cls=r.choice([None, o["traj"]["cls"]]))
    elif name == "set_pred_shape":
        op["shape"] = geom.gen_shape(r)
    elif name == "set_prediction":
        pk = r.choice(["traj", "traj", "set", "none"])
        op.update(kind=pk, via=r.choice(["setter", "update_prediction", "update_prediction_kw"]))
        if pk == "traj":
            op["traj"] = dict(gen_traj(r, ti), pshape=r.choice(["same", "copy"]), cla=None, sla=None, kw=False)
        elif pk == "set":
            op["set"] = gen_set(r, ti + 1, lo=0)
    elif name == "phantom_prediction":
        op["set"] = None if r.random() < 0.25 else gen_set(r, r.randint(0, 5), lo=0)
    elif name == "occ_set":
        sp = o["set"]
        how = r.choice(["setter", "append", "insert0", "pop", "clear", "edit_time", "edit_shape", "append", "insert0"])
        if how in ("pop", "edit_time", "edit_shape") and not sp["occs"]:
            how = "append"
        op["how"] = how
        lo, hi = horizon(o)
        if how == "setter":
            occs = gen_set(r, ti + 1 if k != "phantom" else r.randint(0, 4), lo=0)["occs"]
            for oc in occs:
                oc["lab"] += sp["next"]
            op["occs"] = occs
        elif how in ("append", "insert0"):
            op["occ"] = new_occ(r, sp, r.randint(max(0, lo - 1), hi + 2))
        elif how == "edit_time":
            op.update(idx=r.randrange(len(sp["occs"])), time=r.choice([[hi + 1], [max(0, lo - 1), lo], [lo, hi + 1]]))
        elif how == "edit_shape":
            op.update(idx=r.randrange(len(sp["occs"])), shape=geom.gen_shape(r))
    return op


def apply_hop_spec(o, op):
    """The obstacle's state after the mutation, as the property sees it, and the model's mutation (CR.Occ.Mut)."""
    o = json.loads(json.dumps(o))
    name, mut = op["op"], {"m": "keep"}
    if name == "set_initial":
        o.update(t_init=op["t"], init=op["pose"], init_min=op.get("minimal", False))
        mut = {"m": "set_initial", "t": op["t"]}
    elif name == "update_initial":
        o.update(kind="dynamic-none", t_init=op["t"], init=op["pose"], init_min=False)
        o.pop("traj", None)
        o.pop("set", None)
        mut = {"m": "update_initial", "t": op["t"]}
    elif name == "set_trajectory":
        o["traj"].update(t0=op["traj"]["t0"], cls=op["traj"]["cls"], states=op["traj"]["states"], extra=op["traj"].get("extra", False))
        mut = {"m": "set_prediction", "pred": model_pred(o)}
    elif name == "set_pred_shape":
        o["traj"]["pshape"] = op["shape"]
    elif name == "set_prediction":
        o.pop("traj", None)
        o.pop("set", None)
        o["kind"] = "dynamic-" + op["kind"]
        if op["kind"] == "traj":
            o["traj"] = op["traj"]
        elif op["kind"] == "set":
            o["set"] = op["set"]
        mut = {"m": "set_prediction", "pred": model_pred(o)}
    elif name == "phantom_prediction":
        o["set"] = op["set"]
        mut = {"m": "set_phantom", "occs": [ts_model(oc) for oc in o["set"]["occs"]] if o["set"] else None}
    elif name == "occ_set":
        sp, how = o["set"], op["how"]
        if how == "setter":
            sp["occs"] = op["occs"]
            sp["next"] = max([sp["next"]] + [oc["lab"] + 1 for oc in op["occs"]])
        elif how == "append":
            sp["occs"].append(op["occ"])
            sp["next"] += 1
        elif how == "insert0":
            sp["occs"].insert(0, op["occ"])
            sp["next"] += 1
        elif how == "pop":
            sp["occs"].pop()
        elif how == "clear":
            sp["occs"] = []
        elif how in ("edit_time", "edit_shape"):
            lab = sp["occs"][op["idx"]].get("lab")
            for i, oc in enumerate(sp["occs"]):
                if i == op["idx"] or (lab is not None and oc.get("lab") == lab):
                    if how == "edit_time":
                        oc["time"] = op["time"]
                    else:
                        oc["shape"] = op["shape"]
        mut = {"m": "set_phantom", "occs": [ts_model(oc) for oc in sp["occs"]]} if o["kind"] == "phantom" else \
            {"m": "set_prediction", "pred": model_pred(o)}
    return o, mut


def readback(obj, o):
    """After a rigid motion: the spec with the poses / regions the obstacle's states and stored occupancies NOW have."""
    o = json.loads(json.dumps(o))
    k = o["kind"]
    if k == "environment":
        o["shape"] = geom.spec_of_shape(obj.obstacle_shape)
        return o
    if k != "phantom":
        s = obj.initial_state
        o["init"] = {"pos": [float(s.position[0]), float(s.position[1])], "ori": float(s.orientation), "num": "float"}
    if k == "dynamic-traj":
        for p, s in zip(o["traj"]["states"], obj.prediction.trajectory.state_list):
            p.update(pos=[float(s.position[0]), float(s.position[1])], num="float")
            if o["traj"]["cls"] in PM_LIKE:
                p.update(vx=float(s.velocity), vy=float(s.velocity_y))
            else:
                p["ori"] = float(s.orientation)
    if o.get("set") and obj.prediction is not None:
        for oc, x in zip(o["set"]["occs"], obj.prediction.occupancy_set):
            oc["shape"] = geom.spec_of_shape(x.shape)
    return o


def apply_hop_obj(obj, o, op):
    """Perform the mutation on the real object through its public interface. Returns (object to go on with, outcome)."""
    import numpy as np
    from commonroad.common.util import Interval
    from commonroad.prediction.prediction import Occupancy
    from commonroad.scenario.obstacle import ObstacleRole, ObstacleType
    from commonroad.scenario.state import MetaInformationState
    name, k = op["op"], o["kind"]

    def do():
        nonlocal obj
        if name == "translate_rotate":
            obj.translate_rotate(np.array(op["tr"]), op["angle"])
        elif name == "clone":
            obj = copy.deepcopy(obj) if op["how"] == "deepcopy" else pickle.loads(pickle.dumps(obj)) if op["how"] == "pickle" else copy.copy(obj)
        elif name == "reassign":
            w = op["what"]
            if w == "initial_state":
                obj.initial_state = obj.initial_state
            elif w == "prediction":
                obj.prediction = obj.prediction
            elif w == "trajectory":
                obj.prediction.trajectory = obj.prediction.trajectory
            elif w == "pred_shape":
                obj.prediction.shape = obj.prediction.shape
            elif w == "occupancy_set":
                obj.prediction.occupancy_set = obj.prediction.occupancy_set
        elif name == "set_initial":
            if op.get("inplace"):
                s = obj.initial_state
                num = op["pose"].get("num", "float")
                s.time_step, s.position, s.orientation = op["t"], np_pos(op["pose"]), np_num(op["pose"]["ori"], "float" if num == "f32" else num)
                obj.initial_state = s
            else:
                obj.initial_state = build_state("InitialState", op["t"], op["pose"], minimal=op.get("minimal", False))
        elif name == "update_initial":
            st = build_state("InitialState", op["t"], op["pose"])
            sig = build_signal(op["t"]) if op["signal"] else None
            cl, sl = (None if op["cl"] is None else set(op["cl"])), (None if op["sl"] is None else set(op["sl"]))
            if op["form"] == "kw":
                kw = dict(current_state=st, current_signal_state=sig, current_center_lanelet_ids=cl, current_shape_lanelet_ids=sl)
                if op["maxlen"] is not None:
                    kw["max_history_length"] = op["maxlen"]
                obj.update_initial_state(**kw)
            elif op["maxlen"] is not None:
                obj.update_initial_state(st, sig, cl, sl, op["maxlen"])
            elif sig is None and cl is None and sl is None:
                obj.update_initial_state(st)
            else:
                obj.update_initial_state(st, sig, cl, sl)
        elif name == "update_initial_fail":
            if op["why"] == "maxlen0":
                obj.update_initial_state(build_state("InitialState", op["t"], op["pose"]), max_history_length=0)
            else:
                obj.update_initial_state(build_state("KSState", op["t"], op["pose"]))
        elif name == "set_trajectory":
            obj.prediction.trajectory = build_traj(op["traj"])
        elif name == "set_pred_shape":
            obj.prediction.shape = geom.build_shape(op["shape"])
        elif name == "set_prediction":
            pred = None
            if op["kind"] == "traj":
                pred = build_trajpred(op["traj"], obj.obstacle_shape, o["shape"])
            elif op["kind"] == "set":
                pred = build_setpred(op["set"])
            if op["via"] == "setter":
                obj.prediction = pred
            elif op["via"] == "update_prediction":
                obj.update_prediction(pred)
            else:
                obj.update_prediction(prediction=pred, signal_series=[build_signal(o["t_init"] + 1)])
        elif name == "phantom_prediction":
            obj.prediction = build_setpred(op["set"]) if op["set"] else None
        elif name == "occ_set":
            pred, how = obj.prediction, op["how"]
            mk = lambda oc: Occupancy(oc["time"][0] if len(oc["time"]) == 1 else Interval(oc["time"][0], oc["time"][1]),  # noqa
                                      geom.build_shape(oc["shape"]))
            if how == "setter":
                pred.occupancy_set = build_occs({"occs": op["occs"]})
            elif how == "append":
                pred.occupancy_set.append(mk(op["occ"]))
            elif how == "insert0":
                pred.occupancy_set.insert(0, mk(op["occ"]))
            elif how == "pop":
                pred.occupancy_set.pop()
            elif how == "clear":
                del pred.occupancy_set[:]
            elif how == "edit_time":
                pred.occupancy_set[op["idx"]].time_step = op["time"][0] if len(op["time"]) == 1 else Interval(op["time"][0], op["time"][1])
            elif how == "edit_shape":
                pred.occupancy_set[op["idx"]].shape = geom.build_shape(op["shape"])
        elif name == "noop_setters":
            other_shape = geom.build_shape({"k": "rect", "l": 9.0, "w": 7.0, "c": [3.0, 3.0], "o": 0.5})
            if k == "phantom":
                obj.obstacle_role = ObstacleRole.STATIC
            else:
                obj.obstacle_id = o["id"] + 1
                obj.obstacle_role = ObstacleRole.Phantom
                obj.obstacle_type = ObstacleType.PILLAR if o["type"] != 14 else ObstacleType.CAR
                obj.obstacle_shape = other_shape
            if k == "static" or k.startswith("dynamic"):
                obj.initial_center_lanelet_ids = {100}
                obj.initial_shape_lanelet_ids = None
                obj.initial_signal_state = build_signal(o["t_init"])
                obj.signal_series = [build_signal(o["t_init"] + 1)]
            if k.startswith("dynamic"):
                obj.initial_meta_information_state = MetaInformationState(meta_data_bool={"x": True})
                obj.meta_information_series = []
                obj.external_dataset_id = 3
                obj.history = []
                obj.signal_history = [build_signal(0)]
            if k == "dynamic-traj":
                obj.prediction.center_lanelet_assignment = {o["traj"]["t0"]: {101}}
                obj.prediction.shape_lanelet_assignment = None
            # assignments the setters reject (AssertionError): the obstacle must be left as it was
            bad = []
            if k == "static" or k.startswith("dynamic"):
                bad += [lambda: setattr(obj, "initial_state", build_state("KSState", 0, {"pos": [0.0, 0.0], "ori": 0.0})),
                        lambda: setattr(obj, "initial_center_lanelet_ids", [100]), lambda: setattr(obj, "signal_series", (1, 2))]
            if k.startswith("dynamic") or k == "phantom":
                bad += [lambda: setattr(obj, "prediction", "no prediction")]
            if k == "dynamic-traj":
                bad += [lambda: setattr(obj.prediction, "trajectory", None), lambda: setattr(obj.prediction, "shape", None),
                        lambda: setattr(obj.prediction, "shape_lanelet_assignment", [1])]
            if o.get("set") and obj.prediction is not None:
                bad += [lambda: setattr(obj.prediction, "occupancy_set", tuple(obj.prediction.occupancy_set)),
                        lambda: setattr(obj.prediction, "occupancy_set", [None])]
                if obj.prediction.occupancy_set:
                    bad += [lambda: setattr(obj.prediction.occupancy_set[0], "time_step", 1.5),
                            lambda: setattr(obj.prediction.occupancy_set[0], "shape", None)]
            for f in bad:
                rb = call(f)
                if rb[0] == "ok":
                    raise ValueError("a setter accepted a value of the wrong type")
        elif name == "readonly":
            t = o.get("t_init", 0)
            for f in (lambda: hash(obj), lambda: obj == obj, lambda: obj == copy.copy(obj), lambda: str(obj),
                      lambda: obj.signal_state_at_time_step(t), lambda: list(obj.prediction.occupancy_set),
                      lambda: obj.prediction.final_time_step, lambda: obj.prediction.initial_time_step,
                      lambda: obj.prediction.trajectory.final_state, lambda: obj.prediction.trajectory.states_in_time_interval(t - 1, t + 3),
                      lambda: obj.occupancy_at_time(t + 1), lambda: obj.state_at_time(t + 1)):
                call(f)           # their own results are other properties' subject; here they only have to leave the answers alone
    with warnings.catch_warnings():
        warnings.simplefilter("ignore")
        r = call(do)
    return obj, r


def hop_tag(op):
    n = op["op"]
    if n == "set_initial" and op.get("inplace"):
        return "hop/set_initial-inplace"
    if n == "set_prediction" and op.get("via", "setter") != "setter":
        return "hop/update_prediction"
    return "hop/" + n


def gen_history(r, o):
    ops, cur = [], o
    for _ in range(r.randint(2, 6)):
        op = gen_hop(r, cur)
        ops.append(op)
        cur, _ = apply_hop_spec(cur, op)
    return ops


def shape_still_reported(ctx, obj, o, sub, sfx):
    """`obstacle_shape` is what is placed: the attribute the obstacle reports must still be the shape the occupancies are made of."""
    if o["kind"] in ("phantom",):
        return
    if not same_geometry(shape_points(obj.obstacle_shape), expected_placement(o["shape"], [0.0, 0.0], 0.0)) or \
            obj.obstacle_id != o["id"]:
        ctx.fail(f"C04/{o['kind']}.obstacle_shape/differs-from-placed-shape{sfx}",
                 "the obstacle reports another obstacle_shape / obstacle_id than the one it was built with and is placed", sub)


def run_history(ctx, case):
    o, ops = case["obst"], case["ops"]
    tag_dims(ctx, o)
    try:
        obj = build_obstacle(o)
    except Exception as e:  # noqa
        ctx.fail(f"C04/constructor/raises-{type(e).__name__}", f"building a valid {o['kind']} obstacle raised {e}", case)
        return
    o0, muts = o, []
    judge(ctx, obj, o, probe_ts(o), lambda t: dict(case, ops=[]), place_corr=False)          # the first query (fills every cache)
    for i, op in enumerate(ops):
        sub = dict(case, ops=ops[:i + 1])
        ctx.tag(hop_tag(op))
        obj, r = apply_hop_obj(obj, o, op)
        name = op["op"]
        if name == "update_initial_fail":
            if not (r[0] == "err" and r[1] == "assert"):
                ctx.fail(f"C04/{o['kind']}.update_initial_state/accepts-{op['why']}",
                         f"update_initial_state({op['why']}) -> {r[0] if r[0] == 'ok' else r[2]} (AssertionError documented)", sub)
                return
        elif r[0] != "ok":
            ctx.fail(f"C04/{o['kind']}.{name}/raises-{r[1]}", f"{op}: {r[2]}", sub)
            return
        o, mut = apply_hop_spec(o, op)
        if name == "translate_rotate":
            o = readback(obj, o)
        muts.append(mut)
        sfx = f"/after-{name}"
        shape_still_reported(ctx, obj, o, sub, sfx)
        ts = probe_ts(o)
        impl = judge(ctx, obj, o, ts, lambda t: sub, after=name, place_corr=(i == len(ops) - 1))
        model = ctx.driver.ask("C04", "history", {"obst": model_obst(o0), "muts": muts, "ts": ts})
        ctx.compare(sub, impl, model, f"answers after {[x['op'] for x in ops[:i + 1]]} vs CR.Occ.Obst.run")


def run_obstacle(ctx, case):
    o, ts = case["obst"], case["ts"]
    tag_dims(ctx, o)
    try:
        obj = build_obstacle(o)
    except Exception as e:  # noqa
        ctx.fail(f"C04/constructor/raises-{type(e).__name__}", f"building a valid {o['kind']} obstacle raised {e}", case)
        return
    model = ctx.driver.ask("C04", "obstacle_at", {"obst": model_obst(o), "ts": ts})
    shape_still_reported(ctx, obj, o, case, "")
    impl = judge(ctx, obj, o, ts, lambda t: {"kind": "obstacle", "obst": o, "ts": [t]})
    ctx.compare(case, impl, model, "occupancy_at_time/state_at_time vs CR.Occ")
    # the same obstacle after update_initial_state: the occupancy at the new initial step is the shape placed at the NEW initial state
    if o["kind"].startswith("dynamic") and o["id"] % 2 == 1 or o["kind"] == "dynamic-none":
        npose = {"pos": [o["init"]["pos"][0] + 2.5, o["init"]["pos"][1] - 1.5], "ori": o["init"]["ori"]}
        nt = o["t_init"] + 1
        obj2 = build_obstacle(o)
        obj2.occupancy_at_time(o["t_init"])
        r5 = call(obj2.update_initial_state, build_state("InitialState", nt, npose))
        ctx.tag("history/update-initial-state")
        sub = {"kind": "obstacle", "obst": o, "ts": [nt]}
        if r5[0] != "ok":
            ctx.fail(f"C04/{o['kind']}.update_initial_state/raises-{r5[1]}", r5[2], sub)
        else:
            occ5, st5 = obj2.occupancy_at_time(nt), obj2.state_at_time(nt)
            if occ5 is None or st5 is None or st5.time_step != nt or not same_geometry(
                    shape_points(occ5.shape), expected_placement(o["shape"], npose["pos"], npose["ori"])):
                ctx.fail(f"C04/{o['kind']}.occupancy_at_time/stale-after-update_initial_state",
                         f"t={nt}: after update_initial_state the occupancy is not the shape placed at the new initial state", sub)
    # the same obstacle after its prediction's trajectory has been replaced through the public setter: occupancy and state
    # must again be the shape placed at the (new) state of that step  (query -> replace -> query)
    if o["kind"] == "dynamic-traj":
        from commonroad.scenario.trajectory import Trajectory
        tr = o["traj"]
        o2 = json.loads(json.dumps(o))
        sts2 = [dict(p, pos=[p["pos"][0] + 1.5, p["pos"][1] - 0.5], num="float") for p in tr["states"]][: max(1, len(tr["states"]) - 1)]
        o2["traj"]["states"] = sts2
        obj.prediction.trajectory = Trajectory(tr["t0"], [build_state(tr["cls"], tr["t0"] + i, p, extra=tr.get("extra", False))
                                                          for i, p in enumerate(sts2)])
        ctx.tag("history/trajectory-replaced")
        for t in (tr["t0"], tr["t0"] + len(sts2) - 1, tr["t0"] + len(sts2)):
            if t <= o["t_init"]:
                continue
            occ, st = obj.occupancy_at_time(t), obj.state_at_time(t)
            inside = t < tr["t0"] + len(sts2)
            sub = {"kind": "obstacle", "obst": o, "ts": [t]}
            if (occ is not None) != inside or (st is not None) != inside:
                ctx.fail("C04/dynamic-traj.occupancy_at_time/stale-after-trajectory-replaced",
                         f"t={t}: after prediction.trajectory = <shorter, shifted trajectory> occupancy is "
                         f"{'None' if occ is None else 'returned'}, state {'None' if st is None else 'returned'}", sub)
                break
            if inside:
                pos, th = pose_of(o2, ["traj", t - tr["t0"]])
                if not same_geometry(shape_points(occ.shape), expected_placement(placed_shape_spec(o2, ["traj", 0]), pos, th)):
                    ctx.fail("C04/dynamic-traj.occupancy_at_time/stale-after-trajectory-replaced",
                             f"t={t}: occupancy is not the shape placed at the new trajectory state", sub)
                    break


# ------------------------------------------------------------------------------------------------ uncertain states

UNCERTAIN_SHAPES = [
    {"k": "poly", "v": [[-2.0, -1.0], [2.0, -1.0], [2.0, 1.0], [-2.0, 1.0]]},
    {"k": "poly", "v": [[-1.5, -0.75], [1.5, -0.75], [2.5, 0.0], [1.5, 0.75], [-1.5, 0.75], [-2.5, 0.0]]},
    {"k": "poly", "v": [[-1.0, -1.0], [3.0, -1.0], [3.0, 1.0], [-1.0, 1.0]]},                  # reference point not at the centre
    {"k": "poly", "v": [[0.0, 0.0], [4.0, 0.0], [4.0, 1.0], [1.0, 2.0]]},
    {"k": "rect", "l": 4.0, "w": 2.0, "c": [1.5, -0.5], "o": 0.0},
    {"k": "rect", "l": 4.0, "w": 2.0, "c": [0.0, 0.0], "o": 0.5},
    {"k": "circ", "r": 1.5, "c": [1.0, 1.0]},
    {"k": "group", "s": [{"k": "rect", "l": 4.0, "w": 2.0, "c": [0.0, 0.0], "o": 0.0}, {"k": "circ", "r": 1.0, "c": [0.0, 0.0]}]},
]


def gen_uncertain(r):
    x = r.random()
    if x < 0.2:
        shape = {"k": "rect", "l": r.randint(8, 96) / 16.0, "w": r.randint(4, 48) / 16.0, "c": [0.0, 0.0], "o": 0.0}
    elif x < 0.3:
        shape = {"k": "circ", "r": r.randint(4, 48) / 16.0, "c": [0.0, 0.0]}
    elif x < 0.7:
        shape = json.loads(json.dumps(r.choice(UNCERTAIN_SHAPES)))
    else:
        shape = gen_obst_shape(r)                       # any obstacle shape: rotated / off-centre rectangles, random polygons, groups
        shape["random"] = True
    u = {"shape": shape}
    mode = r.choice(["ori", "pos", "both"])
    centre = [r.randint(-160, 160) / 16.0, r.randint(-160, 160) / 16.0]
    if mode in ("ori", "both"):
        half = r.choice([0.0, 0.05, 0.3, 0.7, 1.2, math.pi / 2, 2.0, 3.0])
        mid = r.uniform(-3.0, 3.0)
        u["ori"] = [mid - half, mid + half]
    else:
        u["ori"] = r.uniform(-3.0, 3.0)
    if mode in ("pos", "both"):
        k = r.choice(["rect", "circ", "poly"])
        if k == "rect":
            u["pos"] = {"k": "rect", "l": r.randint(4, 64) / 16.0, "w": r.randint(4, 64) / 16.0, "c": centre,
                        "o": r.choice([0.0, 0.4, r.uniform(-3, 3)])}
        elif k == "circ":
            u["pos"] = {"k": "circ", "r": r.randint(4, 48) / 16.0, "c": centre}
        else:
            a, b = r.randint(8, 48) / 16.0, r.randint(8, 48) / 16.0
            u["pos"] = {"k": "poly", "v": [[centre[0] - a, centre[1] - b], [centre[0] + a, centre[1] - b],
                                           [centre[0] + a, centre[1] + b], [centre[0] - a, centre[1] + b]]}
    else:
        u["pos"] = centre
    u["via"] = r.choice(["function", "function", "initial-dynamic", "initial-static", "trajectory"])
    u["cls"] = "InitialState" if u["via"].startswith("initial") else r.choice(["KSState", "STState", "CustomState", "InitialState", "MBState"])
    return u


def uncertain_occupancy(case):
    """The occupancy region the real code gives for the uncertain state, through the entry point `via`."""
    import numpy as np
    import commonroad.scenario.state as S
    from commonroad.common.util import AngleInterval
    from commonroad.geometry.shape import occupancy_shape_from_state
    from commonroad.prediction.prediction import TrajectoryPrediction
    from commonroad.scenario.obstacle import DynamicObstacle, ObstacleType, StaticObstacle
    from commonroad.scenario.trajectory import Trajectory
    spec = {k: v for k, v in case["shape"].items() if k != "random"}
    shape = geom.build_shape(spec)
    unc_o, unc_p = isinstance(case["ori"], list), isinstance(case["pos"], dict)
    pos = geom.build_shape(case["pos"]) if unc_p else np.array(case["pos"])
    ori = AngleInterval(case["ori"][0], case["ori"][1]) if unc_o else case["ori"]
    cls, via = case.get("cls", "KSState"), case.get("via", "function")
    if cls == "CustomState":
        st = S.CustomState(time_step=1, position=pos, orientation=ori, velocity=0.0)
    elif cls == "InitialState":
        st = S.InitialState(time_step=1, position=pos, orientation=ori, velocity=0.0, acceleration=0.0, yaw_rate=0.0, slip_angle=0.0)
    else:
        st = getattr(S, cls)(time_step=1, position=pos, orientation=ori, velocity=0.0)
    if via == "function":
        return occupancy_shape_from_state(shape, st)
    if via == "initial-dynamic":
        return DynamicObstacle(1, ObstacleType.CAR, shape, st).occupancy_at_time(1).shape
    if via == "initial-static":
        return StaticObstacle(1, ObstacleType.CAR, shape, st).occupancy_at_time(5).shape
    init = S.InitialState(time_step=0, position=np.array([0.0, 0.0]), orientation=0.0, velocity=0.0, acceleration=0.0, yaw_rate=0.0, slip_angle=0.0)
    ob = DynamicObstacle(1, ObstacleType.CAR, shape, init, TrajectoryPrediction(Trajectory(1, [st]), shape))
    return ob.occupancy_at_time(1).shape


def run_uncertain(ctx, case):
    r = ctx.rng
    unc_o = isinstance(case["ori"], list)
    unc_p = isinstance(case["pos"], dict)
    ctx.tag("uncertain/orientation" if unc_o else "uncertain/position")
    if unc_p:
        ctx.tag("uncertain/position")
    via = case.get("via", "function")
    if via.startswith("initial"):
        ctx.tag("uncertain/via-initial")
    elif via == "trajectory":
        ctx.tag("uncertain/via-trajectory")
    if case["shape"].get("random"):
        ctx.tag("uncertain/random-shape")
    shape_spec = {k: v for k, v in case["shape"].items() if k != "random"}
    with warnings.catch_warnings():
        warnings.simplefilter("ignore")
        res = call(uncertain_occupancy, case)
    if res[0] != "ok":
        ctx.fail(f"C04/occupancy_shape_from_state/raises-{res[1]}", f"uncertain state {case}: {res[2]}", case)
        return
    occ = res[1]
    from commonroad.geometry.shape import Rectangle as _R
    from commonroad.geometry.shape import ShapeGroup as _SG
    parts = occ.shapes if isinstance(occ, _SG) else [occ]
    if not all(isinstance(x, _R) for x in parts):
        ctx.fail("C04/occupancy_shape_from_state/not-a-rectangle", f"occupancy of an uncertain state is {type(occ).__name__}", case)
        return
    encs = [{"k": "rect", "l": float(x.length), "w": float(x.width), "c": [float(x.center[0]), float(x.center[1])],
             "o": float(x.orientation)} for x in parts]
    enc = encs[0] if len(encs) == 1 else {"k": "group", "s": encs}
    # sample admissible poses; every vertex / boundary sample of the placed shape must lie in the enclosure (band 1e-9)
    for _ in range(40):
        th = r.choice([case["ori"][0], case["ori"][1], r.uniform(case["ori"][0], case["ori"][1])]) if unc_o else case["ori"]
        if unc_p:
            ps = case["pos"]
            if ps["k"] == "circ":
                a, rad = r.uniform(0, 2 * math.pi), ps["r"] * r.choice([1.0, 1.0, r.random()])
                pos = [ps["c"][0] + rad * math.cos(a), ps["c"][1] + rad * math.sin(a)]
            elif ps["k"] == "rect":
                vs = [(float(x), float(y)) for x, y in geom.rect_vertices(ps)]
                u, v = r.choice([0.0, 1.0, r.random()]), r.choice([0.0, 1.0, r.random()])
                pos = [vs[0][0] + u * (vs[1][0] - vs[0][0]) + v * (vs[3][0] - vs[0][0]),
                       vs[0][1] + u * (vs[1][1] - vs[0][1]) + v * (vs[3][1] - vs[0][1])]
            else:
                vs = ps["v"]
                u, v = r.choice([0.0, 1.0, r.random()]), r.choice([0.0, 1.0, r.random()])
                pos = [vs[0][0] + u * (vs[1][0] - vs[0][0]) + v * (vs[3][0] - vs[0][0]),
                       vs[0][1] + u * (vs[1][1] - vs[0][1]) + v * (vs[3][1] - vs[0][1])]
        else:
            pos = case["pos"]
        pts = []
        for item in expected_placement(shape_spec, pos, th):
            if item[0] == "rect":
                pts += [(float(x), float(y)) for x, y in geom.rect_vertices({"l": item[1], "w": item[2], "c": [item[3], item[4]], "o": item[5]})]
            elif item[0] == "circ":
                pts += [(item[2] + item[1] * math.cos(a), item[3] + item[1] * math.sin(a)) for a in [k * math.pi / 8 for k in range(16)]]
            else:
                pts += list(zip(item[1::2], item[2::2]))
        for p in pts:
            member, _ = geom.point_in_shape(enc, p)
            if not member:
                # tolerance: distance outside the enclosure
                d2 = min(geom.seg_dist2((frac(p[0]), frac(p[1])), ring[i], ring[(i + 1) % 4])
                         for ring in (geom.rect_vertices(e) for e in encs) for i in range(4))
                if d2 > Fraction(1, 10 ** 16):
                    ctx.fail(f"C04/occupancy_shape_from_state/not-enclosing/{case['shape']['k']}",
                             f"shape {case['shape']} at admissible pose pos={pos}, ori={th} has point {p} outside the occupancy {enc}",
                             dict(case, witness={"pos": pos, "ori": th, "point": list(p)}))
                    return


# ------------------------------------------------------------------------------------------------ scenario level

ROLE_OF_KIND = {"static": "static", "environment": "environment", "phantom": "phantom"}
ROLE_SETS = [["dynamic", "static"], ["dynamic"], ["static"], ["phantom"], ["environment"], ["phantom", "environment"],
             ["static", "phantom"], ["dynamic", "environment"], ["dynamic", "static", "phantom", "environment"],
             ["environment", "phantom", "static", "dynamic"], []]


def role_of(o):
    return ROLE_OF_KIND.get(o["kind"], "dynamic")


def gen_query(r, members, neg=False):
    g = lambda: r.randint(-320, 320) / 16.0  # noqa
    lo, hi = sorted([g(), g()])
    lo2, hi2 = sorted([g(), g()])
    cands = [m["init"]["pos"] for m in members if m["kind"] not in ("phantom", "environment")]
    if cands and r.random() < 0.35:             # an interval end exactly on an obstacle's centre: the intervals are closed
        c = r.choice(cands)
        if r.random() < 0.5:
            lo = min(c[0], hi)
            hi = max(hi, lo)
        else:
            hi2 = max(c[1], lo2)
    q = {"op": "query", "t": -r.randint(1, 3) if neg else r.choice([0, 0, r.randint(0, 6), r.randint(0, 14)]),
         "role": r.choice([None, "static", "dynamic", "phantom", "environment"]), "ty": r.choice([None, r.randrange(NTYPES)]),
         "box": [[lo, hi], [lo2, hi2]], "roles": r.choice(ROLE_SETS),
         "form": {"occ": r.choice(["pos", "kw", "default"]), "roles": r.choice(["tuple", "list", "set", "dup", "default"]),
                  "t": r.choice(["pos", "kw", "default"]), "int_box": r.random() < 0.2}}
    if q["form"]["roles"] == "default":
        q["roles"] = ["dynamic", "static"]
    if q["form"]["t"] == "default" and not neg:
        q["t"] = 0
    if q["form"]["occ"] == "default":
        q["role"] = None
    if q["form"]["int_box"]:
        q["box"] = [[float(math.floor(lo)), float(math.ceil(hi))], [float(math.floor(lo2)), float(math.ceil(hi2))]]
    return q


def gen_scenario(r):
    n = r.choice([0, 1, 2, 2, 3, 3, 4, 5, 6])
    pool = r.sample(range(0, 40), n + 6)
    if r.random() < 0.3 and n:
        pool[r.randrange(n)] = r.choice([0, 2 ** 31, 2 ** 31 + 5])
    pool = list(dict.fromkeys(pool))
    lanelets = r.random() < 0.3
    ops, members, removed = [], [], []
    fresh = iter(pool)
    first = [gen_obstacle(r, next(fresh)) for _ in range(n)]
    if r.random() < 0.5:
        ops.append({"op": "add_many", "os": first})
    else:
        ops += [{"op": "add", "o": o, "form": r.choice(["single", "single", "list"])} for o in first]
    members += first
    ops.append(gen_query(r, members))
    for _ in range(r.randint(1, 6)):
        x = r.random()
        if x < 0.2:
            o = gen_obstacle(r, next(fresh, 77))
            if r.random() < 0.3 and members:
                o["id"] = r.choice(members)["id"]                     # an id that is taken: ValueError, nothing changes
            elif lanelets and r.random() < 0.2:
                o["id"] = r.choice(LANELET_IDS)
            ops.append({"op": "add", "o": o, "form": r.choice(["single", "list"])})
            if o["id"] not in [m["id"] for m in members] and not (lanelets and o["id"] in LANELET_IDS):
                members.append(o)
        elif x < 0.3:
            os_ = [gen_obstacle(r, next(fresh, 78 + i)) for i in range(r.randint(2, 3))]
            if r.random() < 0.6:
                os_[r.randrange(1, len(os_))]["id"] = r.choice([m["id"] for m in members] + [os_[0]["id"]])   # fails half-way
            ops.append({"op": "add_many", "os": os_})
            for o in os_:
                if o["id"] in [m["id"] for m in members]:
                    break
                members.append(o)
        elif x < 0.5 and members:
            m = r.choice(members)
            ops.append({"op": "remove", "ids": [m["id"]], "form": r.choice(["single", "list", "lookalike"])})
            members.remove(m)
            removed.append(m)
        elif x < 0.52:
            ops.append({"op": "remove_bad_arg", "arg": r.choice(["int", "none", "str"])})
        elif x < 0.55:
            ops.append({"op": "remove", "ids": [r.choice([55, 56] + [m["id"] for m in removed if m["id"] not in [q["id"] for q in members]] or [55])],
                        "form": "absent"})
        elif x < 0.62 and len(members) >= 2:
            ms = r.sample(members, 2)
            ops.append({"op": "remove", "ids": [m["id"] for m in ms], "form": "list"})
            for m in ms:
                members.remove(m)
                removed.append(m)
        elif x < 0.7 and removed:
            m = removed.pop()
            if m["id"] not in [q["id"] for q in members]:
                ops.append({"op": "add", "o": m, "form": "single", "readd": True})
                members.append(m)
        elif x < 0.9 and members:
            i = r.randrange(len(members))
            hop = gen_hop(r, members[i])
            if hop["op"] == "clone":
                hop = {"op": "readonly"}
            ops.append({"op": "mutate", "id": members[i]["id"], "hop": hop})
            members[i], _ = apply_hop_spec(members[i], hop)
        else:
            ops.append({"op": "translate_rotate", "tr": [r.randint(-80, 80) / 16.0, r.randint(-80, 80) / 16.0],
                        "angle": r.choice([0.0, math.pi / 2, r.uniform(-6.2, 6.2)])})
        if r.random() < 0.7:
            ops.append(gen_query(r, members, neg=r.random() < 0.12))
    ops.append(gen_query(r, members))
    return {"kind": "scenario", "lanelets": lanelets, "ops": ops}


def scenario_ops_of_old(case):
    """Cases stored before the histories existed: {obs, ts, role, ty, box, roles}."""
    ops = [{"op": "add", "o": o, "form": "single"} for o in case["obs"]]
    for t in case["ts"]:
        ops.append({"op": "query", "t": t, "role": case["role"], "ty": case["ty"], "box": case["box"], "roles": case["roles"],
                    "form": {"occ": "pos", "roles": "tuple", "t": "pos"}})
    return ops


def offered_centre(o, ob, occ):
    """What obstacles_by_position_intervals tests: initial position (static), centre of the shape (environment) / of the occupancy
    at t (dynamic, phantom); None when the shape has no `center` (ShapeGroup)."""
    if o["kind"] == "static":
        return ob.initial_state.position
    if o["kind"] == "environment":
        return getattr(ob.obstacle_shape, "center", None)
    return getattr(occ.shape, "center", None) if occ is not None else None


def run_scenario(ctx, case):
    import numpy as np
    from commonroad.common.util import Interval
    from commonroad.scenario.lanelet import Lanelet
    from commonroad.scenario.obstacle import ObstacleRole, ObstacleType
    from commonroad.scenario.scenario import Scenario
    ops = case["ops"] if "ops" in case else scenario_ops_of_old(case)
    sc = Scenario(0.1)
    used = []
    if case.get("lanelets"):
        ctx.tag("sop/lanelets")
        for j, lid in enumerate(LANELET_IDS):
            y = 4.0 * j
            sc.add_objects(Lanelet(np.array([[0.0, y + 1], [10.0, y + 1]]), np.array([[0.0, y], [10.0, y]]), np.array([[0.0, y - 1], [10.0, y - 1]]), lid))
        used = list(LANELET_IDS)
    role_map = {"static": ObstacleRole.STATIC, "dynamic": ObstacleRole.DYNAMIC, "phantom": ObstacleRole.Phantom,
                "environment": ObstacleRole.ENVIRONMENT}
    members = []          # own bookkeeping: [spec, object] of every obstacle added and not removed, in insertion order
    ever_removed = set()
    mops, expect = [], []  # the model's op list; per op what the implementation did (compared at the end)

    def in_use(i):
        return i in used or any(m[0]["id"] == i for m in members)

    for n_op, op in enumerate(ops):
        sub = dict(case, ops=ops[:n_op + 1])
        name = op["op"]
        with warnings.catch_warnings():
            warnings.simplefilter("ignore")
            if name == "add":
                o = op["o"]
                tag_dims(ctx, o)
                ob = build_obstacle(o)
                r = call(sc.add_objects, [ob] if op["form"] == "list" else ob)
                if op["form"] == "list":
                    ctx.tag("sop/add-list")
                if op.get("readd"):
                    ctx.tag("sop/readd")
                free = not in_use(o["id"])
                if not free:
                    ctx.tag("sop/add-duplicate-id")
                if (r[0] == "ok") != free or (r[0] == "err" and r[1] != "value"):
                    ctx.fail("C04/Scenario.add_objects/" + ("rejects-free-id" if free else "accepts-taken-id"),
                             f"id {o['id']}: {r[0] if r[0] == 'ok' else r[2]}", sub)
                    return
                if free:
                    members.append([o, ob])
                mops.append({"op": "add", "id": o["id"], "obst": model_obst(o)})
                expect.append({"ok": None} if r[0] == "ok" else {"err": r[1]})
            elif name == "add_many":
                obs = [build_obstacle(o) for o in op["os"]]
                for o in op["os"]:
                    tag_dims(ctx, o)
                r = call(sc.add_objects, obs)
                ctx.tag("sop/add-list")
                ok = True
                for o, ob in zip(op["os"], obs):
                    if in_use(o["id"]):
                        ok = False
                        ctx.tag("sop/add_many-fails-halfway")
                        break
                    members.append([o, ob])
                if (r[0] == "ok") != ok or (r[0] == "err" and r[1] != "value"):
                    ctx.fail("C04/Scenario.add_objects/list-form-" + ("rejects-free-ids" if ok else "accepts-taken-id"),
                             f"{[o['id'] for o in op['os']]}: {r[0] if r[0] == 'ok' else r[2]}", sub)
                    return
                mops.append({"op": "add_many", "items": [{"id": o["id"], "obst": model_obst(o)} for o in op["os"]]})
                expect.append({"ok": None} if r[0] == "ok" else {"err": r[1]})
            elif name == "remove":
                targets = []
                for i in op["ids"]:
                    hit = [m for m in members if m[0]["id"] == i]
                    if op["form"] == "lookalike" and hit:
                        ctx.tag("sop/remove-lookalike")
                        targets.append(build_obstacle(gen_obstacle(random.Random(i), i, kind=hit[0][0]["kind"])))
                    elif hit:
                        targets.append(hit[0][1])
                    else:
                        ctx.tag("sop/remove-absent")
                        targets.append(build_obstacle({"id": i, "kind": "environment", "type": 0, "shape": {"k": "circ", "r": 1.0, "c": [0.0, 0.0]},
                                                       "t_init": 0, "init": {"pos": [0.0, 0.0], "ori": 0.0}}))
                    if hit:
                        members.remove(hit[0])
                        ever_removed.add(i)
                    mops.append({"op": "remove", "id": i})
                    expect.append({"ok": None})
                ctx.tag("sop/remove")
                r = call(sc.remove_obstacle, targets if op["form"] == "list" or len(targets) > 1 else targets[0])
                if r[0] != "ok":
                    ctx.fail(f"C04/Scenario.remove_obstacle/raises-{r[1]}", f"ids {op['ids']} ({op['form']}): {r[2]}", sub)
                    return
            elif name == "remove_bad_arg":
                ctx.tag("sop/remove-bad-arg")
                r = call(sc.remove_obstacle, {"int": 5, "none": None, "str": "all"}[op["arg"]])
                if not (r[0] == "err" and r[1] == "assert"):
                    ctx.fail("C04/Scenario.remove_obstacle/accepts-a-non-obstacle", f"{op['arg']}: {r[0] if r[0] == 'ok' else r[2]}", sub)
                    return
            elif name == "mutate":
                hit = [m for m in members if m[0]["id"] == op["id"]]
                if not hit:
                    continue
                m = hit[0]
                ctx.tag("sop/mutate", hop_tag(op["hop"]))
                m[1].occupancy_at_time(m[0].get("t_init", 0) + 1)                 # a first query fills the caches
                _, r = apply_hop_obj(m[1], m[0], op["hop"])
                if op["hop"]["op"] == "update_initial_fail":
                    if not (r[0] == "err" and r[1] == "assert"):
                        ctx.fail(f"C04/{m[0]['kind']}.update_initial_state/accepts-{op['hop']['why']}", str(r[-1]), sub)
                        return
                elif r[0] != "ok":
                    ctx.fail(f"C04/{m[0]['kind']}.{op['hop']['op']}/raises-{r[1]}", f"{op['hop']}: {r[2]}", sub)
                    return
                m[0], mut = apply_hop_spec(m[0], op["hop"])
                if op["hop"]["op"] == "translate_rotate":
                    m[0] = readback(m[1], m[0])
                judge(ctx, m[1], m[0], probe_ts(m[0])[:4], lambda t: sub, after=op["hop"]["op"], place_corr=False)
                mops.append({"op": "mutate", "id": op["id"], "mut": mut})
                expect.append({"ok": None})
            elif name == "translate_rotate":
                ctx.tag("sop/translate_rotate")
                for m in members:
                    m[1].occupancy_at_time(m[0].get("t_init", 0) + 1)
                r = call(sc.translate_rotate, np.array(op["tr"]), op["angle"])
                if r[0] != "ok":
                    ctx.fail(f"C04/Scenario.translate_rotate/raises-{r[1]}", r[2], sub)
                    return
                for m in members:
                    m[0] = readback(m[1], m[0])
                    judge(ctx, m[1], m[0], probe_ts(m[0])[:3], lambda t: sub, after="Scenario.translate_rotate", place_corr=False)
            elif name == "query":
                q = scenario_query(ctx, sc, members, op, sub, role_map, Interval, ObstacleType, ever_removed)
                if q is None:
                    return
                mops.append(q[0])
                expect.append(q[1])
    res = ctx.driver.ask("C04", "scn", {"used": used, "ops": mops})
    for mo, e, m in zip(mops, expect, res):
        ctx.compare(dict(case, model_op=mo), e, model_query_view(m), f"Scenario history step {mo['op']} vs CR.Occ.Scn")


def scenario_query(ctx, sc, members, op, sub, role_map, Interval, ObstacleType, ever_removed):
    """All scenario-level queries at one step, judged against the per-obstacle answers of the obstacles the harness's own
    bookkeeping holds. Returns (model op, implementation answers in the model's vocabulary)."""
    t, form = op["t"], op.get("form", {})
    role = role_map[op["role"]] if op["role"] else None
    ty = list(ObstacleType)[op["ty"]] if op["ty"] is not None else None
    (x0, x1), (y0, y1) = op["box"]
    if form.get("int_box"):
        ivs = [Interval(int(x0), int(x1)), Interval(int(y0), int(y1))]
    else:
        ivs = [Interval(x0, x1), Interval(y0, y1)]
    roles = [role_map[x] for x in op["roles"]]
    rform = form.get("roles", "tuple")
    roles_arg = tuple(roles) if rform == "tuple" else list(roles) if rform == "list" else set(roles) if rform == "set" else tuple(roles + roles)
    if role is not None:
        ctx.tag("scenario/role-filter")
    if rform in ("list", "dup"):
        ctx.tag("sop/roles-list")
    if rform == "set":
        ctx.tag("sop/roles-set")
    if "default" in (form.get("occ"), rform, form.get("t")):
        ctx.tag("sop/query-default-args")
    if t < 0:
        ctx.tag("sop/query-negative-step")
    r1 = call(sc.occupancies_at_time_step, t) if form.get("occ") == "default" and role is None else \
        call(sc.occupancies_at_time_step, time_step=t, obstacle_role=role) if form.get("occ") == "kw" else call(sc.occupancies_at_time_step, t, role)
    r2 = call(sc.obstacle_states_at_time_step, t)
    r3 = call(sc.obstacles_by_role_and_type, obstacle_role=role, obstacle_type=ty) if form.get("occ") == "kw" else \
        call(sc.obstacles_by_role_and_type, role, ty)
    if not members:
        ctx.tag("sop/empty-scenario")
    if rform == "default" and form.get("t") == "default" and t == 0:
        r4 = call(sc.obstacles_by_position_intervals, ivs) if len(members) % 2 else \
            call(sc.obstacles_by_position_intervals, ivs, time_step=None)
    elif rform == "default":
        r4 = call(sc.obstacles_by_position_intervals, ivs, time_step=t)
    elif form.get("t") == "default" and t == 0:
        r4 = call(sc.obstacles_by_position_intervals, ivs, roles_arg)
    elif form.get("t") == "kw":
        r4 = call(sc.obstacles_by_position_intervals, position_intervals=ivs, obstacle_role=roles_arg, time_step=t)
    else:
        r4 = call(sc.obstacles_by_position_intervals, ivs, roles_arg, t)
    neg = t < 0
    for name, r, may_assert in (("occupancies_at_time_step", r1, neg), ("obstacle_states_at_time_step", r2, neg),
                                ("obstacles_by_role_and_type", r3, False), ("obstacles_by_position_intervals", r4, False)):
        if r[0] != "ok" and not (may_assert and r[1] == "assert"):
            ctx.fail(f"C04/Scenario.{name}/raises-{r[1]}", f"t={t}: {r[2]}", sub)
            return None
    # per-obstacle answers, in the order of Scenario.obstacles: static, dynamic, phantom, environment
    order = [m for rk in ("static", "dynamic", "phantom", "environment") for m in members if role_of(m[0]) == rk]
    per_occ, per_st = {}, {}
    for o, ob in order:
        per_occ[o["id"]] = ob.occupancy_at_time(t)
        if role_of(o) in ("static", "dynamic"):
            per_st[o["id"]] = ob.state_at_time(t)

    def occ_key(oc):
        return (str(oc.time_step), json.dumps(shape_points(oc.shape)))
    if r1[0] == "ok":
        want = [per_occ[o["id"]] for o, ob in order if (role is None or ob.obstacle_role == role) and per_occ[o["id"]] is not None]
        if sorted(occ_key(x) for x in r1[1]) != sorted(occ_key(oc) for oc in want):
            ctx.fail("C04/Scenario.occupancies_at_time_step/not-the-per-obstacle-answers",
                     f"t={t} role={op['role']}: {len(r1[1])} occupancies returned, per-obstacle answers give {len(want)}", sub)
    if r2[0] == "ok":
        want_st = {i: s for i, s in per_st.items() if s is not None}
        if set(r2[1].keys()) != set(want_st.keys()) or any(r2[1][i] is not want_st[i] for i in want_st):
            ctx.fail("C04/Scenario.obstacle_states_at_time_step/not-the-per-obstacle-answers",
                     f"t={t}: ids {sorted(r2[1].keys())} vs per-obstacle {sorted(want_st.keys())}", sub)
    want_f = sorted(o["id"] for o, ob in order if (role is None or ob.obstacle_role == role)
                    and (ty is None or getattr(ob, "obstacle_type", None) == ty))
    if sorted(x.obstacle_id for x in r3[1]) != want_f or any(not any(x is ob for _, ob in order) for x in r3[1]):
        ctx.fail("C04/Scenario.obstacles_by_role_and_type/wrong-filter", f"{sorted(x.obstacle_id for x in r3[1])} vs {want_f}", sub)
    # position interval: centre of the occupancy at t (dynamic/phantom), initial position (static), shape centre (environment)
    ctx.tag("scenario/position-interval")
    ix0, ix1, iy0, iy1 = ivs[0].start, ivs[0].end, ivs[1].start, ivs[1].end
    want_p, ctrs = [], []
    for o, ob in order:
        c = offered_centre(o, ob, per_occ[o["id"]])
        ctrs.append([o["id"], None if c is None else [rat(float(c[0])), rat(float(c[1]))]])
        if role_of(o) not in op["roles"]:
            continue
        if role_of(o) in ("dynamic", "phantom") and per_occ[o["id"]] is None:
            continue
        if c is None or (ix0 <= c[0] <= ix1 and iy0 <= c[1] <= iy1):
            want_p.append(o["id"])
    if sorted(x.obstacle_id for x in r4[1]) != sorted(want_p) or any(not any(x is ob for _, ob in order) for x in r4[1]):
        ctx.fail("C04/Scenario.obstacles_by_position_intervals/wrong-filter",
                 f"t={t}: {sorted(x.obstacle_id for x in r4[1])} vs per-obstacle {sorted(want_p)}", sub)
    # the population itself, through every accessor
    ids = [o["id"] for o, _ in order]
    got_ids = [x.obstacle_id for x in sc.obstacles]
    parts = {"static": sc.static_obstacles, "dynamic": sc.dynamic_obstacles, "phantom": sc.phantom_obstacle, "environment": sc.environment_obstacle}
    if sorted(got_ids) != sorted(ids) or any(sorted(x.obstacle_id for x in parts[rk]) != sorted(o["id"] for o, _ in order if role_of(o) == rk)
                                             for rk in parts):
        ctx.fail("C04/Scenario.obstacles/not-the-added-minus-removed-obstacles", f"{got_ids} vs {ids}", sub)
    ctx.tag("sop/obstacle_by_id")
    for i in ids + sorted(ever_removed - set(ids))[:2]:
        got = sc.obstacle_by_id(i)
        want_ob = next((ob for o, ob in order if o["id"] == i), None)
        if got is not want_ob:
            ctx.fail("C04/Scenario.obstacle_by_id/wrong-object", f"id {i}: {'None' if got is None else 'an obstacle'} returned, "
                     f"{'None' if want_ob is None else 'the added obstacle'} expected", sub)
    sc.generate_object_id()
    # object reuse: the same obstacle objects put into a SECOND scenario answer there as they do here
    if (t + len(order)) % 3 == 0 and t >= 0:
        ctx.tag("sop/second-scenario")
        sc2 = type(sc)(0.2)
        r5 = call(sc2.add_objects, [ob for _, ob in order])
        r6, r7 = call(sc2.occupancies_at_time_step, t), call(sc2.obstacle_states_at_time_step, t)
        if r5[0] != "ok" or r6[0] != "ok" or r7[0] != "ok" or \
                sorted(occ_key(x) for x in r6[1]) != sorted(occ_key(oc) for oc in per_occ.values() if oc is not None) or \
                (r2[0] == "ok" and set(r7[1]) != set(r2[1])) or [x.obstacle_id for x in sc2.obstacles] != got_ids:
            ctx.fail("C04/Scenario/second-scenario-with-the-same-obstacles-answers-differently", f"t={t}", sub)
    impl = {"order": got_ids,
            "occs": {"err": r1[1]} if r1[0] != "ok" else {"ok": len(r1[1])},
            "states": {"err": r2[1]} if r2[0] != "ok" else {"ok": sorted(r2[1].keys())},
            "by_role_type": [x.obstacle_id for x in r3[1]], "by_position": [x.obstacle_id for x in r4[1]]}
    mop = {"op": "query", "t": t, "role": op["role"], "ty": op["ty"],
           "types": [[o["id"], None if o["kind"] == "phantom" else o["type"]] for o, _ in order], "ctrs": ctrs,
           "roles": list(op["roles"]), "ix": [rat(ix0), rat(ix1)], "iy": [rat(iy0), rat(iy1)]}
    return mop, impl


def model_query_view(m):
    """The model's answer to a query step in the shape `scenario_query` reports the implementation's."""
    if not isinstance(m, dict) or "order" not in m:
        return m
    return {"order": m["order"], "occs": m["occs"] if "err" in m["occs"] else {"ok": len(m["occs"]["ok"])},
            "states": m["states"] if "err" in m["states"] else {"ok": sorted(i for i, _ in m["states"]["ok"])},
            "by_role_type": m["by_role_type"], "by_position": m["by_position"]}


def gen_case(ctx):
    r = ctx.rng
    x = r.random()
    if x < 0.38:
        o = gen_obstacle(r, r.choice([1, 1, 2, 3, 0, 2 ** 31, r.randint(1, 50)]))
        return {"kind": "obstacle", "obst": o, "ts": horizon_ts(o)}
    if x < 0.60:
        o = gen_obstacle(r, r.choice([1, 2, 3, 0, r.randint(1, 50)]))
        return {"kind": "history", "obst": o, "ops": gen_history(r, o)}
    if x < 0.76:
        return {"kind": "uncertain", **gen_uncertain(r)}
    return gen_scenario(r)


def run_case(ctx, case):
    ctx.case(case)
    try:
        if case["kind"] == "obstacle":
            run_obstacle(ctx, case)
        elif case["kind"] == "history":
            run_history(ctx, case)
        elif case["kind"] == "uncertain":
            run_uncertain(ctx, case)
        else:
            run_scenario(ctx, case)
    except InfraError:
        raise
    except Exception as e:  # noqa
        # the objects no longer behave the way the generated history says (an attribute missing, a list shorter than the spec ...):
        # a failure of the code under test to follow its public interface, reported with the case; never seen on the unchanged tree
        import traceback
        ctx.fail(f"C04/{case['kind']}/objects-do-not-follow-the-history/{type(e).__name__}",
                 f"{type(e).__name__}: {e} at {traceback.format_exc().strip().splitlines()[-3].strip()}", case)


def witness_gapped(ctx):
    """Replay of C04_witness_gapped_trajectory on the real code: a trajectory with a gap in its time steps (outside the documented
    precondition) pairs state and time step wrongly. Recorded as excluded, never judged."""
    import numpy as np
    from commonroad.geometry.shape import Rectangle
    from commonroad.prediction.prediction import TrajectoryPrediction
    from commonroad.scenario.obstacle import DynamicObstacle, ObstacleType
    from commonroad.scenario.state import InitialState, KSState
    from commonroad.scenario.trajectory import Trajectory
    try:
        tr = Trajectory(3, [KSState(time_step=t, position=np.array([float(t), 0.0]), orientation=0.0, velocity=1.0) for t in (3, 5, 6)])
        ob = DynamicObstacle(1, ObstacleType.CAR, Rectangle(4, 2), InitialState(time_step=2, position=np.array([0.0, 0.0]), orientation=0.0,
                             velocity=0.0, acceleration=0.0, yaw_rate=0.0, slip_angle=0.0), TrajectoryPrediction(tr, Rectangle(4, 2)))
        st, occ = ob.state_at_time(4), ob.occupancy_at_time(4)
        as_model = st is not None and st.time_step == 5 and occ is None
    except Exception:  # noqa  (e.g. a constructor that rejects gapped trajectories: then the precondition is enforced)
        as_model = False
    ctx.excluded += 1
    ctx.tag("witness/gapped-trajectory:" + ("as-model" if as_model else "differs-from-model"))


def witness_numpy_state_steps(ctx):
    """States whose time_step is a numpy integer (outside the annotated type): accepted by Trajectory, rejected by Occupancy at the
    first occupancy query. Recorded as excluded, never judged (ASSUMPTIONS)."""
    import numpy as np
    from commonroad.geometry.shape import Rectangle
    from commonroad.prediction.prediction import TrajectoryPrediction
    from commonroad.scenario.obstacle import DynamicObstacle, ObstacleType
    from commonroad.scenario.state import InitialState, KSState
    from commonroad.scenario.trajectory import Trajectory
    try:
        tr = Trajectory(1, [KSState(time_step=np.int64(t), position=np.array([float(t), 0.0]), orientation=0.0, velocity=1.0) for t in (1, 2)])
        ob = DynamicObstacle(1, ObstacleType.CAR, Rectangle(4, 2), InitialState(time_step=0, position=np.array([0.0, 0.0]), orientation=0.0,
                             velocity=0.0, acceleration=0.0, yaw_rate=0.0, slip_angle=0.0), TrajectoryPrediction(tr, Rectangle(4, 2)))
        r = call(ob.occupancy_at_time, 2)
        how = "rejected-AssertionError" if r[0] == "err" and r[1] == "assert" else "answered" if r[0] == "ok" else "raises-" + r[1]
    except Exception:  # noqa
        how = "rejected-at-construction"
    ctx.excluded += 1
    ctx.tag("witness/numpy-state-time-steps:" + how)


def run(ctx):
    from commonroad.scenario.obstacle import ObstacleType
    global NTYPES
    NTYPES = len(ObstacleType)
    c04_dims.check(ctx)            # exit 2 when the code has a parameter / setter / operation the dimension table does not know
    witness_gapped(ctx)
    witness_numpy_state_steps(ctx)
    for p in sorted(glob.glob(os.path.join(CORPUS_DIR, "C04", "*.json"))):
        run_case(ctx, json.load(open(p)))
    for _ in range(ctx.n(900)):
        run_case(ctx, gen_case(ctx))


search = run


def replay(ctx, case):
    run_case(ctx, case)
