"""C08 — goal-region membership is decided correctly.
model: lean/CRModel/Goal.lean (+ Interval.lean); theorems: lean/CRProps/C08.lean.

A case is a HISTORY on one goal region:  {"goals": [goal spec, ...], "lan_mode": ..., "pp": {...}, "steps": [step, ...]}
(the old format {"kind", "goals", "states"} is still read: corpus / earlier replays).  Steps: queries (is_reached through the goal
region, the planning problem or the planning problem set; goal_reached on duck-typed and real trajectories), edits of the goal
region (state_list setter / in-place list edits, attribute and interval-end setters, shape setters, translate_rotate on all three
levels, goal setter), operations that fail, read-only operations.  The oracle follows the history on the SPECS (never on the
objects) and judges every query from the property text; the model gets the goal region as the library stores it at that moment.
"""
import copy
import glob
import json
import math
import os
import pickle
from fractions import Fraction

import geom
from common import CORPUS_DIR, InfraError, call, frac, rat

RULE = ("histories on goal regions of 0..4 goal states (0: correspondence only), every subset of {position, orientation, velocity} "
        "constraints (time always), goal states of every State class that can hold them, intervals built by constructor / setters / "
        "interval arithmetic / out-of-range normalisation, int / float / numpy-typed ends, equal ends, negative velocities; positions: "
        "rectangle / circle / polygon (closed ring, reversed ring, default centre / orientation, int arrays) / shape group (nested, empty, "
        "repeated member) / lanelet goal; lanelets_of_goal_position omitted / None / {} / partial / extra; states of all 14 State "
        "classes incl. CustomState with extra and missing attributes, built by constructor / assignment / add_attribute / "
        "convert_state_to_state / fill_with_defaults / deepcopy, values int / float / np.int64 / np.int32 / np.float64 / np.float32, "
        "positions as float64 / int / float32 arrays; steps: is_reached via GoalRegion / PlanningProblem.goal / PlanningProblemSet, "
        "repeated queries on one state object, goal_reached on trajectories of 0..8 states (duck-typed and real Trajectory, reaching "
        "state first / last / several / none, called before or after the single queries), state_list setter (new, same object, copy) "
        "and in-place list edits, attribute replacement / removal / interval-end setters, shape setters, translate_rotate on goal / "
        "problem / set level (pure translations exact and predicted by the model, rotations judged with a band), goal setter, "
        "whole-scene motions (scenario or lanelet network and planning problem set moved by the same motion, either order) on goal "
        "regions read from XML / protobuf files or built in memory from the lanelets' own polygon objects, one Shape object shared by "
        "two goal states, deepcopy / pickle swaps, failing operations (invalid goal list, int time step, invalid angle, interval-end assertion) followed "
        "by queries, read-only operations (hash, ==, str, used_attributes) before queries. "
        "distinct = canonical JSON; non-trivial = every case (each query state sits at / near a constraint boundary of a goal state)")
ASSUMPTIONS = ["shape membership of the state's position (contains_point) is computed by the C06 shape model on the shapes read back "
               "from the goal region; the oracle recomputes it from the case's own specs with exact rational geometry, excluding "
               "points within 1e-9 of a non-exact boundary (1e-8 after a rotation: the rotated boundary is only known up to rounding)",
               "hypot/atan2 are parameters of the model (np.linalg.norm / math.atan2 of the state's velocity components)",
               "values within 1e-9 of an interval end (mod 2pi for angles) are excluded from the oracle when they come out of float "
               "arithmetic (hypot, atan2, rotated intervals); exact end-point values are kept; np.float32-typed values within 1e-5 "
               "(relative) of an end are excluded (numpy compares and subtracts them in single precision)",
               "a goal region without goal states, states without the attributes a goal state constrains (documented ValueError) and "
               "trajectories containing such states are outside the quantifier: correspondence with the model only, no oracle verdict",
               "a goal state that does not pass GoalRegion's validation (exact int time step, attributes other than the four) is "
               "rejected at construction and outside the quantifier; it appears only as a failing operation inside histories"]
EXTRA_MODULES = ['CRProps.T16', 'CRProps.T08']      # translator tie: Gen.Src (regenerated from /repo every run) = hand model
REQUIRED_BUCKETS = ["state/PMState", "state/KSState", "state/KSTState", "state/STState", "state/STDState", "state/MBState",
                    "state/ExtendedPMState", "state/InitialState", "state/CustomState", "state/LongitudinalState",
                    "state/LateralState", "state/InputState", "state/PMInputState", "state/LKSInputState",
                    "goal/lanelet", "goal/long-angle", "goal/multi", "goal/empty-list", "goal/vel-equal-ends", "goal/vel-negative",
                    "goal/time-single", "goal/cls/CustomState", "goal/cls/dataclass", "goal/ori-how/setters", "goal/ori-how/outside",
                    "goal/ori-how/shift", "goal/ori-how/scaled", "goal/iv-how/setters", "goal/iv-how/arith", "goal/np-ends",
                    "shape/nested-group", "shape/empty-group", "shape/closed-ring", "shape/default-centre", "shape/int-array",
                    "lan/omitted", "lan/none", "lan/empty", "lan/extra", "lan/auto",
                    "int-values", "num/i64", "num/i32", "num/f64", "num/f32", "pos/int-array", "pos/f32-array",
                    "state-how/assign", "state-how/custom_add", "state-how/convert", "state-how/fill", "state-how/deepcopy",
                    "state/vy-without-orientation", "state/vy-with-orientation", "state/custom-extra",
                    "reached/true", "reached/false", "reached/error", "err/first", "err/last", "err/middle",
                    "traj/reached", "traj/not-reached", "traj/empty", "traj/real", "traj/fresh", "traj/first-only", "traj/last-only",
                    "traj/several", "traj/with-error", "via/goal", "via/pp", "via/pps", "pm/quadrant2", "pm/quadrant3",
                    "hist/requery", "hist/set_list/setter_new", "hist/set_list/setter_same", "hist/set_list/append",
                    "hist/set_list/pop", "hist/set_attr/assign", "hist/set_attr/remove", "hist/set_attr/ends",
                    "hist/pos_edit", "hist/tr/translation", "hist/tr/rotation", "hist/tr/level/goal", "hist/tr/level/pp",
                    "hist/tr/level/pps", "hist/set_goal", "hist/swap/deepcopy", "hist/swap/pickle", "hist/fail/bad_list",
                    "hist/fail/int_time", "hist/fail/bad_angle", "hist/fail/bad_end", "hist/fail-then-query", "hist/ro/hash",
                    "hist/ro/eq", "hist/ro/str", "hist/query-after-edit", "corr/moved", "file/xml", "file/pb", "file/mem",
                    "file/lanelet-goal-moved", "hist/tr_all/scn_first", "hist/tr_all/pps_first", "goal/aliased-shape"]

BAND = Fraction(1, 10 ** 9)
BAND_INEXACT = Fraction(1, 10 ** 8)
BAND32 = Fraction(1, 10 ** 5)


def _tau_eps():
    from commonroad import TWO_PI
    from commonroad.common.util import AngleInterval
    return TWO_PI, getattr(AngleInterval, "_TOLERANCE", 0.0)


# ------------------------------------------------------------------------------------------------ dimension table
# Every constructor parameter, settable attribute and public operation of the classes the property anchors, with how the
# generator varies it (or why it cannot matter).  check_dimensions() compares the table with the working tree on every run: a
# parameter / member / state class / state field the table does not know => exit 2 (the generator has to be extended first).

V = "varied: "
N = "not varied: "
DIMENSIONS = {
    "GoalRegion": {
        "ctor": {
            "state_list": V + "0..4 goal states, each any subset of position / orientation / velocity (+ mandatory time), of class "
                              "CustomState or any dataclass State that has the fields; list object later edited in place; two goal "
                              "states holding the SAME Shape object (alias_of)",
            "lanelets_of_goal_position": V + "lan_mode omitted / none / empty / auto (dict for the lanelet goals) / extra (entries "
                                             "for non-lanelet and out-of-range indices); never read by is_reached"},
        "members": {
            "state_list": V + "setter with a new list / the same list object / a copy; in-place append, insert, pop, reverse, "
                              "item assignment; failing assignment (invalid goal state, int time step) followed by queries",
            "lanelets_of_goal_position": V + "read (ro step) and re-assigned (immutable: warning only) inside histories",
            "is_reached": V + "the observation; once or twice per state object, through GoalRegion / PlanningProblem.goal / set",
            "translate_rotate": V + "tr step on goal level: pure translations (exact; model op is_reached_moved) and rotations",
            "draw": N + "rendering only, result is not consulted by is_reached (C13/C14 territory)",
            "__eq__": V + "ro step eq (against a deep copy and against a non-GoalRegion) before queries",
            "__hash__": V + "ro step hash before queries"}},
    "PlanningProblem": {
        "ctor": {
            "planning_problem_id": V + "0, 1, 7, 10**6",
            "initial_state": N + "a fixed complete InitialState; goal_reached never reads it (translate_rotate on problem level "
                                  "moves it along, which is C05's business)",
            "goal_region": V + "the goal region of the case; replaced through the goal setter (set_goal step)"},
        "members": {
            "planning_problem_id": N + "immutable after construction (setter warns)",
            "initial_state": N + "see ctor",
            "goal": V + "getter used for via=pp queries; setter in set_goal steps",
            "goal_reached": V + "the observation on trajectories of 0..8 states, duck-typed holder and real Trajectory",
            "translate_rotate": V + "tr step on problem level",
            "draw": N + "rendering only",
            "__eq__": V + "ro step eq", "__hash__": V + "ro step hash"}},
    "PlanningProblemSet": {
        "ctor": {"planning_problem_list": V + "omitted (+ add_planning_problem) or [decoy problem, problem] in both orders"},
        "members": {
            "planning_problem_dict": V + "read by via=pps queries",
            "add_planning_problem": V + "pps built by add",
            "find_planning_problem_by_id": V + "via=pps queries and goal_reached",
            "translate_rotate": V + "tr step on set level (moves the decoy problem as well); tr_all step: together with "
                                    "Scenario / LaneletNetwork.translate_rotate by the same motion, in either order, on goal regions "
                                    "whose shapes are the lanelets' own polygon objects (XML reader, in-memory) or copies (protobuf)",
            "draw": N + "rendering only",
            "__eq__": V + "ro step eq", "__hash__": V + "ro step hash"}},
    "Interval": {
        "ctor": {"start": V + "int / float / np.int64 / np.float64; equal to end; negative (velocity)", "end": V + "see start"},
        "members": {
            "start": V + "setter after construction (how=setters) and on a live goal state (set_attr ends, fail bad_end)",
            "end": V + "see start",
            "contains": V + "called by is_reached with the state's value (number)",
            "__contains__": N + "Interval.__contains__ delegates to contains; is_reached calls contains (C16 covers the operator)",
            "__add__": V + "how=arith add", "__sub__": V + "how=arith sub", "__mul__": V + "how=arith mul / ori scaled",
            "__truediv__": V + "how=arith div",
            "__round__": N + "rounding changes the end points by design; construction through it is C16's",
            "intersection": N + "C16; produces an Interval by the plain constructor",
            "overlaps": N + "C16, not used by goal checks", "length": N + "C16, read-only",
            "__eq__": V + "through GoalRegion.__eq__ (ro eq)", "__hash__": V + "through GoalRegion.__hash__ (ro hash)",
            "__iter__": N + "not used by goal checks", "__str__": V + "ro str",
            "__gt__": N + "C16, not used by goal checks", "__lt__": N + "C16, not used by goal checks"}},
    "AngleInterval": {
        "ctor": {"start": V + "short / long (> pi) / wrapping +-pi / zero length; given outside [-2pi, 2pi] (how=outside)",
                 "end": V + "see start"},
        "members": {
            "start": V + "how=setters; set_attr ends", "end": V + "see start",
            "contains": V + "called by is_reached with int / float / numpy-typed headings",
            "__contains__": V + "reached through contains(number)",
            "intersect": N + "raises NotImplementedError by design"}},
    "State": {
        "ctor": {"time_step": V + "int / float / np.int64 / np.int32 exact values for checked states; Interval for goal states"},
        "members": {
            "time_step": V + "see ctor",
            "attributes": V + "read by is_reached; ro step on goal states",
            "used_attributes": V + "decides the documented ValueError: every attribute present / None per class",
            "has_value": V + "called by is_reached",
            "is_uncertain_position": N + "not consulted by goal checks", "is_uncertain_orientation": N + "not consulted",
            "translate_rotate": V + "called by GoalRegion.translate_rotate on every goal state (tr steps)",
            "convert_state_to_state": V + "state how=convert",
            "fill_with_defaults": V + "state how=fill",
            "draw": N + "rendering only",
            "__eq__": V + "ro eq", "__hash__": V + "ro hash", "__array__": N + "not consulted by goal checks"}},
    "CustomState": {
        "ctor": {"attributes": V + "any subset of position / velocity / orientation / velocity_y plus extra attributes "
                                    "(acceleration, yaw_rate, custom names); attributes explicitly None"},
        "members": {"add_attribute": V + "state how=custom_add", "set_value": V + "state how=custom_add"}},
    "PMState": {"members": {"orientation": V + "derived property, not a field: is_reached must compute the heading itself",
                            "translate_rotate": N + "checked states are not moved (C05); goal states of class PMState carry Shapes"}},
    "ExtendedPMState": {"members": {"velocity_y": V + "derived property, not a field: the state is treated as kinematic "
                                                        "(stored velocity / orientation)"}},
    "Rectangle": {
        "ctor": {"length": V + "dyadic grid; int", "width": V + "see length", "center": V + "given / omitted (default centre); "
                 "float or int array", "orientation": V + "0 (given / omitted), pi/2, arbitrary"},
        "members": {"length": V + "pos_edit step (setter on the live goal shape)", "width": V + "pos_edit", "center": V + "pos_edit",
                    "orientation": V + "pos_edit", "contains_point": V + "called by is_reached",
                    "translate_rotate": V + "tr steps"}},
    "Circle": {
        "ctor": {"radius": V + "dyadic grid; int", "center": V + "given / omitted"},
        "members": {"radius": V + "pos_edit", "center": V + "pos_edit", "contains_point": V + "called by is_reached",
                    "translate_rotate": V + "tr steps"}},
    "Polygon": {
        "ctor": {"vertices": V + "3..7 grid vertices, either orientation, ring closed or open, float or int array"},
        "members": {"vertices": V + "pos_edit (setter on the live goal shape)", "contains_point": V + "called by is_reached",
                    "translate_rotate": V + "tr steps"}},
    "ShapeGroup": {
        "ctor": {"shapes": V + "0..3 members, nested group member, repeated member"},
        "members": {"shapes": N + "immutable after construction (setter warns); members are edited through their own setters",
                    "contains_point": V + "called by is_reached", "translate_rotate": V + "tr steps"}},
    "file readers": {
        "members": {
            "CommonRoadFileReader(xml).open": V + "file cases: goal region written and read back, lanelet goals rebuilt from the "
                                                  "lanelet polygons of the network in the file (GoalRegionFactory / StateFactory)",
            "CommonRoadFileReader(protobuf).open": V + "file cases with fmt=pb"}},
}
# members of the shape classes that cannot influence contains_point (export / rendering / comparison: C06, C12)
SHAPE_OTHER = {"draw", "shapely_object", "rotate_translate_local", "vertices", "center", "__eq__", "__hash__", "__str__"}

# every State class of commonroad.scenario.state with its dataclass fields (CustomState: free)
STATE_FIELDS = {
    "InitialState": ["time_step", "position", "orientation", "velocity", "acceleration", "yaw_rate", "slip_angle"],
    "PMState": ["time_step", "position", "velocity", "velocity_y"],
    "ExtendedPMState": ["time_step", "position", "velocity", "orientation", "acceleration"],
    "KSState": ["time_step", "position", "steering_angle", "velocity", "orientation"],
    "KSTState": ["time_step", "position", "steering_angle", "velocity", "orientation", "hitch_angle"],
    "STState": ["time_step", "position", "steering_angle", "velocity", "orientation", "slip_angle", "yaw_rate"],
    "STDState": ["time_step", "position", "steering_angle", "velocity", "orientation", "slip_angle", "yaw_rate",
                 "front_wheel_angular_speed", "rear_wheel_angular_speed"],
    "MBState": ["time_step", "position", "steering_angle", "velocity", "orientation", "yaw_rate", "roll_angle", "roll_rate",
                "pitch_angle", "pitch_rate", "velocity_y", "position_z", "velocity_z", "roll_angle_front", "roll_rate_front",
                "velocity_y_front", "position_z_front", "velocity_z_front", "roll_angle_rear", "roll_rate_rear", "velocity_y_rear",
                "position_z_rear", "velocity_z_rear", "left_front_wheel_angular_speed", "right_front_wheel_angular_speed",
                "left_rear_wheel_angular_speed", "right_rear_wheel_angular_speed", "delta_y_f", "delta_y_r"],
    "LongitudinalState": ["time_step", "longitudinal_position", "velocity", "acceleration", "jerk"],
    "LateralState": ["time_step", "lateral_position", "orientation", "curvature", "curvature_rate"],
    "InputState": ["time_step", "steering_angle_speed", "acceleration"],
    "PMInputState": ["time_step", "acceleration", "acceleration_y"],
    "LKSInputState": ["time_step", "jerk_dot", "kappa_dot_dot"],
    "CustomState": ["time_step"],
}
STATE_CLASSES = list(STATE_FIELDS)
KEY_OF = {"position": "pos", "velocity": "v", "orientation": "th", "velocity_y": "vy"}
ATTR_OF = {v: k for k, v in KEY_OF.items()}
_DIM_CHECKED = [False]


def _members(C):
    """public members and operator methods a class defines itself"""
    import inspect
    out = []
    for k, v in vars(C).items():
        if not (inspect.isfunction(v) or isinstance(v, (property, classmethod, staticmethod))):
            continue
        if k.startswith("_") and not (k.startswith("__") and k.endswith("__")):
            continue
        if k in ("__init__", "__repr__", "__post_init__"):
            continue
        out.append(k)
    return out


def check_dimensions():
    if _DIM_CHECKED[0]:
        return
    import dataclasses
    import inspect
    import commonroad.scenario.state as S
    from commonroad.common.util import AngleInterval, Interval
    from commonroad.geometry.shape import Circle, Polygon, Rectangle, ShapeGroup
    from commonroad.planning.goal import GoalRegion
    from commonroad.planning.planning_problem import PlanningProblem, PlanningProblemSet
    classes = {"GoalRegion": GoalRegion, "PlanningProblem": PlanningProblem, "PlanningProblemSet": PlanningProblemSet,
               "Interval": Interval, "AngleInterval": AngleInterval, "State": S.State, "CustomState": S.CustomState,
               "PMState": S.PMState, "ExtendedPMState": S.ExtendedPMState, "Rectangle": Rectangle, "Circle": Circle,
               "Polygon": Polygon, "ShapeGroup": ShapeGroup}
    problems = []
    for name, C in classes.items():
        row = DIMENSIONS[name]
        if "ctor" in row:
            sig = [p for p in inspect.signature(C.__init__).parameters if p != "self"]
            if name == "State":
                sig = [f.name for f in dataclasses.fields(S.State)]
            for p in sig:
                if p not in row["ctor"]:
                    problems.append(f"{name}.__init__ has a parameter '{p}' the dimension table does not know")
        other = SHAPE_OTHER if name in ("Rectangle", "Circle", "Polygon", "ShapeGroup") else set()
        for k in _members(C):
            if k not in row["members"] and k not in other and k not in STATE_FIELDS.get(name, []):
                problems.append(f"{name}.{k} is a public member the dimension table does not know")
    found = {n: c for n, c in vars(S).items() if inspect.isclass(c) and issubclass(c, S.State) and c is not S.State}
    for n, c in found.items():
        if n not in STATE_FIELDS:
            problems.append(f"state class {n} is not in the table of state classes")
            continue
        fields = [f.name for f in dataclasses.fields(c)]
        for f in fields:
            if f not in STATE_FIELDS[n]:
                problems.append(f"{n} has a field '{f}' the table of state classes does not know")
        for k in _members(c):
            if n not in DIMENSIONS or k not in DIMENSIONS[n]["members"]:
                problems.append(f"{n}.{k} is a public member the dimension table does not know")
    for n in STATE_FIELDS:
        if n not in found:
            problems.append(f"state class {n} of the table does not exist in commonroad.scenario.state")
    if problems:
        raise InfraError("C08 dimension table is out of date (extend DIMENSIONS / STATE_FIELDS and the generator): " + "; ".join(problems))
    _DIM_CHECKED[0] = True


def dimension_count():
    return sum(len(r.get("ctor", {})) + len(r["members"]) for r in DIMENSIONS.values()) + sum(len(v) for v in STATE_FIELDS.values())


# ------------------------------------------------------------------------------------------------ typed numbers
# a number in a spec is a plain JSON int / float, or {"n": value, "ty": "i64" | "i32" | "f64" | "f32"} (numpy scalar types)

def num(x):
    if isinstance(x, dict):
        import numpy as np
        return {"i64": np.int64, "i32": np.int32, "f64": np.float64, "f32": np.float32}[x["ty"]](x["n"])
    return x


def val(x):
    return x["n"] if isinstance(x, dict) else x


def ty(x):
    return x["ty"] if isinstance(x, dict) else ("i" if isinstance(x, int) else "f")


def fv(x):
    return frac(val(x))


def typed(r, x, p=0.12, allow32=True):
    """wrap a plain number into a numpy-typed one now and then (f32 only when exactly representable)"""
    if isinstance(x, dict) or r.random() >= p:
        return x
    if isinstance(x, int):
        return {"n": x, "ty": r.choice(["i64", "i64", "i32"])}
    import numpy as np
    if allow32 and r.random() < 0.5:
        return {"n": float(np.float32(x)), "ty": "f32"}
    return {"n": x, "ty": "f64"}


# ------------------------------------------------------------------------------------------------ shapes
# geom's spec format plus construction flags: rect "dc" (centre omitted), "do" (orientation omitted); circ "dc"; poly "closed"
# (first vertex repeated), "rev" (ring reversed); "ints" (int parameters / int arrays); groups may nest, be empty, repeat a member;
# "inexact": the boundary is only known up to rounding (after a rotation)

def gen_shape_x(r, depth=0):
    sp = geom.gen_shape(r, kinds=("rect", "circ", "poly", "group") if depth == 0 else ("rect", "circ", "poly"))
    return decorate_shape(r, sp, depth)


def decorate_shape(r, sp, depth=0):
    k = sp["k"]
    if k == "rect":
        if r.random() < 0.12:
            sp["c"], sp["dc"] = [0.0, 0.0], True
        if sp["o"] == 0 and r.random() < 0.3:
            sp["do"] = True
        if r.random() < 0.12:
            sp["l"], sp["w"], sp["c"], sp["ints"] = r.randint(1, 10), r.randint(1, 6), [r.randint(-20, 20), r.randint(-20, 20)], True
            if sp.get("dc"):
                sp["c"] = [0, 0]
    elif k == "circ":
        if r.random() < 0.12:
            sp["c"], sp["dc"] = [0.0, 0.0], True
        if r.random() < 0.12:
            sp["r"], sp["c"], sp["ints"] = r.randint(1, 10), [0, 0] if sp.get("dc") else [r.randint(-20, 20), r.randint(-20, 20)], True
    elif k == "poly":
        if r.random() < 0.2:
            sp["closed"] = True
        if r.random() < 0.3:
            sp["rev"] = True
        if r.random() < 0.1:
            x, y = r.randint(-20, 20), r.randint(-20, 20)
            sp["v"], sp["ints"] = r.choice([[[x, y], [x + 4, y], [x + 4, y + 3], [x, y + 3]], [[x, y], [x + 5, y + 1], [x + 2, y + 6]]]), True
    else:
        sp["s"] = [decorate_shape(r, s, depth + 1) for s in sp["s"]]
        roll = r.random()
        if roll < 0.05:
            sp["s"] = []
        elif roll < 0.22 and depth == 0:
            inner = {"k": "group", "s": [decorate_shape(r, geom.gen_shape(r, kinds=("rect", "circ", "poly")), 2)
                                         for _ in range(r.randint(1, 2))]}
            sp["s"].insert(r.randint(0, len(sp["s"])), inner)
        elif roll < 0.3 and sp["s"]:
            sp["s"].append(copy.deepcopy(sp["s"][0]))
    return sp


def build_shape_x(sp):
    import numpy as np
    from commonroad.geometry.shape import Circle, Polygon, Rectangle, ShapeGroup
    k = sp["k"]
    arr = (lambda a: np.array(a, dtype=int)) if sp.get("ints") else (lambda a: np.array(a, dtype=float))
    if k == "rect":
        args = [sp["l"], sp["w"]]
        if sp.get("dc"):
            return Rectangle(*args) if sp.get("do") else Rectangle(*args, orientation=sp["o"])
        return Rectangle(*args, arr(sp["c"])) if sp.get("do") else Rectangle(*args, arr(sp["c"]), sp["o"])
    if k == "circ":
        return Circle(sp["r"]) if sp.get("dc") else Circle(sp["r"], arr(sp["c"]))
    if k == "poly":
        vs = list(sp["v"])
        if sp.get("rev"):
            vs = vs[::-1]
        if sp.get("closed"):
            vs = vs + [vs[0]]
        return Polygon(arr(vs))
    return ShapeGroup([build_shape_x(s) for s in sp["s"]])


def tag_shape(ctx, sp):
    k = sp["k"]
    if k == "group":
        if not sp["s"]:
            ctx.tag("shape/empty-group")
        for s in sp["s"]:
            if s["k"] == "group":
                ctx.tag("shape/nested-group")
            tag_shape(ctx, s)
        return
    if sp.get("closed"):
        ctx.tag("shape/closed-ring")
    if sp.get("dc"):
        ctx.tag("shape/default-centre")
    if sp.get("ints"):
        ctx.tag("shape/int-array")


def near_boundary(sp, p, band):
    """p within `band` of the boundary of a primitive spec"""
    p = (frac(p[0]), frac(p[1]))
    if sp["k"] == "circ":
        d2 = (p[0] - frac(sp["c"][0])) ** 2 + (p[1] - frac(sp["c"][1])) ** 2
        rr = frac(sp["r"])
        lo = max(Fraction(0), rr - band)
        return lo * lo <= d2 <= (rr + band) ** 2
    ring = geom.rect_vertices(sp) if sp["k"] == "rect" else [(frac(x), frac(y)) for x, y in sp["v"]]
    return geom.point_in_ring(p, ring)[1] <= band * band


def pt_in(sp, p):
    """(member, ambiguous) of point p in the closed set the spec denotes"""
    if sp["k"] == "group":
        res = [pt_in(s, p) for s in sp["s"]]
        sure = any(m and not a for m, a in res)
        return any(m for m, _ in res), (not sure) and any(a for _, a in res)
    m, a = geom.point_in_shape(sp, p)
    if sp.get("inexact"):
        a = near_boundary(sp, p, BAND_INEXACT)
    return m, a


def points_of(r, sp):
    """points inside / outside / on the boundary of the spec; something even for an empty group"""
    def flat(s):
        return [x for m in s["s"] for x in flat(m)] if s["k"] == "group" else [s]
    prims = flat(sp)
    if not prims:
        return [[r.randint(-320, 320) / 16.0, r.randint(-320, 320) / 16.0]]
    return geom.interesting_points(r, {"k": "group", "s": prims})


def tr_shape(sp, t, a):
    """the spec after translate_rotate(t, a): exact for a == 0 (grid values), otherwise marked inexact"""
    k = sp["k"]
    if k == "group":
        return {"k": "group", "s": [tr_shape(s, t, a) for s in sp["s"]]}
    if a == 0:
        mv = lambda p: [float(frac(p[0]) + frac(t[0])), float(frac(p[1]) + frac(t[1]))]  # noqa
    else:
        c, s_ = frac(math.cos(a)), frac(math.sin(a))

        def mv(p):
            x, y = frac(p[0]) + frac(t[0]), frac(p[1]) + frac(t[1])
            return [float(c * x - s_ * y), float(s_ * x + c * y)]
    out = {"k": k}
    if sp.get("inexact") or a != 0:
        out["inexact"] = True
    if k == "rect":
        o = sp["o"] if a == 0 else float(sp["o"]) + a
        while o > 2 * math.pi:          # make_valid_orientation
            o -= 2 * math.pi
        while o < -2 * math.pi:
            o += 2 * math.pi
        out.update(l=sp["l"], w=sp["w"], c=mv(sp["c"]), o=o)
    elif k == "circ":
        out.update(r=sp["r"], c=mv(sp["c"]))
    else:
        out["v"] = [mv(v) for v in sp["v"]]
    return out


def wire_obj_shape(shape):
    """the shape as the library stores it, for the model (groups flattened: a group contains what a member contains)"""
    from commonroad.geometry.shape import Circle, Polygon, Rectangle, ShapeGroup

    def prim(s):
        if isinstance(s, Rectangle):
            o = s.orientation
            c, s_ = (1.0, 0.0) if o == 0 else (math.cos(o), math.sin(o))
            return {"k": "rect", "l": rat(s.length), "w": rat(s.width), "c": [rat(s.center[0]), rat(s.center[1])], "cos": rat(c),
                    "sin": rat(s_)}
        if isinstance(s, Circle):
            return {"k": "circ", "r": rat(s.radius), "c": [rat(s.center[0]), rat(s.center[1])]}
        if isinstance(s, Polygon):
            return {"k": "poly", "v": [[rat(x), rat(y)] for x, y in s.vertices]}
        raise InfraError(f"C08: unknown shape class {type(s).__name__}")

    def walk(s, out):
        if isinstance(s, ShapeGroup):
            for m in s.shapes:
                walk(m, out)
        else:
            out.append(prim(s))
        return out
    if isinstance(shape, ShapeGroup):
        return {"k": "group", "s": walk(shape, [])}
    return prim(shape)


# ------------------------------------------------------------------------------------------------ goal states

def goal_classes(g):
    """State classes that can hold the goal state's constraints (goal states need not be CustomStates)"""
    need = {"time_step"} | ({"position"} if "pos" in g else set()) | ({"orientation"} if "ori" in g else set()) \
        | ({"velocity"} if "vel" in g else set())
    return [c for c, f in STATE_FIELDS.items() if c != "CustomState" and need <= set(f)]


def gen_goal_state(r, allow_lanelet=True):
    a, b = sorted([r.randint(0, 12), r.randint(0, 12)])
    if r.random() < 0.12:
        b = a
    if r.random() < 0.04:
        a, b = a + 10 ** 6, b + 10 ** 6
    g = {"time": [a, b]}
    if r.random() < 0.3:
        g["time"] = [a + 0.0, b + 0.5]
    g["time"] = [typed(r, x, 0.06, False) for x in g["time"]]
    if r.random() < 0.2:
        g["time_how"] = r.choice(["setters", "add", "sub", "mul", "div"])
    if r.random() < 0.6:
        if allow_lanelet and r.random() < 0.25:
            # lanelet goal: union of rectangles/polygons standing for lanelet polygons
            n = r.randint(1, 3)
            g["pos"] = {"k": "group", "s": [geom.gen_shape(r, kinds=("poly", "rect"), depth=1, exact=True) for _ in range(n)]}
            g["lanelets"] = [r.randint(1, 50) for _ in range(n)]
        else:
            g["pos"] = gen_shape_x(r)
    if r.random() < 0.6:
        g["ori"] = gen_ori(r)
        if r.random() < 0.35:
            # the end-point setters take angles within [-2pi, 2pi] only (start + length may exceed 2pi by an ulp)
            inside = -2 * math.pi <= g["ori"][0] and g["ori"][1] <= 2 * math.pi
            g["ori_how"] = r.choice((["setters", "setters2"] if inside else []) + ["outside", "shift", "scaled"])
    if r.random() < 0.6:
        g["vel"] = gen_vel(r)
        if r.random() < 0.2:
            g["vel_how"] = r.choice(["setters", "add", "sub", "mul", "div"])
    if r.random() < 0.3:
        cs = goal_classes(g)
        if cs:
            g["cls"] = r.choice(cs)
    elif r.random() < 0.15:
        g["none_attrs"] = r.sample(["position", "velocity", "orientation", "acceleration", "velocity_y"], r.randint(1, 2))
    return g


def gen_ori(r):
    pi = math.pi
    length = r.choice([0.0, 0.2, 1.0, pi - 1e-6, pi, pi + 0.2, 4.0, 5.5, 6.0, r.uniform(0, 2 * pi - 1e-6), 1, 3])
    start = r.choice([-pi, pi - 0.1, -0.1, 0.0, 3.0, -3.3, r.uniform(-2 * pi, 2 * pi - float(length)), -1, 0, 2])
    start = max(-2 * pi, min(start, 2 * pi - float(length)))
    return [start, start + length]


def gen_vel(r):
    roll = r.random()
    if roll < 0.12:
        a = r.choice([0, 5, 5.0, 12.5, r.randint(0, 400) / 16.0])
        return [a, a]
    if roll < 0.22:
        return r.choice([[-8, -2], [-3.5, 4.0], [-5.0, 0], [-10.0, -10.0], [-1, 30]])
    if roll < 0.26:
        return [r.choice([0, 1.0e6]), 1.0e6 + r.randint(0, 64) / 16.0]
    a, b = sorted([r.choice([0, 5, 5.0, 10, 12.5, 20, r.randint(0, 400) / 16.0]), r.choice([5, 5.0, 13, 25, 30.5, r.randint(0, 400) / 16.0])],
                  key=float)
    return [typed(r, a, 0.06, False), typed(r, b, 0.06, False)]


def build_interval(ends, how):
    """a plain Interval with the given ends, reached by the given construction path (all paths exact on the grid values)"""
    from commonroad.common.util import Interval
    a, b = num(ends[0]), num(ends[1])
    if how == "setters":
        iv = Interval(a - 3, b + 2)
        iv.start = a
        iv.end = b
        return iv
    if how == "add":
        return Interval(a - 1, b - 1) + 1
    if how == "sub":
        return Interval(a + 1, b + 1) - 1
    if how == "mul":
        return Interval(a / 2, b / 2) * 2 if all(isinstance(val(x), float) for x in ends) else Interval(a, b) * 1
    if how == "div":
        return Interval(a * 2, b * 2) / 2
    return Interval(a, b)


def build_angle(ends, how):
    from commonroad import TWO_PI
    from commonroad.common.util import AngleInterval
    a, b = num(ends[0]), num(ends[1])
    if how == "setters":
        iv = AngleInterval(a, a)
        iv.end = b
        return iv
    if how == "setters2":
        iv = AngleInterval(b, b)
        iv.start = a
        return iv
    if how == "outside":
        k = 2 if a < 0 else -2
        return AngleInterval(a + k * TWO_PI, b + k * TWO_PI)
    if how == "shift":
        return AngleInterval(a - 0.5, b - 0.5) + 0.5
    if how == "scaled":
        return AngleInterval(a / 2, b / 2) * 2
    return AngleInterval(a, b)


def build_goal_state(g):
    import commonroad.scenario.state as S
    kw = {"time_step": build_interval(g["time"], g.get("time_how"))}
    if "pos" in g:
        kw["position"] = build_shape_x(g["pos"])
    if "ori" in g:
        kw["orientation"] = build_angle(g["ori"], g.get("ori_how"))
    if "vel" in g:
        kw["velocity"] = build_interval(g["vel"], g.get("vel_how"))
    cls = g.get("cls", "CustomState")
    if cls == "CustomState":
        for n in g.get("none_attrs", []):
            kw.setdefault(n, None)
    return getattr(S, cls)(**kw)


def lanelet_arg(goals, mode):
    """(pass the argument?, value) of lanelets_of_goal_position"""
    auto = {i: list(g["lanelets"]) for i, g in enumerate(goals) if "lanelets" in g}
    if mode == "omitted":
        return False, None
    if mode == "none":
        return True, None
    if mode == "empty":
        return True, {}
    if mode == "extra":
        d = dict(auto)
        d.setdefault(0, [3, 1, 3])
        d[len(goals) + 2] = [7]
        d[len(goals)] = []
        return True, d
    return True, (auto or None)


def build_goal(goals, lan_mode="auto", alias=False):
    from commonroad.planning.goal import GoalRegion
    sts = [build_goal_state(g) for g in goals]
    if alias:
        # "alias_of": j — the goal state holds the SAME Shape object as goal state j (one shape used in two goals)
        for i, g in enumerate(goals):
            j = g.get("alias_of")
            if j is not None and 0 <= j < i and "pos" in g and goals[j].get("pos") == g["pos"]:
                sts[i].position = sts[j].position
    give, d = lanelet_arg(goals, lan_mode)
    return GoalRegion(sts, d) if give else GoalRegion(sts)


def tag_goal(ctx, g):
    if "lanelets" in g:
        ctx.tag("goal/lanelet")
    if "ori" in g:
        if val(g["ori"][1]) - val(g["ori"][0]) > math.pi:
            ctx.tag("goal/long-angle")
        if g.get("ori_how"):
            ctx.tag("goal/ori-how/" + g["ori_how"].rstrip("2"))
    for k in ("time_how", "vel_how"):
        if g.get(k):
            ctx.tag("goal/iv-how/" + ("setters" if g[k] == "setters" else "arith"))
    if "vel" in g:
        if fv(g["vel"][0]) == fv(g["vel"][1]):
            ctx.tag("goal/vel-equal-ends")
        if fv(g["vel"][0]) < 0:
            ctx.tag("goal/vel-negative")
    if fv(g["time"][0]) == fv(g["time"][1]):
        ctx.tag("goal/time-single")
    if any(isinstance(x, dict) for k in ("time", "vel", "ori") if k in g for x in g[k]):
        ctx.tag("goal/np-ends")
    ctx.tag("goal/cls/CustomState" if g.get("cls", "CustomState") == "CustomState" else "goal/cls/dataclass")
    if "pos" in g:
        tag_shape(ctx, g["pos"])


# ------------------------------------------------------------------------------------------------ checked states
# {"cls", "t", ["pos"], ["v"], ["th"], ["vy"], ["extra": {attr: number}], ["none": [attr, ...]], ["how"], ["pos_ty"]}
# a key that is absent = the attribute is None / does not exist (old format: PMState with "vx", "vy")

CLASS_WEIGHTS = [("PMState", 10), ("KSState", 8), ("CustomState", 8), ("MBState", 6), ("KSTState", 2), ("STState", 4), ("STDState", 2),
                 ("ExtendedPMState", 4), ("InitialState", 4), ("LongitudinalState", 2), ("LateralState", 2), ("InputState", 1),
                 ("PMInputState", 1), ("LKSInputState", 1)]
EXTRA_CUSTOM = ["acceleration", "yaw_rate", "slip_angle", "jerk", "foo_bar"]


def norm_state(st):
    if "vx" in st:
        st = dict(st)
        st["v"] = st.pop("vx")
    return st


def gen_state(r, goals, cls=None, complete=False):
    """A state whose values sit at / near the constraint boundaries of a randomly chosen goal state."""
    g = r.choice(goals) if goals else {"time": [0, 5]}
    if cls is None:
        cls = r.choices([c for c, _ in CLASS_WEIGHTS], [w for _, w in CLASS_WEIGHTS])[0]
    fields = STATE_FIELDS[cls]
    has = (lambda a: True) if cls == "CustomState" else (lambda a: a in fields)
    p_keep = 1.0 if complete else 0.94
    t0, t1 = val(g["time"][0]), val(g["time"][1])
    t = r.choice([t0, t1, t0 - 1, t1 + 1, r.randint(0, 12), (t0 + t1) / 2])
    if isinstance(t, float) and t == int(t) and r.random() < 0.5:
        t = int(t)
    st = {"cls": cls, "t": typed(r, t, 0.15, False)}
    if has("position") and r.random() < p_keep:
        if "pos" in g and r.random() < 0.9:
            st["pos"] = r.choice(points_of(r, g["pos"]))
        elif "pos" in g or r.random() < 0.7 or complete:
            st["pos"] = [r.randint(-320, 320) / 16.0, r.randint(-320, 320) / 16.0]
    # velocity / orientation targets
    if "vel" in g:
        lo, hi = val(g["vel"][0]), val(g["vel"][1])
        v = r.choice([lo, hi, (lo + hi) / 2, hi + 0.0625, lo - 0.0625, max(0, lo - 0.0625), r.randint(0, 500) / 16.0])
    else:
        v = r.choice([0, 3, 12.5, -2.5, r.randint(0, 500) / 16.0])
    if "ori" in g:
        a, b = val(g["ori"][0]), val(g["ori"][1])
        th = r.choice([a, b, (a + b) / 2, b + 0.01, a - 0.01, a + 2 * math.pi, b - 2 * math.pi, r.uniform(-6.2, 6.2),
                       r.randint(-6, 6), (a + b) / 2 + math.pi])
    else:
        th = r.choice([0.0, 1.0, -2.5, r.uniform(-6.2, 6.2), 2])
    if isinstance(th, float):
        th = max(-2 * math.pi, min(2 * math.pi, th))
    want_v = has("velocity") and r.random() < p_keep
    want_th = has("orientation") and r.random() < (p_keep if cls != "CustomState" else 0.6)
    want_vy = has("velocity_y") and (cls == "PMState" or r.random() < 0.45) and (r.random() < p_keep or complete)
    if want_vy and not want_th:
        # the heading comes from the velocity vector: exact Pythagorean directions or polar from (v, th)
        if r.random() < 0.4:
            a3, b4 = r.choice([(3, 4), (4, 3), (5, 12), (8, 15), (0, 1), (1, 0)])
            sx, sy = r.choice([1, -1]), r.choice([1, -1])
            k = r.choice([1, 2, 0.5, float(v) / math.hypot(a3, b4) if float(v) > 0 else 1.0])
            vx, vy = sx * a3 * k, sy * b4 * k
        else:
            vv = float(v) if float(v) > 0 else 1.0
            vx, vy = vv * math.cos(th), vv * math.sin(th)
        if want_v:
            st["v"] = typed(r, vx)
        st["vy"] = typed(r, vy)
    else:
        if want_v:
            st["v"] = typed(r, v)
        if want_th:
            st["th"] = typed(r, th)
        if want_vy:
            st["vy"] = typed(r, r.choice([0.0, 0.5, -1.0, 3, v]))
    if "pos" in st:
        x, y = st["pos"]
        roll = r.random()
        if roll < 0.07:
            import numpy as np
            st["pos"], st["pos_ty"] = [float(np.float32(x)), float(np.float32(y))], "f32"
        elif roll < 0.14 or (roll < 0.5 and x == int(x) and y == int(y)):
            st["pos"], st["pos_ty"] = [int(round(x)), int(round(y))], "i"
    others = EXTRA_CUSTOM if cls == "CustomState" else [f for f in fields if f not in KEY_OF and f != "time_step"]
    if others and r.random() < 0.4:
        st["extra"] = {n: r.choice([0.0, 1, -0.25, 2.5]) for n in r.sample(others, min(len(others), r.randint(1, 2)))}
    if cls == "CustomState" and r.random() < 0.3:
        free = [n for n, k in KEY_OF.items() if k not in st]
        if free:
            st["none"] = r.sample(free, r.randint(1, len(free)))
    if r.random() < 0.4:
        st["how"] = r.choice(["assign", "fill", "deepcopy", "custom_add" if cls == "CustomState" else "convert"])
    return st


def state_kwargs(st):
    import numpy as np
    kw = {"time_step": num(st["t"])}
    if "pos" in st:
        kw["position"] = np.array(st["pos"], dtype={"i": int, "f32": np.float32}.get(st.get("pos_ty"), float))
    for k in ("v", "th", "vy"):
        if k in st:
            kw[ATTR_OF[k]] = num(st[k])
    for n, x in st.get("extra", {}).items():
        kw[n] = x
    for n in st.get("none", []):
        kw.setdefault(n, None)
    return kw


def build_state(st):
    import commonroad.scenario.state as S
    st = norm_state(st)
    cls = getattr(S, st["cls"])
    kw = state_kwargs(st)
    how = st.get("how", "ctor")
    if how == "assign":
        obj = cls()
        for n, x in kw.items():
            setattr(obj, n, x)
        return obj
    if how == "custom_add" and st["cls"] == "CustomState":
        obj = cls(time_step=kw["time_step"])
        for n, x in kw.items():
            if n != "time_step":
                obj.add_attribute(n)
                if x is not None:
                    obj.set_value(n, x)
        return obj
    if how == "convert" and st["cls"] != "CustomState":
        return S.CustomState(**kw).convert_state_to_state(cls())
    obj = cls(**kw)
    if how == "fill":
        obj.fill_with_defaults()
    if how == "deepcopy":
        obj = copy.deepcopy(obj)
    return obj


def effective(st):
    """the four attributes the goal check can read, as the state object carries them: {"t", "pos", "v", "th", "vy"} (None = absent)"""
    st = norm_state(st)
    e = {k: st.get(k) for k in ("t", "pos", "v", "th", "vy")}
    if st.get("how") == "fill":
        names = STATE_FIELDS[st["cls"]] if st["cls"] != "CustomState" else list(st.get("none", []))
        for n, k in KEY_OF.items():
            if n in names and e[k] is None:
                e[k] = [0.0, 0.0] if k == "pos" else 0.0
    return e


def tag_state(ctx, st):
    st = norm_state(st)
    ctx.tag("state/" + st["cls"])
    for k in ("t", "v", "th", "vy"):
        if k in st:
            if ty(st[k]) == "i":
                ctx.tag("int-values")
            elif ty(st[k]) != "f":
                ctx.tag("num/" + ty(st[k]))
    if st.get("pos_ty"):
        ctx.tag("pos/int-array" if st["pos_ty"] == "i" else "pos/f32-array")
    if st.get("how"):
        ctx.tag("state-how/" + st["how"])
    if "vy" in st and "v" in st:
        if st["cls"] != "PMState":
            ctx.tag("state/vy-with-orientation" if "th" in st else "state/vy-without-orientation")
        if "th" not in st:
            if val(st["v"]) < 0 < val(st["vy"]):
                ctx.tag("pm/quadrant2")
            if val(st["v"]) < 0 and val(st["vy"]) < 0:
                ctx.tag("pm/quadrant3")
    if st["cls"] == "CustomState" and st.get("extra"):
        ctx.tag("state/custom-extra")


# ------------------------------------------------------------------------------------------------ oracle (property text on the specs)

def _is32(*xs):
    return any(x is not None and ty(x) == "f32" for x in xs)


def oracle_one(g, st):
    """'T' / 'F' / '?' (ambiguous: inside a tolerance band) / 'E' (goal constrains an attribute the state lacks)
    for one goal state spec and one state spec, straight from the property text; attribute by attribute."""
    tau = frac(_tau_eps()[0])
    e = effective(st)
    v, vy, th = e["v"], e["vy"], e["th"]
    # the documented ValueError: position / velocity missing; heading neither stored nor derivable from (vx, vy)
    if ("pos" in g and e["pos"] is None) or ("vel" in g and v is None) or ("ori" in g and th is None and (v is None or vy is None)):
        return "E"
    attrs = []          # (ok, ambiguous) per constrained attribute
    attrs.append((fv(g["time"][0]) <= fv(e["t"]) <= fv(g["time"][1]), False))
    if "pos" in g:
        attrs.append(pt_in(g["pos"], e["pos"]))
    vector = v is not None and vy is not None       # speed / heading come from the velocity vector
    if "ori" in g:
        A, B = fv(g["ori"][0]), fv(g["ori"][1])
        derived = th is None
        h = frac(math.atan2(float(num(vy)), float(num(v)))) if derived else fv(th)
        k0 = math.ceil((A - h) / tau)
        member = h + k0 * tau <= B
        dist = min(min(abs(h + k * tau - A), abs(h + k * tau - B)) for k in (k0 - 1, k0, k0 + 1))
        if not derived and _is32(th):
            amb = dist < BAND32 * max(Fraction(1), abs(h))
        elif derived or g.get("ori_inexact"):
            amb = dist < BAND
        else:
            amb = dist < BAND and h not in (A, B)      # literally an end point: closed interval, must be contained
        attrs.append((member, amb))
    if "vel" in g:
        lo, hi = fv(g["vel"][0]), fv(g["vel"][1])
        if vector:
            sp2 = fv(v) ** 2 + fv(vy) ** 2
            member = hi >= 0 and sp2 <= hi * hi and (lo <= 0 or lo * lo <= sp2)     # speeds are non-negative: compare squares
            amb = False
            for end in (lo, hi):
                if end < 0:
                    continue
                if sp2 != end * end and abs(sp2 - end * end) <= BAND * max(Fraction(1), abs(end)) * 4:
                    amb = True
                if _is32(v, vy) and abs(sp2 - end * end) <= end * end * BAND32 * 4 + BAND32:
                    amb = True
                # equal squares: still subject to the rounding of hypot unless the root comes out exactly
                if sp2 == end * end and frac(math.hypot(float(val(v)), float(val(vy)))) != abs(end):
                    amb = True
            attrs.append((member, amb))
        else:
            x = fv(v)
            amb = _is32(v) and any(0 < abs(x - end) <= BAND32 * max(Fraction(1), abs(end)) for end in (lo, hi))
            attrs.append((lo <= x <= hi, amb))
    if any((not ok) and (not a) for ok, a in attrs):
        return "F"
    if all(ok and not a for ok, a in attrs):
        return "T"
    return "?"


def oracle_state(specs, st):
    """(want, ambiguous): want = {"ok": bool} | {"err": "value"} | None"""
    res = [oracle_one(g, st) for g in specs]
    if "E" in res:
        return {"err": "value"}, False, res
    if "T" in res:
        return {"ok": True}, False, res
    if all(x == "F" for x in res):
        return {"ok": False}, False, res
    return None, True, res


# ------------------------------------------------------------------------------------------------ model arguments

def wire_goals(goal_obj):
    """the goal region as the library stores it right now (intervals and shapes read back from the objects)"""
    out = []
    for gs in goal_obj.state_list:
        pos = getattr(gs, "position", None)
        ori = getattr(gs, "orientation", None)
        vel = getattr(gs, "velocity", None)
        out.append({"time": [rat(gs.time_step.start), rat(gs.time_step.end)],
                    "pos": None if pos is None else wire_obj_shape(pos),
                    "ori": None if ori is None else [rat(ori.start), rat(ori.end)],
                    "vel": None if vel is None else [rat(vel.start), rat(vel.end)]})
    return out


def wire_state(st):
    import numpy as np
    e = effective(st)
    v, vy = e["v"], e["vy"]
    s = {"t": rat(val(e["t"])), "pos": None if e["pos"] is None else [rat(e["pos"][0]), rat(e["pos"][1])],
         "ori": None if e["th"] is None else rat(val(e["th"])), "vel": None if v is None else rat(val(v)),
         "velY": None if vy is None else rat(val(vy))}
    hyp, at2 = [], []
    if v is not None and vy is not None:
        # the transcendental functions as finite tables: the values the library could evaluate, for the RIGHT and for plausible
        # WRONG argument pairs; which pair is looked up is the model's choice (speed = hyp vx vy, heading = at2 vy vx)
        nv, nvy = num(v), num(vy)
        h = float(np.linalg.norm(np.array([nv, nvy])))
        hyp = [[rat(val(v)), rat(val(vy)), rat(h)], [rat(val(vy)), rat(val(v)), rat(h)]]
        at2 = [[rat(val(vy)), rat(val(v)), rat(math.atan2(nvy, nv))]]
        for (a, b) in ((val(vy), h), (val(v), val(vy)), (h, val(vy))):
            if not any(r_[0] == rat(a) and r_[1] == rat(b) for r_ in at2):
                at2.append([rat(a), rat(b), rat(math.atan2(a, b))])
    return s, hyp, at2


def pos_ambiguous(specs, st):
    e = effective(st)
    return e["pos"] is not None and any("pos" in g and pt_in(g["pos"], e["pos"])[1] for g in specs)


# ------------------------------------------------------------------------------------------------ histories: what a step does to the specs

ATTR_NAME = {"time": "time_step", "pos": "position", "ori": "orientation", "vel": "velocity"}
SHAPE_KEY = {"length": "l", "width": "w", "center": "c", "orientation": "o", "radius": "r", "vertices": "v"}


def tr_goal(g, t, a):
    g = dict(g)
    if "pos" in g:
        g["pos"] = tr_shape(g["pos"], t, a)
    if "ori" in g and a != 0:
        g["ori"] = [float(val(g["ori"][0])) + a, float(val(g["ori"][1])) + a]
        g["ori_inexact"] = True
        g.pop("ori_how", None)
    return g


def spec_apply(specs, step):
    """the goal specs after the step (pure); queries, failing and read-only operations leave them as they are"""
    op = step["op"]
    specs = list(specs)
    if op == "set_list":
        how = step["how"]
        if how == "setter_new":
            return copy.deepcopy(step["goals"])
        if how == "append":
            return specs + [copy.deepcopy(step["goal"])]
        if how == "insert0":
            return [copy.deepcopy(step["goal"])] + specs
        if how == "pop":
            return specs[:step["i"]] + specs[step["i"] + 1:]
        if how == "reverse":
            return specs[::-1]
        if how == "setitem":
            specs[step["i"]] = copy.deepcopy(step["goal"])
        return specs
    if op == "set_attr":
        g = dict(specs[step["i"]])
        a = step["attr"]
        for k in (a + "_how", "ori_inexact" if a == "ori" else None, "lanelets" if a == "pos" else None):
            if k:
                g.pop(k, None)
        if step["val"] is None:
            g.pop(a, None)
        else:
            g[a] = copy.deepcopy(step["val"])
        if g.get("cls") and g["cls"] not in goal_classes(g):
            g.pop("cls")            # an attribute the class has no field for was attached: rebuilt as a CustomState
        specs[step["i"]] = g
        return specs
    if op == "pos_edit":
        g = copy.deepcopy(specs[step["i"]])
        sp = g["pos"] if step.get("j") is None else g["pos"]["s"][step["j"]]
        sp[SHAPE_KEY[step["attr"]]] = copy.deepcopy(step["val"])
        for k in {"center": ["dc", "ints"], "orientation": ["do"], "vertices": ["closed", "rev", "ints"], "length": ["ints"],
                  "width": ["ints"], "radius": ["ints"]}[step["attr"]]:
            sp.pop(k, None)
        specs[step["i"]] = g
        return specs
    if op in ("tr", "tr_all"):
        return [tr_goal(g, step["t"], step["a"]) for g in specs]
    return specs


# ------------------------------------------------------------------------------------------------ the world of one case

def _initial_state():
    import numpy as np
    from commonroad.scenario.state import InitialState
    return InitialState(time_step=0, position=np.array([0.0, 0.0]), velocity=0.0, orientation=0.0, yaw_rate=0.0, slip_angle=0.0)


class World:
    def __init__(self, case):
        from commonroad.common.util import Interval
        from commonroad.planning.goal import GoalRegion
        from commonroad.planning.planning_problem import PlanningProblem, PlanningProblemSet
        from commonroad.scenario.state import CustomState
        self.lan_mode = case.get("lan_mode", "auto")
        self.specs = copy.deepcopy(case["goals"])
        self.G = build_goal(self.specs, self.lan_mode, alias=True)
        pp = case.get("pp") or {}
        self.pid = pp.get("id", 1)
        self.PP = PlanningProblem(self.pid, _initial_state(), self.G)
        decoy = PlanningProblem(self.pid + 1, _initial_state(), GoalRegion([CustomState(time_step=Interval(0, 1))]))
        how = pp.get("set", "ctor")
        if how == "add":
            self.PPS = PlanningProblemSet()
            self.PPS.add_planning_problem(decoy)
            self.PPS.add_planning_problem(self.PP)
        else:
            self.PPS = PlanningProblemSet([self.PP, decoy] if how == "ctor_rev" else [decoy, self.PP])
        self.snap = None
        self.moved = None       # (goals as stored before a pure translation, translation): the model moves them itself
        self.stale = None       # name of the shape setter after which a goal shape answers from an outdated cache
        self.edited = False
        self.failed_op = False

    def goal(self, via):
        if via == "pp":
            return self.PP.goal
        if via == "pps":
            return self.PPS.find_planning_problem_by_id(self.pid).goal
        return self.G

    def problem(self, via):
        return self.PPS.find_planning_problem_by_id(self.pid) if via == "pps" else self.PP

    def snapshot(self):
        if self.snap is None:
            try:
                self.snap = wire_goals(self.G)
            except (AttributeError, TypeError):
                self.snap = False       # the goal region holds something that is no goal state (left behind by a rejected edit)
        return self.snap

    def dirty(self):
        self.snap, self.moved, self.edited = None, None, True

    def replace_goal(self, G):
        self.G = G
        self.PP.goal = G
        self.stale = None
        self.dirty()


def shape_is_stale(shape):
    """the library's own consistency: does the shape answer from the parameters it shows? (Rectangle caches its vertices and its
    polygon; Polygon keeps the polygon of its first vertices) — decides whether a wrong answer after a shape setter is the known
    stale-cache finding, and keeps the model (which is given the shown parameters) out of it"""
    import numpy as np
    from commonroad.geometry.shape import Polygon, Rectangle, ShapeGroup
    if isinstance(shape, ShapeGroup):
        return any(shape_is_stale(s) for s in shape.shapes)
    if isinstance(shape, Rectangle):
        fresh = Rectangle(shape.length, shape.width, shape.center, shape.orientation)
        return not (np.array_equal(fresh.vertices, shape.vertices)
                    and np.allclose(np.array(shape.shapely_object.exterior.coords), fresh.vertices, atol=0, rtol=0))
    if isinstance(shape, Polygon):
        b = shape.shapely_object.bounds
        vs = np.asarray(shape.vertices, dtype=float)
        return not (b[0] == vs[:, 0].min() and b[1] == vs[:, 1].min() and b[2] == vs[:, 0].max() and b[3] == vs[:, 1].max())
    return False


# ------------------------------------------------------------------------------------------------ running the steps

def _ans(r):
    return {"ok": bool(r[1])} if r[0] == "ok" else {"err": r[1]}


def do_query(ctx, W, st, via, sub, times=1, sobj=None):
    """one is_reached observation: correspondence with the model + oracle.  Returns (impl answer, wanted answer | None)"""
    st = norm_state(st)
    tag_state(ctx, st)
    ctx.tag("via/" + via)
    if sobj is None:
        sobj = build_state(st)
    goal = W.goal(via)
    want, amb, res = oracle_state(W.specs, st)
    impl, r = None, None
    for n in range(times):
        r = call(goal.is_reached, sobj)
        cur = _ans(r)
        if impl is not None and cur != impl:
            ctx.fail("C08/GoalRegion.is_reached/second-answer-differs",
                     f"is_reached answered {impl} and then {cur} for the same state object {st}", sub)
        if impl is None:
            impl = cur
    if times > 1:
        ctx.tag("hist/requery")
    if W.edited:
        ctx.tag("hist/query-after-edit")
    if W.failed_op:
        ctx.tag("hist/fail-then-query")
    if W.stale:
        ctx.tag("corr/stale-shape-skipped")
    elif pos_ambiguous(W.specs, st):
        ctx.tag("corr/position-ambiguous-skipped")     # shapely (floats) vs the exact model within the band of a boundary
    elif "?" in res and _is32(*[st.get(k) for k in ("v", "th", "vy")]):
        ctx.tag("corr/float32-band-skipped")           # numpy subtracts / compares float32 values in single precision
    elif W.snapshot() is False:
        ctx.tag("corr/unreadable-goal-skipped")
    elif getattr(ctx, "use_model", True):
        tau, eps = _tau_eps()
        s, hyp, at2 = wire_state(st)
        args = {"tau": rat(tau), "eps": rat(eps), "goals": W.snapshot(), "state": s, "hyp": hyp, "at2": at2}
        ctx.compare(sub, impl, ctx.driver.ask("C08", "is_reached", args), "GoalRegion.is_reached vs CR.Goal.isReached")
        if W.moved is not None:
            args = dict(args, goals=W.moved[0], t=[rat(W.moved[1][0]), rat(W.moved[1][1])])
            ctx.compare(sub, impl, ctx.driver.ask("C08", "is_reached_moved", args),
                        "GoalRegion.translate_rotate(t, 0) + is_reached vs CR.Goal.isReachedMoved")
            ctx.tag("corr/moved")
    if amb:
        ctx.excluded += 1
        return impl, None
    if "err" in want:
        ctx.tag("reached/error")
        n = len(res)
        bad = [i for i, x in enumerate(res) if x == "E"]
        if n >= 2:
            ctx.tag("err/first" if bad[0] == 0 else ("err/last" if bad[0] == n - 1 else "err/middle"))
        return impl, want          # the property does not fix the behaviour for inadmissible inputs (the model does: ValueError)
    ctx.tag("reached/true" if want["ok"] else "reached/false")
    if impl != want:
        if W.stale and _ans(call(build_goal(W.specs, W.lan_mode).is_reached, build_state(st))) == want:
            ctx.fail(f"C08/GoalRegion.is_reached/stale-after/{W.stale}",
                     f"is_reached = {impl} but the goal as edited through {W.stale} gives {want['ok']} (a goal region built afresh "
                     f"from the same data answers correctly) for state {st}", sub)
        elif "err" in impl:
            ctx.fail(f"C08/GoalRegion.is_reached/raises-{impl['err']}", f"is_reached raised {r[2]} for state {st}", sub)
        else:
            ctx.fail("C08/GoalRegion.is_reached/wrong-decision",
                     f"is_reached = {impl.get('ok')} but the goal definition gives {want['ok']} for state {st}", sub)
    return impl, want


class _Holder:  # a duck-typed trajectory: goal_reached reads nothing but state_list
    def __init__(self, sl):
        self.state_list = sl


def do_traj(ctx, W, step, sub):
    from commonroad.scenario.trajectory import Trajectory
    sts = [norm_state(s) for s in step["sts"]]
    via = step.get("via", "pp")
    objs = [build_state(s) for s in sts]
    traj = _Holder(objs)
    if step.get("holder") == "real" and objs:
        t = call(Trajectory, val(sts[0]["t"]), objs)
        if t[0] == "ok":
            traj = t[1]
            ctx.tag("traj/real")
    first = call(W.problem(via).goal_reached, traj) if step.get("fresh") else None
    answers = [do_query(ctx, W, s, "goal", sub, sobj=o) for s, o in zip(sts, objs)]
    r = first if first is not None else call(W.problem(via).goal_reached, traj)
    ctx.tag("via/" + via)
    if step.get("fresh"):
        ctx.tag("traj/fresh")
    if not sts:
        ctx.tag("traj/empty")
    impl = {"ok": [bool(r[1][0]), int(r[1][1])]} if r[0] == "ok" else {"err": r[1]}
    if W.stale:
        return
    if getattr(ctx, "use_model", True):
        ctx.compare(sub, impl, ctx.driver.ask("C08", "goal_reached", {"answers": [a for a, _ in answers]}),
                    "PlanningProblem.goal_reached vs CR.Goal.goalReached")
    wants = [w for _, w in answers]
    if any(w is not None and "err" in w for w in wants):
        ctx.tag("traj/with-error")
        return
    if any(w is None for w in wants):
        return
    hit = [i for i, w in enumerate(wants) if w["ok"]]
    ctx.tag("traj/reached" if hit else "traj/not-reached")
    if len(sts) >= 2 and hit == [0]:
        ctx.tag("traj/first-only")
    if len(sts) >= 2 and hit == [len(sts) - 1]:
        ctx.tag("traj/last-only")
    if len(hit) >= 2:
        ctx.tag("traj/several")
    if "err" in impl:
        ctx.fail(f"C08/PlanningProblem.goal_reached/raises-{impl['err']}", f"{r[2]}", sub)
        return
    b, i = impl["ok"]
    if b != bool(hit):
        ctx.fail("C08/PlanningProblem.goal_reached/wrong-success", f"reported {b}, states reaching the goal: {hit}", sub)
    elif b and i not in hit:
        ctx.fail("C08/PlanningProblem.goal_reached/wrong-index", f"index {i} does not reach the goal (reaching: {hit})", sub)
    elif not b and i != -1:
        ctx.fail("C08/PlanningProblem.goal_reached/wrong-index", f"failure reported with index {i}", sub)


def _goal_shape(W, step):
    sh = W.G.state_list[step["i"]].position
    return sh if step.get("j") is None else sh.shapes[step["j"]]


def do_edit(ctx, W, step):
    """apply a mutating / failing / read-only step to the objects; returns False when the history cannot be continued"""
    import numpy as np
    import commonroad.scenario.state as S
    from commonroad.common.util import Interval
    op = step["op"]
    G = W.G
    if op == "set_list":
        how = step["how"]
        ctx.tag("hist/set_list/" + how)
        if how == "setter_new":
            G.state_list = [build_goal_state(g) for g in step["goals"]]
        elif how == "setter_same":
            G.state_list = G.state_list
        elif how == "setter_copy":
            G.state_list = list(G.state_list)
        elif how == "append":
            G.state_list.append(build_goal_state(step["goal"]))
        elif how == "insert0":
            G.state_list.insert(0, build_goal_state(step["goal"]))
        elif how == "pop":
            G.state_list.pop(step["i"])
        elif how == "reverse":
            G.state_list.reverse()
        elif how == "setitem":
            G.state_list[step["i"]] = build_goal_state(step["goal"])
        W.dirty()
    elif op == "set_attr":
        gs, a, v = G.state_list[step["i"]], step["attr"], step["val"]
        if step.get("how") == "ends":
            ctx.tag("hist/set_attr/ends")
            iv = getattr(gs, ATTR_NAME[a])
            lo, hi = num(v[0]), num(v[1])
            if lo <= iv.end:
                iv.start, iv.end = lo, hi
            else:
                iv.end, iv.start = hi, lo
        else:
            ctx.tag("hist/set_attr/remove" if v is None else "hist/set_attr/assign")
            new = None if v is None else (build_shape_x(v) if a == "pos" else build_angle(v, None) if a == "ori" else build_interval(v, None))
            setattr(gs, ATTR_NAME[a], new)
        W.dirty()
    elif op == "pos_edit":
        ctx.tag("hist/pos_edit")
        sh, v = _goal_shape(W, step), step["val"]
        setattr(sh, step["attr"], np.array(v, dtype=float) if step["attr"] in ("center", "vertices") else v)
        W.dirty()
        if W.stale is None and shape_is_stale(G.state_list[step["i"]].position):
            W.stale = f"{type(sh).__name__}.{step['attr']}"
            ctx.tag("hist/pos_edit/stale")
    elif op == "tr":
        t, a = step["t"], step["a"]
        ctx.tag("hist/tr/translation" if a == 0 else "hist/tr/rotation", "hist/tr/level/" + step["level"])
        pre = (W.snapshot() or None) if a == 0 and not W.stale else None
        target = {"goal": G, "pp": W.PP, "pps": W.PPS}[step["level"]]
        target.translate_rotate(np.array(t, dtype=int if step.get("int_t") else float), a)
        was_stale = W.stale
        W.dirty()
        W.stale = was_stale if was_stale and any(shape_is_stale(g.position) for g in G.state_list
                                                 if getattr(g, "position", None) is not None) else None
        if pre is not None:
            W.moved = (pre, t)
    elif op == "tr_all":
        # the whole scene is moved: the scenario (or its lanelet network) and the planning problem set, by the same motion, in
        # either order.  The goal region must end up moved ONCE, also when its shapes are objects the scenario owns as well
        t, a = step["t"], step["a"]
        arr = np.array(t, dtype=float)
        scn = getattr(W, "scenario", None)
        owner = None if scn is None else (scn.lanelet_network if step.get("net") == "network" else scn)
        ctx.tag("hist/tr_all/" + step["order"])
        if owner is not None and any("lanelets" in g for g in W.specs):
            ctx.tag("file/lanelet-goal-moved")
        for who in (("scn", "pps") if step["order"] == "scn_first" else ("pps", "scn")):
            if who == "pps":
                W.PPS.translate_rotate(arr, a)
            elif owner is not None:
                owner.translate_rotate(arr, a)
        was_stale = W.stale
        W.dirty()
        W.stale = was_stale if was_stale and any(shape_is_stale(g.position) for g in G.state_list
                                                 if getattr(g, "position", None) is not None) else None
    elif op == "set_goal":
        ctx.tag("hist/set_goal")
        W.replace_goal(build_goal(W.specs, W.lan_mode))
    elif op == "swap":
        ctx.tag("hist/swap/" + step["how"])
        stale = W.stale
        W.replace_goal(copy.deepcopy(G) if step["how"] == "deepcopy" else pickle.loads(pickle.dumps(G)))
        W.stale = stale
    elif op == "fail":
        what = step["what"]
        ctx.tag("hist/fail/" + what)
        if what == "bad_list":
            r = call(setattr, G, "state_list", list(G.state_list) + [S.CustomState(time_step=Interval(0, 1), acceleration=Interval(0, 1))])
        elif what == "int_time":
            r = call(setattr, G, "state_list", [S.CustomState(time_step=3)])
        elif what == "bad_angle":
            r = call(G.translate_rotate, np.array([1.0, 2.0]), 7.0)
            if not W.specs:
                r = ("err",)
        else:
            iv = getattr(G.state_list[step["i"]], ATTR_NAME[step["attr"]])
            r = call(setattr, iv, "start", iv.end + 1) if step.get("end") != "end" else call(setattr, iv, "end", iv.start - 1)
        W.failed_op = True
        if r[0] == "ok":
            ctx.tag("hist/abandoned")        # the operation was expected to be rejected: the specs no longer describe the objects
            return False
    elif op == "ro":
        what = step["what"]
        ctx.tag("hist/ro/" + what)
        if what == "hash":
            call(hash, G), call(hash, W.PP), call(hash, W.PPS)
        elif what == "eq":
            call(lambda: (G == copy.deepcopy(G), G == 5, W.PP == copy.deepcopy(W.PP), W.PPS == copy.deepcopy(W.PPS)))
        elif what == "str":
            call(lambda: [(str(g), repr(g), str(g.time_step)) for g in G.state_list])
        elif what == "attrs":
            call(lambda: [(g.attributes, g.used_attributes, g.is_uncertain_position) for g in G.state_list])
        elif what == "lan":
            call(lambda: G.lanelets_of_goal_position)
            call(setattr, G, "lanelets_of_goal_position", {0: [1]})
    if W.stale and not any(shape_is_stale(g.position) for g in W.G.state_list if getattr(g, "position", None) is not None):
        W.stale = None
    return True


# ------------------------------------------------------------------------------------------------ goal regions that come out of a file
# {"kind": "file", "fmt": "xml" | "pb", "lanelets": [[id, x0, y0, length, width], ...], "goals": [...], "pp": {"id"}, "steps": [...]}
# a goal state with "lanelets": [ids] is written as lanelet references; the reader rebuilds its position from the lanelet
# polygons of the network it has just read.  The oracle's position is the union of the strips the case itself defines.

def strip_spec(l):
    _, x0, y0, length, w = l
    return {"k": "poly", "v": [[x0, y0 - w / 2], [x0 + length, y0 - w / 2], [x0 + length, y0 + w / 2], [x0, y0 + w / 2]]}


def file_specs(case):
    by_id = {l[0]: l for l in case["lanelets"]}
    out = []
    for g in case["goals"]:
        g = dict(g)
        if "lanelets" in g:
            g["pos"] = {"k": "group", "s": [strip_spec(by_id[i]) for i in g["lanelets"]]}
        out.append(g)
    return out


class FileWorld(World):
    def __init__(self, case, tmpdir):
        import numpy as np
        from commonroad.common.file_reader import CommonRoadFileReader
        from commonroad.common.file_writer import CommonRoadFileWriter, OverwriteExistingFile
        from commonroad.common.util import FileFormat
        from commonroad.planning.goal import GoalRegion
        from commonroad.planning.planning_problem import PlanningProblem, PlanningProblemSet
        from commonroad.scenario.lanelet import Lanelet, LaneletNetwork
        from commonroad.scenario.scenario import Scenario, ScenarioID, Tag
        sc = Scenario(0.1, ScenarioID.from_benchmark_id("ZAM_Goal-1_1_T-1", "2020a"))
        lanelets = []
        for (i, x0, y0, length, w) in case["lanelets"]:
            xs = np.array([x0, x0 + length / 2, x0 + length], dtype=float)
            lanelets.append(Lanelet(np.stack([xs, np.full(3, y0 + w / 2)], 1), np.stack([xs, np.full(3, float(y0))], 1),
                                    np.stack([xs, np.full(3, y0 - w / 2)], 1), i))
        sc.add_objects(LaneletNetwork.create_from_lanelet_list(lanelets))
        self.lan_mode = "auto"
        self.specs = file_specs(case)
        fmt = case.get("fmt", "xml")
        sts = [build_goal_state(g) for g in self.specs]
        if fmt == "mem":
            # no file: the goal ShapeGroup holds the lanelets' own polygon objects, as the XML reader builds it
            from commonroad.geometry.shape import ShapeGroup
            for gs, g in zip(sts, case["goals"]):
                if "lanelets" in g:
                    gs.position = ShapeGroup([sc.lanelet_network.find_lanelet_by_id(i).polygon for i in g["lanelets"]])
        G = GoalRegion(sts, {i: list(g["lanelets"]) for i, g in enumerate(case["goals"]) if "lanelets" in g} or None)
        self.pid = (case.get("pp") or {}).get("id", 1)
        pps = PlanningProblemSet([PlanningProblem(self.pid, _initial_state(), G)])
        self.snap = self.moved = self.stale = None
        self.edited = self.failed_op = False
        if fmt == "mem":
            self.scenario, self.PPS, self.PP, self.G = sc, pps, pps.find_planning_problem_by_id(self.pid), G
            return
        path = os.path.join(tmpdir, "c08_goal." + fmt)
        ff = FileFormat.PROTOBUF if fmt == "pb" else FileFormat.XML
        from commonroad.scenario.scenario import Location
        CommonRoadFileWriter(sc, pps, "a", "b", "c", {Tag.URBAN}, Location(),
                             file_format=ff).write_to_file(path, OverwriteExistingFile.ALWAYS)
        try:
            self.scenario, self.PPS = CommonRoadFileReader(path, file_format=ff).open()
        finally:
            os.remove(path)             # (a second write to the same path makes the writer print a note)
        self.PP = self.PPS.find_planning_problem_by_id(self.pid)
        self.G = self.PP.goal


def gen_file_case(ctx):
    r = ctx.rng
    n = r.randint(1, 4)
    ids = r.sample(range(1, 60), n)
    lanelets, x, y = [], r.randint(-10, 10) * 1.0, r.randint(-10, 10) * 1.0
    for i in ids:
        length, w = r.randint(8, 160) / 16.0 * 2, r.randint(8, 64) / 16.0 * 2
        lanelets.append([i, x, y, length, w])
        if r.random() < 0.5:
            x += length                      # successor: shares the end edge
        else:
            y += r.choice([w, w + 1.0, -w])  # neighbour (touching or with a gap)
    goals = []
    for _ in range(r.choice([1, 1, 2])):
        a, b = sorted([r.randint(0, 12), r.randint(0, 12)])
        g = {"time": [a, b]}
        roll = r.random()
        if roll < 0.7:
            g["lanelets"] = r.sample(ids, r.randint(1, n))
        elif roll < 0.9:
            g["pos"] = geom.gen_shape(r, kinds=("rect", "circ", "poly"), exact=True)
        if r.random() < 0.5:
            g["ori"] = r.choice([[-0.1, 3.0415], [3.0, 3.3], [-3.1416, 0.8584], [1.5, 5.5], [0.0, 0.0]])
        if r.random() < 0.5:
            g["vel"] = sorted([r.randint(0, 400) / 16.0, r.randint(0, 400) / 16.0])
        goals.append(g)
    case = {"kind": "file", "fmt": r.choice(["xml", "xml", "pb", "mem"]), "lanelets": lanelets, "goals": goals,
            "pp": {"id": r.choice([1, 7, 300])}}
    specs = file_specs(case)
    case["steps"] = [gen_query(r, specs, via=r.choice(["goal", "pps"])) for _ in range(r.randint(1, 3))]
    if r.random() < 0.3:
        case["steps"].append(gen_traj(r, specs))
    if r.random() < 0.6:
        # the scene is moved as a whole (scenario / lanelet network and planning problems by the same motion), then queried again
        mv = {"op": "tr_all", "t": [grid(r, 160), grid(r, 160)], "a": r.choice([0, 0, 0, math.pi / 2, 0.3, -1.2, r.uniform(-6.2, 6.2)]),
              "order": r.choice(["scn_first", "scn_first", "pps_first"]), "net": r.choice(["scenario", "scenario", "network"])}
        case["steps"].append(mv)
        specs = spec_apply(specs, mv)
        case["steps"] += [gen_query(r, specs, via=r.choice(["goal", "pps"])) for _ in range(r.randint(1, 3))]
        if r.random() < 0.4:
            case["steps"].append(gen_traj(r, specs))
    return case


def upgrade(case):
    """old format {"kind", "goals", "states"} -> history"""
    if "steps" in case:
        return case
    sts = case["states"]
    if case.get("kind") == "traj":
        steps = [{"op": "traj", "sts": sts, "via": "pp"}]
    else:
        steps = [{"op": "q", "st": s, "via": "goal"} for s in sts]
    return {"goals": case["goals"], "steps": steps}


def run_case(ctx, case):
    ctx.case(case)
    case = upgrade(case)
    # the goal buckets are those of the GENERATED goal: tagged before construction, so that a constructor which rejects an
    # admissible goal (a reported failure) does not also look like a generator that lost coverage
    goals = case["goals"]
    ctx.tag("file/" + case["fmt"] if case.get("kind") == "file" else "lan/" + case.get("lan_mode", "auto"))
    if len(goals) > 1:
        ctx.tag("goal/multi")
    if not goals:
        ctx.tag("goal/empty-list")
    for g in goals:
        tag_goal(ctx, g)
        if "alias_of" in g:
            ctx.tag("goal/aliased-shape")
    try:
        W = FileWorld(case, ctx.tmpdir()) if case.get("kind") == "file" else World(case)
    except Exception as e:  # noqa  constructing (writing, reading) an admissible goal must not fail
        site = "file-round-trip" if case.get("kind") == "file" else "GoalRegion.__init__"
        ctx.fail(f"C08/{site}/raises-{type(e).__name__}", f"{e}", dict(case, steps=[]))
        return
    for k, step in enumerate(case["steps"]):
        sub = dict(case, steps=case["steps"][:k + 1])
        op = step["op"]
        if op == "q":
            do_query(ctx, W, step["st"], step.get("via", "goal"), sub, step.get("times", 1))
        elif op == "traj":
            do_traj(ctx, W, step, sub)
        else:
            try:
                if not do_edit(ctx, W, step):
                    return
            except Exception as e:  # noqa  an admissible edit of a goal region must not fail
                ctx.fail(f"C08/{op}/raises-{type(e).__name__}", f"step {step} raised {type(e).__name__}: {e}", sub)
                return
            W.specs = spec_apply(W.specs, step)


# ------------------------------------------------------------------------------------------------ case generator

def gen_query(r, specs, via=None):
    st = gen_state(r, specs)
    q = {"op": "q", "st": st, "via": via or r.choice(["goal", "goal", "pp", "pps"])}
    if r.random() < 0.15:
        q["times"] = 2
    return q


def make_real(sts):
    """states a real Trajectory accepts: one class, one attribute set, natural int time steps"""
    keys = set.intersection(*[set(k for k in ("pos", "v", "th", "vy") if k in s) for s in sts])
    t0 = max(0, int(val(sts[0]["t"])))
    out = []
    for i, s in enumerate(sts):
        n = {"cls": s["cls"], "t": t0 + i if i else t0}
        for k in keys:
            n[k] = s[k]
        if "pos" in n and s.get("pos_ty"):
            n["pos_ty"] = s["pos_ty"]
        out.append(n)
    return out


def gen_traj(r, specs):
    roll = r.random()
    step = {"op": "traj", "via": r.choice(["pp", "pp", "pps"])}
    if r.random() < 0.3:
        step["fresh"] = True
    if roll < 0.06:
        step["sts"] = []
        return step
    real = r.random() < 0.3
    cls = r.choice(["KSState", "PMState", "STState", "MBState", "InitialState", "ExtendedPMState"]) if real else None
    n = r.randint(1, 8)
    pattern = r.choice(["random", "random", "first", "last", "several", "none"])
    if pattern == "random" or not specs:
        sts = [gen_state(r, specs, cls, complete=real) for _ in range(n)]
        if not real and r.random() < 0.7:
            sts = [s for s in sts if oracle_state(specs, s)[0] != {"err": "value"}] or sts[:1]
    else:
        pool = [gen_state(r, specs, cls, complete=True) for _ in range(14)]
        kinds = {"T": [], "F": []}
        for s in pool:
            w = oracle_state(specs, s)[0]
            if w in ({"ok": True}, {"ok": False}):
                kinds["T" if w["ok"] else "F"].append(s)
        T, F_ = kinds["T"], kinds["F"]
        n = max(n, 2)
        if not F_ or (pattern != "none" and not T):
            sts = pool[:n]
        elif pattern == "first":
            sts = [r.choice(T)] + [r.choice(F_) for _ in range(n - 1)]
        elif pattern == "last":
            sts = [r.choice(F_) for _ in range(n - 1)] + [r.choice(T)]
        elif pattern == "several":
            sts = [r.choice(T if r.random() < 0.5 else F_) for _ in range(n - 2)] + [r.choice(T), r.choice(T)]
            r.shuffle(sts)
        else:
            sts = [r.choice(F_) for _ in range(n)]
        sts = copy.deepcopy(sts)
    if real:
        sts = make_real(sts)
        step["holder"] = "real"
    step["sts"] = sts
    return step


def grid(r, lim=320):
    return r.randint(-lim, lim) / 16.0


def gen_edit(r, specs):
    """a mutating / failing / read-only step that is admissible on the current specs"""
    n = len(specs)
    kinds = ["set_list"] * 3 + ["tr"] * 4 + ["fail"] * 2 + ["ro"] * 2 + ["set_goal", "swap"]
    if n:
        kinds += ["set_attr"] * 4 + ([] if any("alias_of" in g for g in specs) else ["pos_edit"] * 3)
    op = r.choice(kinds)
    if op == "set_list":
        how = r.choice(["setter_new", "setter_new", "setter_same", "setter_copy", "append", "append", "insert0", "reverse"]
                       + (["pop", "setitem"] if n else []))
        step = {"op": op, "how": how}
        if how == "setter_new":
            step["goals"] = [gen_goal_state(r) for _ in range(r.choice([1, 1, 2, 3]))]
        elif how in ("append", "insert0", "setitem"):
            step["goal"] = gen_goal_state(r)
        if how in ("pop", "setitem"):
            step["i"] = r.randrange(n)
        return step
    if op == "set_attr":
        i = r.randrange(n)
        g = specs[i]
        a = r.choice(["time", "pos", "ori", "vel"])
        if a == "ori" and g.get("cls") == "PMState":
            a = "vel"                                   # PMState.orientation is a derived property without a setter
        step = {"op": op, "i": i, "attr": a}
        new = {"time": lambda: gen_goal_state(r)["time"], "pos": lambda: gen_shape_x(r), "ori": lambda: gen_ori(r),
               "vel": lambda: gen_vel(r)}[a]()
        inside = a != "ori" or (-2 * math.pi <= new[0] and new[1] <= 2 * math.pi)
        if a in g and a != "pos" and inside and r.random() < 0.45:
            step.update(how="ends", val=new)
        elif a in g and a != "time" and r.random() < 0.3:
            step["val"] = None
        else:
            step["val"] = new
        return step
    if op == "pos_edit":
        cands = []
        for i, g in enumerate(specs):
            if "pos" in g:
                if g["pos"]["k"] != "group":
                    cands.append((i, None, g["pos"]))
                else:
                    cands += [(i, j, s) for j, s in enumerate(g["pos"]["s"]) if s["k"] != "group"]
        if not cands:
            return gen_edit(r, specs)
        i, j, sp = r.choice(cands)
        step = {"op": op, "i": i, "j": j}
        if sp["k"] == "rect":
            a = r.choice(["length", "width", "center", "orientation"])
            v = {"length": r.randint(1, 160) / 16.0, "width": r.randint(1, 96) / 16.0, "center": [grid(r), grid(r)],
                 "orientation": r.choice([0.0, math.pi / 2, 0.3, -1.2])}[a]
        elif sp["k"] == "circ":
            a = r.choice(["radius", "center"])
            v = r.randint(1, 160) / 16.0 if a == "radius" else [grid(r), grid(r)]
        else:
            a, v = "vertices", geom.gen_shape(r, kinds=("poly",))["v"]
        step.update(attr=a, val=v)
        return step
    if op == "tr":
        a = r.choice([0, 0, 0, 0.0, math.pi / 2, -math.pi / 2, math.pi, 0.3, -1.2, r.uniform(-6.2, 6.2), 1])
        t = r.choice([[grid(r, 160), grid(r, 160)], [grid(r, 160), grid(r, 160)], [0.0, 0.0], [r.randint(-9, 9), r.randint(-9, 9)]])
        if r.random() < 0.15:
            return {"op": "tr_all", "t": [float(x) for x in t], "a": a, "order": r.choice(["scn_first", "pps_first"])}
        step = {"op": op, "t": t, "a": a, "level": r.choice(["goal", "goal", "pp", "pps"])}
        if all(isinstance(x, int) for x in t):
            step["int_t"] = True
        return step
    if op == "fail":
        what = r.choice(["bad_list", "int_time", "bad_angle"] + (["bad_end", "bad_end"] if n else []))
        step = {"op": op, "what": what}
        if what == "bad_end":
            i = r.randrange(n)
            step.update(i=i, attr=r.choice(["time"] + (["vel"] if "vel" in specs[i] else [])), end=r.choice(["start", "end"]))
        return step
    if op == "ro":
        return {"op": op, "what": r.choice(["hash", "eq", "str", "attrs", "lan"])}
    if op == "swap":
        return {"op": op, "how": r.choice(["deepcopy", "pickle"])}
    return {"op": op}


def gen_case(ctx):
    r = ctx.rng
    ngoals = r.choice([1, 1, 2, 2, 3, 4]) if r.random() > 0.02 else 0
    goals = [gen_goal_state(r) for _ in range(ngoals)]
    if ngoals >= 2 and r.random() < 0.12:
        j = r.randrange(ngoals - 1)
        i = r.randrange(j + 1, ngoals)
        if "pos" in goals[j] and goals[i].get("cls", "CustomState") == "CustomState":
            goals[i]["pos"] = copy.deepcopy(goals[j]["pos"])
            goals[i].pop("lanelets", None)
            if "lanelets" in goals[j]:
                goals[i]["lanelets"] = list(goals[j]["lanelets"])
            goals[i]["alias_of"] = j
    case = {"goals": goals, "lan_mode": r.choice(["auto"] * 5 + ["omitted", "omitted", "none", "empty", "extra"]),
            "pp": {"id": r.choice([1, 1, 0, 7, 10 ** 6]), "set": r.choice(["ctor", "ctor_rev", "add"])}}
    roll = r.random()
    if roll < 0.4:
        case["steps"] = [gen_query(r, goals)]
    elif roll < 0.6:
        case["steps"] = [gen_traj(r, goals)]
    else:
        specs, steps = goals, []
        if r.random() < 0.6:
            steps.append(gen_query(r, specs))          # fills whatever is computed lazily before the edit
        for _ in range(r.randint(1, 4)):
            e = gen_edit(r, specs)
            steps.append(e)
            specs = spec_apply(specs, e)
            if r.random() < 0.7:
                steps.append(gen_query(r, specs) if r.random() < 0.8 else gen_traj(r, specs))
        if steps[-1]["op"] not in ("q", "traj"):
            steps.append(gen_query(r, specs) if r.random() < 0.8 else gen_traj(r, specs))
        case["steps"] = steps
    return case


# ------------------------------------------------------------------------------------------------ entry points

def run(ctx):
    check_dimensions()
    ctx.tag("dimensions/%d" % dimension_count())
    for p in sorted(glob.glob(os.path.join(CORPUS_DIR, "C08", "*.json"))):
        run_case(ctx, json.load(open(p)))
    for k in range(ctx.n(2500)):
        run_case(ctx, gen_file_case(ctx) if k % 25 == 7 else gen_case(ctx))


search = run


def replay(ctx, case):
    run_case(ctx, case)


class _Probe:
    """oracle-only context for shrinking"""
    use_model = False

    def __init__(self):
        self.keys, self.excluded = [], 0

    def case(self, *a, **k):
        pass

    def tag(self, *a):
        pass

    def tmpdir(self):
        import tempfile
        if not hasattr(self, "_tmp"):
            self._tmp = tempfile.mkdtemp(prefix="crverif_C08_shrink_")
        return self._tmp

    def compare(self, *a, **k):
        return True

    def fail(self, key, what, case, detail=None):
        self.keys.append(key)


def _still(case, key):
    p = _Probe()
    try:
        run_case(p, case)
    except Exception:  # noqa
        return False
    return key in p.keys


def shrink(case, key):
    """drop steps and goal states while the same finding key is reported"""
    case = upgrade(case)
    if not _still(case, key):
        return case
    steps = case["steps"]
    k = 0
    while k < len(steps) - 1:
        cand = dict(case, steps=steps[:k] + steps[k + 1:])
        if _still(cand, key):
            case, steps = cand, cand["steps"]
        else:
            k += 1
    last = steps[-1]
    if last["op"] == "traj" and len(last["sts"]) > 1:
        for i in range(len(last["sts"]) - 1, -1, -1):
            sts = case["steps"][-1]["sts"]
            cand = dict(case, steps=case["steps"][:-1] + [dict(case["steps"][-1], sts=sts[:i] + sts[i + 1:])])
            if len(sts) > 1 and _still(cand, key):
                case = cand
    if all(s["op"] in ("q", "traj") for s in case["steps"]):
        i = 0
        while len(case["goals"]) > 1 and i < len(case["goals"]):
            cand = dict(case, goals=case["goals"][:i] + case["goals"][i + 1:], lan_mode="omitted")
            if _still(cand, key):
                case = cand
            else:
                i += 1
    return case
