"""C08 — goal-region membership is decided correctly.
model: lean/CRModel/Goal.lean (+ Interval.lean); theorems: lean/CRProps/C08.lean."""
import glob
import json
import math
import os
from fractions import Fraction

import geom
from common import CORPUS_DIR, call, frac, rat

RULE = ("goal regions of 1..4 goal states, every subset of {position, orientation, velocity} constraints (time always), positions: "
        "rectangle / circle / polygon / shape group / lanelet goal (ShapeGroup of lanelet polygons + lanelets_of_goal_position), "
        "angle intervals short / long (>pi) / wrapping +-pi, velocity and time intervals with the state's value at the ends, "
        "inside, outside, int and float; states of classes KS, KST, ST, STD, MB, ExtendedPM, Initial (stored orientation) and PM "
        "(vx, vy in all four quadrants incl. exact 3-4-5 triples); trajectories of 1..8 such states for goal_reached. "
        "distinct = canonical JSON; non-trivial = every case (each carries >= 1 boundary or wrap value by construction)")
ASSUMPTIONS = ["shape membership of the state's position (contains_point) is a parameter of the model (answer of the implementation); "
               "the oracle recomputes it with exact rational geometry, excluding points within 1e-9 of a non-exact boundary",
               "hypot/atan2 are parameters of the model (math.hypot / math.atan2 of the state's velocity components)",
               "values within 1e-9 of an interval end (mod 2pi for angles) are excluded from the oracle when they come out of float "
               "arithmetic (hypot, atan2); exact end-point values are kept"]
EXTRA_MODULES = ['CRProps.T16']      # translator tie: Gen.Src (regenerated from /repo every run) = hand model
REQUIRED_BUCKETS = ["state/PMState", "state/KSState", "goal/lanelet", "goal/long-angle", "goal/multi", "int-values",
                    "reached/true", "reached/false", "traj/reached", "traj/not-reached", "pm/quadrant2", "pm/quadrant3"]

BAND = Fraction(1, 10 ** 9)


def _tau_eps():
    from commonroad import TWO_PI
    from commonroad.common.util import AngleInterval
    return TWO_PI, getattr(AngleInterval, "_TOLERANCE", 0.0)


STATE_CLASSES = ["KSState", "KSTState", "STState", "STDState", "MBState", "ExtendedPMState", "InitialState", "PMState"]


def gen_goal_state(r, allow_lanelet=True):
    g = {"time": sorted([r.randint(0, 12), r.randint(0, 12)])}
    if r.random() < 0.3:
        g["time"] = [g["time"][0] + 0.0, g["time"][1] + 0.5]
    if r.random() < 0.6:
        if allow_lanelet and r.random() < 0.25:
            # lanelet goal: union of rectangles/polygons standing for lanelet polygons
            n = r.randint(1, 3)
            g["pos"] = {"k": "group", "s": [geom.gen_shape(r, kinds=("poly", "rect"), depth=1, exact=True) for _ in range(n)]}
            g["lanelets"] = [r.randint(1, 50) for _ in range(n)]
        else:
            g["pos"] = geom.gen_shape(r)
    if r.random() < 0.6:
        pi = math.pi
        length = r.choice([0.0, 0.2, 1.0, pi - 1e-6, pi, pi + 0.2, 4.0, 5.5, 6.0, r.uniform(0, 2 * pi - 1e-6), 1, 3])
        start = r.choice([-pi, pi - 0.1, -0.1, 0.0, 3.0, -3.3, r.uniform(-2 * pi, 2 * pi - float(length)), -1, 0, 2])
        start = max(-2 * pi, min(start, 2 * pi - float(length)))
        g["ori"] = [start, start + length]
    if r.random() < 0.6:
        a, b = sorted([r.choice([0, 5, 5.0, 10, 12.5, 20, r.randint(0, 400) / 16.0]), r.choice([5, 5.0, 13, 25, 30.5, r.randint(0, 400) / 16.0])],
                      key=float)
        g["vel"] = [a, b]
    return g


def gen_state(r, goals):
    """A state whose values sit at / near the constraint boundaries of a randomly chosen goal state."""
    g = r.choice(goals)
    cls = r.choice(STATE_CLASSES + ["PMState", "KSState"])
    t = r.choice([g["time"][0], g["time"][1], g["time"][0] - 1, g["time"][1] + 1, r.randint(0, 12),
                  (g["time"][0] + g["time"][1]) / 2])
    st = {"cls": cls, "t": t}
    if "pos" in g and r.random() < 0.9:
        st["pos"] = r.choice(geom.interesting_points(r, g["pos"]))
    elif r.random() < 0.7:
        st["pos"] = [r.randint(-320, 320) / 16.0, r.randint(-320, 320) / 16.0]
    # velocity / orientation targets
    if "vel" in g:
        v = r.choice([g["vel"][0], g["vel"][1], (g["vel"][0] + g["vel"][1]) / 2, g["vel"][1] + 0.0625, max(0, g["vel"][0] - 0.0625),
                      r.randint(0, 500) / 16.0])
    else:
        v = r.choice([0, 3, 12.5, r.randint(0, 500) / 16.0])
    if "ori" in g:
        a, b = g["ori"]
        th = r.choice([a, b, (a + b) / 2, b + 0.01, a - 0.01, a + 2 * math.pi, b - 2 * math.pi, r.uniform(-6.2, 6.2),
                       r.randint(-6, 6), (a + b) / 2 + math.pi])
    else:
        th = r.choice([0.0, 1.0, -2.5, r.uniform(-6.2, 6.2), 2])
    if isinstance(th, float):
        th = max(-2 * math.pi, min(2 * math.pi, th))
    if cls == "PMState":
        # vx, vy: exact Pythagorean directions or polar from (v, th)
        if r.random() < 0.4:
            a3, b4 = r.choice([(3, 4), (4, 3), (5, 12), (8, 15), (0, 1), (1, 0)])
            sx, sy = r.choice([1, -1]), r.choice([1, -1])
            k = r.choice([1, 2, 0.5, float(v) / math.hypot(a3, b4) if float(v) > 0 else 1.0])
            st["vx"], st["vy"] = sx * a3 * k, sy * b4 * k
        else:
            vv = float(v) if float(v) > 0 else 1.0
            st["vx"], st["vy"] = vv * math.cos(th), vv * math.sin(th)
    else:
        st["v"] = v
        st["th"] = th
        if cls == "MBState" and r.random() < 0.5:
            st["vy"] = r.choice([0.0, 0.5, -1.0])
    return st


def gen_case(ctx):
    r = ctx.rng
    goals = [gen_goal_state(r) for _ in range(r.choice([1, 1, 2, 2, 3, 4]))]
    if r.random() < 0.3:
        states = [gen_state(r, goals) for _ in range(r.randint(1, 8))]
        return {"kind": "traj", "goals": goals, "states": states}
    return {"kind": "state", "goals": goals, "states": [gen_state(r, goals)]}


# ------------------------------------------------------------------------------------------------ build real objects

def build_goal(goals):
    import numpy as np  # noqa
    from commonroad.common.util import AngleInterval, Interval
    from commonroad.planning.goal import GoalRegion
    from commonroad.scenario.state import CustomState
    sts, lan = [], {}
    for i, g in enumerate(goals):
        kw = {"time_step": Interval(g["time"][0], g["time"][1])}
        if "pos" in g:
            kw["position"] = geom.build_shape(g["pos"])
            if "lanelets" in g:
                lan[i] = list(g["lanelets"])
        if "ori" in g:
            kw["orientation"] = AngleInterval(g["ori"][0], g["ori"][1])
        if "vel" in g:
            kw["velocity"] = Interval(g["vel"][0], g["vel"][1])
        sts.append(CustomState(**kw))
    return GoalRegion(sts, lan or None)


def build_state(st):
    import numpy as np
    import commonroad.scenario.state as S
    cls = getattr(S, st["cls"])
    kw = {"time_step": st["t"]}
    if "pos" in st:
        kw["position"] = np.array(st["pos"], dtype=float)
    if st["cls"] == "PMState":
        kw["velocity"], kw["velocity_y"] = st["vx"], st["vy"]
    else:
        kw["velocity"], kw["orientation"] = st["v"], st["th"]
        if "vy" in st:
            kw["velocity_y"] = st["vy"]
    return cls(**kw)


# ------------------------------------------------------------------------------------------------ model + oracle

def wire_goal_shape(spec):
    """Shape spec for the model: rationals; a rectangle carries cos / sin of its orientation (parameters)."""
    k = spec["k"]
    if k == "rect":
        c, s_ = (1.0, 0.0) if spec["o"] == 0 else (math.cos(spec["o"]), math.sin(spec["o"]))
        return {"k": "rect", "l": rat(spec["l"]), "w": rat(spec["w"]), "c": [rat(spec["c"][0]), rat(spec["c"][1])],
                "cos": rat(c), "sin": rat(s_)}
    if k == "circ":
        return {"k": "circ", "r": rat(spec["r"]), "c": [rat(spec["c"][0]), rat(spec["c"][1])]}
    if k == "poly":
        return {"k": "poly", "v": [[rat(x), rat(y)] for x, y in spec["v"]]}
    return {"k": "group", "s": [wire_goal_shape(x) for x in spec["s"]]}


def model_args(goal_obj, goals, st, state_obj):
    import numpy as np
    tau, eps = _tau_eps()
    gs = []
    for g, gobj in zip(goals, goal_obj.state_list):
        gs.append({"time": [rat(gobj.time_step.start), rat(gobj.time_step.end)],
                   "pos": wire_goal_shape(g["pos"]) if "pos" in g else None,
                   "ori": [rat(gobj.orientation.start), rat(gobj.orientation.end)] if "ori" in g else None,
                   "vel": [rat(g["vel"][0]), rat(g["vel"][1])] if "vel" in g else None})
    pm = st["cls"] == "PMState"
    vx = st["vx"] if pm else st["v"]
    vy = st.get("vy")
    s = {"t": rat(st["t"]), "pos": [rat(st["pos"][0]), rat(st["pos"][1])] if "pos" in st else None,
         "ori": None if pm else rat(st["th"]), "vel": rat(vx), "velY": None if vy is None else rat(vy)}
    hyp, at2 = [], []
    if vy is not None:
        # the transcendental functions as finite tables: the values the library could evaluate, for the RIGHT and for plausible
        # WRONG argument pairs; which pair is looked up is the model's choice (speed = hyp vx vy, heading = at2 vy vx)
        h = float(np.linalg.norm(np.array([vx, vy])))
        hyp = [[rat(vx), rat(vy), rat(h)], [rat(vy), rat(vx), rat(h)]]
        at2 = [[rat(vy), rat(vx), rat(math.atan2(vy, vx))]]
        for (a, b) in ((vy, h), (vx, vy), (h, vy)):
            if not any(r_[0] == rat(a) and r_[1] == rat(b) for r_ in at2):
                at2.append([rat(a), rat(b), rat(math.atan2(a, b))])
    return {"tau": rat(tau), "eps": rat(eps), "goals": gs, "state": s, "hyp": hyp, "at2": at2}


def oracle_one(g, gobj, st):
    """'T' / 'F' / '?' (ambiguous: inside a tolerance band) / 'E' (goal constrains an attribute the state lacks)
    for one goal state, straight from the property text; attribute by attribute."""
    tau = frac(_tau_eps()[0])
    attrs = []          # (ok, ambiguous) per constrained attribute
    t = frac(st["t"])
    attrs.append((frac(g["time"][0]) <= t <= frac(g["time"][1]), False))
    if "pos" in g:
        if "pos" not in st:
            return "E"
        attrs.append(geom.point_in_shape(g["pos"], st["pos"]))
    pm = st["cls"] == "PMState"
    has_vy = "vy" in st
    if "ori" in g:
        # the goal's interval as the library normalised it (construction is C16's business)
        A, B = frac(gobj.orientation.start), frac(gobj.orientation.end)
        th = frac(math.atan2(st["vy"], st["vx"])) if pm else frac(st["th"])
        k0 = math.ceil((A - th) / tau)
        member = th + k0 * tau <= B
        dist = min(min(abs(th + k * tau - A), abs(th + k * tau - B)) for k in (k0 - 1, k0, k0 + 1))
        literal_end = (not pm) and th in (A, B)          # literally an end point: closed interval, must be contained
        attrs.append((member, dist < BAND and not literal_end))
    if "vel" in g:
        lo, hi = frac(g["vel"][0]), frac(g["vel"][1])
        if pm or has_vy:
            vx = st["vx"] if pm else st["v"]
            sp2 = frac(vx) ** 2 + frac(st["vy"]) ** 2
            member = sp2 <= hi * hi and (lo <= 0 or lo * lo <= sp2)     # speeds are non-negative: compare squares exactly
            amb = False
            for e in (lo, hi):
                if sp2 != e * e and abs(sp2 - e * e) <= BAND * max(Fraction(1), abs(e)) * 4:
                    amb = True
                # equal squares: still subject to the rounding of hypot unless the root comes out exactly
                if sp2 == e * e and frac(math.hypot(float(vx), float(st["vy"]))) != abs(e):
                    amb = True
            attrs.append((member, amb))
        else:
            attrs.append((lo <= frac(st["v"]) <= hi, False))
    if any((not ok) and (not a) for ok, a in attrs):
        return "F"
    if all(ok and not a for ok, a in attrs):
        return "T"
    return "?"


def run_case(ctx, case):
    goals, states = case["goals"], case["states"]
    ctx.case(case)
    try:
        goal_obj = build_goal(goals)
    except Exception as e:  # noqa  constructing an admissible goal must not fail
        ctx.fail(f"C08/GoalRegion.__init__/raises-{type(e).__name__}", f"{e}", case)
        return
    if len(goals) > 1:
        ctx.tag("goal/multi")
    for g in goals:
        if "lanelets" in g:
            ctx.tag("goal/lanelet")
        if "ori" in g and g["ori"][1] - g["ori"][0] > math.pi:
            ctx.tag("goal/long-angle")
    answers_impl, answers_want, any_amb = [], [], False
    for st in states:
        ctx.tag("state/" + st["cls"])
        if any(isinstance(st.get(k), int) for k in ("t", "v", "th")):
            ctx.tag("int-values")
        if st["cls"] == "PMState":
            if st["vx"] < 0 < st["vy"]:
                ctx.tag("pm/quadrant2")
            if st["vx"] < 0 and st["vy"] < 0:
                ctx.tag("pm/quadrant3")
        sobj = build_state(st)
        r = call(goal_obj.is_reached, sobj)
        impl = {"ok": bool(r[1])} if r[0] == "ok" else {"err": r[1]}
        sub = {"kind": "state", "goals": goals, "states": [st]}
        pos_amb = "pos" in st and any("pos" in g and geom.point_in_shape(g["pos"], st["pos"])[1] for g in goals)
        if pos_amb:
            ctx.tag("corr/position-ambiguous-skipped")     # shapely (floats) vs the exact model within 1e-9 of a boundary
        else:
            model = ctx.driver.ask("C08", "is_reached", model_args(goal_obj, goals, st, sobj))
            ctx.compare(sub, impl, model, "GoalRegion.is_reached vs CR.Goal.isReached")
        # oracle
        res = [oracle_one(g, gobj, st) for g, gobj in zip(goals, goal_obj.state_list)]
        amb = False
        if "E" in res:
            want = {"err": "value"}          # documented ValueError: goal constrains an attribute the state lacks
        elif "T" in res:
            want = {"ok": True}
        elif all(x == "F" for x in res):
            want = {"ok": False}
        else:
            want, amb = None, True
        answers_impl.append(impl)
        answers_want.append(None if amb else want)
        if amb:
            ctx.excluded += 1
            any_amb = True
            continue
        ctx.tag("reached/true" if want.get("ok") else "reached/false")
        if impl != want:
            if "err" in impl and "err" not in want:
                ctx.fail(f"C08/GoalRegion.is_reached/raises-{impl['err']}", f"is_reached raised {r[2]} for state {st}", sub)
            elif "err" in want:
                pass    # the property does not fix the behaviour for inadmissible inputs
            else:
                ctx.fail("C08/GoalRegion.is_reached/wrong-decision",
                         f"is_reached = {impl.get('ok')} but the goal definition gives {want['ok']} for state {st}", sub)
    if case["kind"] == "traj" and not any_amb and all("ok" in a for a in answers_impl):
        from commonroad.planning.planning_problem import PlanningProblem
        from commonroad.scenario.state import InitialState
        from commonroad.scenario.trajectory import Trajectory
        import numpy as np
        # Trajectory wants consecutive time steps of one state class: use a duck-typed holder of the state list
        class _T:  # noqa
            def __init__(self, sl):
                self.state_list = sl
        pp = PlanningProblem(1, InitialState(time_step=0, position=np.array([0.0, 0.0]), velocity=0.0, orientation=0.0,
                                             yaw_rate=0.0, slip_angle=0.0), goal_obj)
        r = call(pp.goal_reached, _T([build_state(st) for st in states]))
        impl = {"ok": [bool(r[1][0]), int(r[1][1])]} if r[0] == "ok" else {"err": r[1]}
        model = ctx.driver.ask("C08", "goal_reached", {"answers": answers_impl})
        ctx.compare(case, impl, model, "PlanningProblem.goal_reached vs CR.Goal.goalReached")
        some = any(a["ok"] for a in answers_want)
        ctx.tag("traj/reached" if some else "traj/not-reached")
        if "err" in impl:
            ctx.fail(f"C08/PlanningProblem.goal_reached/raises-{impl['err']}", f"{r[2]}", case)
        else:
            b, i = impl["ok"]
            if b != some:
                ctx.fail("C08/PlanningProblem.goal_reached/wrong-success", f"reported {b}, some state reaches: {some}", case)
            elif b and not (0 <= i < len(states) and answers_want[i]["ok"]):
                ctx.fail("C08/PlanningProblem.goal_reached/wrong-index", f"index {i} does not reach the goal", case)
            elif not b and i != -1:
                ctx.fail("C08/PlanningProblem.goal_reached/wrong-index", f"failure reported with index {i}", case)


def run(ctx):
    for p in sorted(glob.glob(os.path.join(CORPUS_DIR, "C08", "*.json"))):
        run_case(ctx, json.load(open(p)))
    for _ in range(ctx.n(2500)):
        run_case(ctx, gen_case(ctx))


search = run


def replay(ctx, case):
    run_case(ctx, case)
