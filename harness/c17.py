"""C17 — traffic-light state follows the cycle definition.
model: lean/CRModel/TrafficLight.lean (the function), lean/CRModel/TrafficLightHist.lean (the object with its memoised table);
theorems: lean/CRProps/C17.lean.

Two streams of cases:
  flat  {"es", "off", "ts" [, "ityp", "ttyp", "noff"]}: one cycle definition x ~40 time steps (phase boundaries of several periods,
        before the offset, far away), evaluated on fresh objects (cycle, light) + a few fixed query/set/query orders;
  hist  {"kind": "hist", ...}: ONE cycle object (optionally in a TrafficLight, optionally held by a LaneletNetwork / Scenario,
        optionally written to and read back from an XML / protobuf file) under a history of public operations with queries in
        between.  The Lean model runs the same history (memo included) and must predict every answer; the oracle keeps its own
        book of what was put into the cycle and walks the definition.
DIMENSIONS lists every constructor parameter, settable attribute and public operation of the three anchored classes with the
way the generators vary it; check_dimensions() compares the table with the classes of the working tree on every run."""
import copy
import inspect
import pickle

from common import InfraError, call

RULE = ("flat: cycles of 1..6 (sometimes 7..60) elements, durations 1..9 (sometimes up to 10^6 / 10^12 / above 2^53 up to "
        "the int64 edge; given as int, numpy.int64 or numpy.int32), all colours, offsets 0..20 / large / above 2^53 up to the int64 edge / "
        "argument omitted, ~40 time steps per case (both ends of every element's "
        "window in periods -2..3, -3..+5 periods around the offset, far-away steps up to +-10^15 and, in 3 of 10 cases, the whole range the library computes exactly: |t - offset| "
        "just above 2^53, 10^17, 10^16 periods away, window ends in the last periods before t - offset = +-2^63, the edges themselves, "
        "Python-int steps beyond int64; as int, numpy.int64 or numpy.int32). hist: one cycle object (1..5 elements, the same element object possibly at two positions; every optional "
        "constructor argument of TrafficLightCycle and TrafficLight given / omitted / None; light free, held by a LaneletNetwork or a "
        "Scenario, or written to XML / protobuf and read back) under 3..12 operations: queries through the cycle, the light and the "
        "holder; time_offset / cycle_elements setters (new list, same list edited in place and re-assigned, permutation of the held "
        "element objects); in-place duration / state edits of a held element and in-place append to the held list, before and after "
        "a first query; replacing / re-assigning the light's cycle; every other setter, translate_rotate, convert_to_2d, ==, hash, "
        "str, repr, reads of cycle_init_timesteps, drawing, deepcopy / pickle of cycle, light and network (the history goes on on the "
        "copy), and calls that raise (ill-typed time step, out-of-range angle, a query on an emptied cycle). typed flat cases (400): durations / offset / time steps as numpy integers of every "
        "width from int8 to int64, signed and unsigned, the same narrow type throughout / mixed within one cycle / all unsigned, with "
        "durations at the maximum of their type so that offset + total and t - offset leave the narrow ranges. distinct = canonical "
        "JSON of the case; non-trivial = every case (flat: >= 1 step outside the first period or at a phase boundary; hist: >= 1 "
        "query after >= 1 other operation)")
ASSUMPTIONS = ["numpy cumsum/insert/argmax on int64 denote their list counterparts (sampled by the correspondence)",
               "numpy integers of every width (int8, uint8, int16, uint16, int32, uint32, int64; mixed within one cycle, for durations, "
               "offset and time step) are generated inside what the unmodified library answers exactly (`inside_typed`, measured on "
               "200 000 random cycles with warnings as errors): np.cumsum over the list of durations promotes to int64 whatever "
               "their widths, so the sums may exceed the narrow types; the limit is numpy's scalar subtraction `time_step - "
               "time_offset`, carried out in the promoted type of those two operands (Python ints take the other operand's type): the "
               "time step, the offset and their difference have to fit it, otherwise numpy raises OverflowError or wraps around (no "
               "verdict). Cycles whose durations are ALL unsigned get a uint64 table (float64 once a signed offset is added): only "
               "t >= offset and values below 2^53 are generated for them. numpy.uint64 is not generated (it promotes to float64 with "
               "every signed operand)",
               "the integers generated are those the unmodified library computes exactly in int64 (boundary measured on the real "
               "code with warnings as errors, `inside`): offset + total duration <= 2^63 - 1 (the last entry of the table) and "
               "-2^63 <= t - offset <= 2^63 - 1; when the time step or the offset is numpy-typed the time step is an int64 itself, with Python "
               "ints on both sides it may lie beyond int64 as long as t - offset does not. Beyond that numpy raises OverflowError (Python int operand) or wraps around "
               "(numpy operand, RuntimeWarning): no verdict. numpy.int32 values are only generated below 2^31 including the total "
               "duration; the model uses unbounded integers. Unsigned and 8/16-bit numpy integers are not generated (their "
               "wrap-around is numpy's, not the cycle's)",
               "outside the quantifier ('one or more elements with positive integer durations, offset >= 0'), no verdict: a cycle "
               "with no elements / constructed with cycle_elements=None, a light without a cycle, durations <= 0, negative offsets, "
               "non-integer time steps; an emptied cycle is only queried to leave a failed call behind (the call must raise or "
               "answer; what it answers is not judged)",
               "in-place edits generated: element.duration=, element.state=, cycle_elements.append(e) on the list the getter hands "
               "out. Other list surgery (pop / insert / slice assignment without the setter) and writes into the array returned by "
               "cycle_init_timesteps are not generated",
               "== / hash / str / repr of cycles, elements and lights are generated as read-only operations between queries; their "
               "VALUES are C12's subject and not judged here",
               "a cycle read from a file is judged against the elements and the offset its public getters report (whether the file "
               "round trip preserves them is C02/C03's subject)"]
EXTRA_MODULES = ['CRProps.T17']      # translator tie: Gen.Src (regenerated from /repo every run) = hand model
NP_INTS = ["np.int8", "np.uint8", "np.int16", "np.uint16", "np.int32", "np.uint32", "np.int64"]
REQUIRED_BUCKETS = ["single-element", "t<offset", "boundary", "many-periods", "light/cycle-replaced", "light/inactive", "light/active",
                    "cycle/setter-after-query", "cycle/same-list-reassigned",
                    "light/color-lacks-a-cycle-state", "light/color-disjoint-by-setter",
                    # generator audit
                    "flat/ityp-np.int64", "flat/ityp-np.int32", "flat/ttyp-np.int64", "flat/ttyp-np.int32", "flat/offset-omitted",
                    "flat/many-elements", "flat/huge-duration", "flat/huge-t",
                    "flat/|t-off|>2^53", "flat/t-off-at-int64-edge", "flat/t-beyond-int64", "flat/offset>2^53", "flat/total>2^53",
                    "flat/table-end-at-int64-max", "q/|t-off|>2^53",
                    "flat/dts-same-narrow", "flat/dts-mixed-widths", "flat/dts-all-unsigned"] + \
                   [f"flat/offset+total-exceeds-{x}" for x in ("np.int8", "np.uint8", "np.int16", "np.uint16", "np.int32", "np.uint32")] + \
                   [f"flat/t-exceeds-{x}" for x in ("np.int8", "np.uint8", "np.int16", "np.uint16", "np.int32")] + \
                   [f"flat/{k}-{x}" for k in ("otyp", "ttyp") for x in NP_INTS] + [
                    "hist/alias", "hist/off-omitted", "hist/cyc-active-False", "hist/cyc-active-omitted", "hist/no-light",
                    "hist/light-pos-None", "hist/light-pos-3d", "hist/light-id-0", "hist/light-shape", "hist/light-color-empty",
                    "hist/light-active-False", "hist/light-direction-given",
                    "hist/hold-network", "hist/hold-scenario", "hist/io-xml", "hist/io-pb",
                    "hist/ityp-np.int64", "hist/ityp-np.int32",
                    "via/cycle", "via/light", "via/holder", "via/twin", "q/np.int64", "q/np.int32",
                    "op/off", "op/off-same-value", "op/es-new", "op/es-same", "op/es-reuse", "op/dur-before-first-query", "op/dur-after-query",
                    "op/state-before-first-query", "op/state-after-query", "op/app-before-first-query", "op/app-after-query",
                    "op/dur-on-aliased-element", "op/fresh", "op/reassign", "op/read", "op/read-before-first-query",
                    "op/setter-order/off-es", "op/setter-order/es-off"] + \
                   [f"op/keep/{k}" for k in ("cyc_active", "light_active", "color", "direction", "position", "id", "shape",
                                              "translate_rotate", "convert_to_2d", "eq", "hash", "str", "repr", "deepcopy_cycle",
                                              "pickle_cycle", "deepcopy_light", "pickle_light", "deepcopy_holder", "pickle_holder",
                                              "copy_network", "holder_translate_rotate", "raise_q", "raise_tr", "raise_empty", "draw",
                                              "shallow_copy_off", "shallow_copy_es", "shallow_copy_query")]

K_DUR = "C17/cycle.get_state_at_time_step/stale-after/element.duration=(held)"
K_APP = "C17/cycle.get_state_at_time_step/stale-after/cycle_elements.append(in-place)"

# ------------------------------------------------------------------------------------------------ dimension table
# (class, kind, name) -> how the generators vary it.  kind: ctor = constructor parameter, set = property with a setter,
# get = read-only property, op = public method (dunder methods defined by the class included).
DIMENSIONS = {
    ("TrafficLightCycleElement", "ctor", "state"): "all 5 TrafficLightState values (flat + hist)",
    ("TrafficLightCycleElement", "ctor", "duration"): "1..9, 1, up to 10^6 / 10^12 / the int64 edge; int and every numpy integer width int8..int64 / uint8..uint32, mixed within one cycle (dts)",
    ("TrafficLightCycleElement", "set", "state"): "hist op `state` on an element the cycle holds, before / after the first query",
    ("TrafficLightCycleElement", "set", "duration"): "hist op `dur` on an element the cycle holds (also one held at two positions), "
                                                     "before / after the first query",
    ("TrafficLightCycleElement", "op", "__eq__"): "hist keep op `eq` (read-only between queries)",
    ("TrafficLightCycleElement", "op", "__hash__"): "hist keep op `hash`",
    ("TrafficLightCycleElement", "op", "__str__"): "hist keep op `str`",
    ("TrafficLightCycleElement", "op", "__repr__"): "hist keep op `repr`",
    ("TrafficLightCycle", "ctor", "cycle_elements"): "1..60 elements, same object at two positions (cls); None / [] outside the quantifier",
    ("TrafficLightCycle", "ctor", "time_offset"): "0..20, large, omitted (default), int / every numpy integer width (otyp)",
    ("TrafficLightCycle", "ctor", "active"): "True / False / omitted (hist cyc_active)",
    ("TrafficLightCycle", "set", "cycle_elements"): "hist op `es`: new list, same list object edited in place and re-assigned, "
                                                    "permutation / repetition of the held element objects; before and after queries",
    ("TrafficLightCycle", "set", "time_offset"): "hist op `off` (also the unchanged value, numpy ints), in both orders with `es`; on a "
                                                 "SHALLOW copy (copy.copy shares list, elements and memoised table) by the keep ops "
                                                 "`shallow_copy_off` / `shallow_copy_es` / `shallow_copy_query`: the original must not change",
    ("TrafficLightCycle", "set", "active"): "hist keep op `cyc_active`",
    ("TrafficLightCycle", "get", "cycle_init_timesteps"): "hist op `read` (before / after the first query)",
    ("TrafficLightCycle", "op", "get_state_at_time_step"): "the observation; t as int / numpy.int64 / numpy.int32, negative, huge (|t - offset| up to the int64 edges)",
    ("TrafficLightCycle", "op", "__eq__"): "hist keep op `eq`", ("TrafficLightCycle", "op", "__hash__"): "hist keep op `hash`",
    ("TrafficLightCycle", "op", "__str__"): "hist keep op `str`", ("TrafficLightCycle", "op", "__repr__"): "hist keep op `repr`",
    ("TrafficLight", "ctor", "traffic_light_id"): "0, 1, 7, large",
    ("TrafficLight", "ctor", "position"): "2-d array, 3-d array, None",
    ("TrafficLight", "ctor", "traffic_light_cycle"): "the cycle under test; None outside the quantifier",
    ("TrafficLight", "ctor", "color"): "omitted, None, [], a strict subset of the cycle's states, a disjoint state, all states",
    ("TrafficLight", "ctor", "active"): "True / False / omitted",
    ("TrafficLight", "ctor", "direction"): "omitted or any of the 7 TrafficLightDirection values",
    ("TrafficLight", "ctor", "shape"): "omitted / None / a Rectangle",
    ("TrafficLight", "set", "traffic_light_id"): "hist keep op `id`",
    ("TrafficLight", "set", "position"): "hist keep op `position`",
    ("TrafficLight", "set", "traffic_light_cycle"): "hist ops `fresh` (a new cycle object) and `reassign` (the same object)",
    ("TrafficLight", "set", "color"): "hist keep op `color` (flat: colour by setter)",
    ("TrafficLight", "set", "active"): "hist keep op `light_active`",
    ("TrafficLight", "set", "direction"): "hist keep op `direction`",
    ("TrafficLight", "set", "shape"): "hist keep op `shape`",
    ("TrafficLight", "op", "translate_rotate"): "hist keep ops `translate_rotate`, `holder_translate_rotate`, `raise_tr` (angle out of range)",
    ("TrafficLight", "op", "convert_to_2d"): "hist keep op `convert_to_2d`",
    ("TrafficLight", "op", "draw"): "hist keep op `draw` (MPRenderer; a read-only query through the renderer)",
    ("TrafficLight", "op", "get_state_at_time_step"): "the observation (via light / via the holder's find_traffic_light_by_id)",
    ("TrafficLight", "op", "__eq__"): "hist keep op `eq`", ("TrafficLight", "op", "__hash__"): "hist keep op `hash`",
    ("TrafficLight", "op", "__str__"): "hist keep op `str`", ("TrafficLight", "op", "__repr__"): "hist keep op `repr`",
}


def actual_dimensions():
    import commonroad.scenario.traffic_light as M
    out = set()
    for cls in (M.TrafficLightCycleElement, M.TrafficLightCycle, M.TrafficLight):
        for p in inspect.signature(cls.__init__).parameters:
            if p != "self":
                out.add((cls.__name__, "ctor", p))
        for name, v in vars(cls).items():
            if isinstance(v, property):
                out.add((cls.__name__, "set" if v.fset is not None else "get", name))
            elif callable(v) or isinstance(v, (staticmethod, classmethod)):
                if name == "__init__" or (name.startswith("_") and not name.startswith("__")):
                    continue          # private helpers are reached through the public operations above
                out.add((cls.__name__, "op", name))
    return out


def check_dimensions():
    """A constructor parameter / setter / public method the table does not know => infrastructure error (exit 2): the
    generators have to be taught about it before the check may claim coverage again.  Returns the message (None = in step)."""
    act, tab = actual_dimensions(), set(DIMENSIONS)
    new, gone = sorted(act - tab), sorted(tab - act)
    if new or gone:
        return f"C17 DIMENSIONS out of date: unknown to the table {new}; no longer in the code {gone}"
    return None


# ------------------------------------------------------------------------------------------------ shared helpers
def _states():
    from commonroad.scenario.traffic_light import TrafficLightState
    return list(TrafficLightState)


def _np(typ):
    import numpy as np
    return getattr(np, typ[3:])


def _num(typ, v):
    return int(v) if typ in (None, "int") else _np(typ)(v)


def fits(typ, v):
    if typ in (None, "int"):
        return -2 ** 63 <= v <= 2 ** 63 - 1
    import numpy as np
    i = np.iinfo(_np(typ))
    return int(i.min) <= v <= int(i.max)


def _scalar_result(a, b):
    """the type in which numpy subtracts two SCALARS: Python ints are weak (they take the other operand's type)"""
    import numpy as np
    ts = [_np(x) for x in (a, b) if x not in (None, "int")]
    return "int" if not ts else "np." + np.result_type(*ts).name


def inside_typed(es, dts, off, otyp, t, ttyp):
    """Durations / offset / time step given as numpy integers of ANY width (mixed within one cycle), as measured on the
    unmodified library (200 000 random cycles, warnings as errors, 0 wrong): np.cumsum over the LIST of durations promotes to
    int64 whatever their widths (uint64 when all are unsigned), so the table never wraps; what limits the exact range is the
    scalar subtraction `time_step - self.time_offset`, carried out in the promoted type of those two (Python ints weak)."""
    total = sum(d for _, d in es)
    if not (off + total <= 2 ** 63 - 1 and all(fits(x, d) for (_, d), x in zip(es, dts)) and fits(otyp, off) and fits(ttyp, t)):
        return False
    r = _scalar_result(ttyp, otyp)
    if not (fits(r, t) and fits(r, off) and fits(r, t - off)):
        return False
    if all(x not in (None, "int") and x.startswith("np.uint") for x in dts):
        # all durations unsigned: a uint64 table (float64 once a signed offset is added): non-negative and below 2^53 only
        return t - off >= 0 and off + total < 2 ** 53 and abs(t) < 2 ** 53
    return True


def gen_typed(ctx, force=None):
    """flat case whose durations / offset / time steps are numpy integers of every width, mixed within one cycle; the sums
    deliberately leave the range of the narrow types (the table must not inherit them)"""
    import numpy as np
    r = ctx.rng
    n = r.choice([1, 2, 2, 3, 3, 4, 6])
    kind = force or r.choice(["same", "same", "mixed", "mixed", "unsigned"])
    if kind == "same":
        dts = [r.choice(NP_INTS[:6])] * n
    elif kind == "unsigned":
        dts = [r.choice(["np.uint8", "np.uint16", "np.uint32"]) for _ in range(n)]
    else:
        dts = [r.choice(["int"] + NP_INTS) for _ in range(n)]
        if all(x.startswith("np.uint") for x in dts):
            dts[0] = "np.int8"
    es = []
    for x in dts:
        hi = 10 ** 6 if x in ("int", "np.int64") else int(np.iinfo(_np(x)).max)
        es.append([r.randrange(5), r.choice([r.randint(1, 9), hi, hi - r.randint(0, 3), r.randint(1, hi), max(1, hi // 2 + r.randint(0, 2))])])
    total = sum(d for _, d in es)
    otyp = r.choice(["int", "int"] + NP_INTS + [dts[0]])
    ohi = 10 ** 6 if otyp in ("int", "np.int64") else int(np.iinfo(_np(otyp)).max)
    off = r.choice([0, 1, 5, r.randint(0, min(ohi, 40)), ohi, r.randint(0, ohi)])
    ttyp = r.choice(["int", "int"] + NP_INTS + [dts[0], otyp])
    res = _scalar_result(ttyp, otyp)
    lo, hi = (-10 ** 9, 10 ** 9) if res in ("int", "np.int64") else (int(np.iinfo(_np(res)).min), int(np.iinfo(_np(res)).max))
    if ttyp not in ("int", "np.int64"):
        lo, hi = max(lo, int(np.iinfo(_np(ttyp)).min)), min(hi, int(np.iinfo(_np(ttyp)).max))
    cand = {lo, lo + 1, hi, hi - 1, off, off - 1, off + total, off + total - 1, off + lo, off + hi}
    acc = 0
    for _, d in es:
        for per in (-3, -1, 0, 1, 2, 7):
            cand.update([off + per * total + acc, off + per * total + acc + d - 1])
        acc += d
    for _ in range(12):
        cand.add(r.randint(lo, hi))
        cand.add(r.randint(max(lo, off - 3 * total), min(hi, max(off + 5 * total, lo))) if max(lo, off - 3 * total) <= min(hi, max(off + 5 * total, lo)) else off)
    ts = sorted(t for t in cand if inside_typed(es, dts, off, otyp, t, ttyp))
    if len(ts) > 40:
        ts = sorted(r.sample(ts, 40))
    return {"es": es, "dts": dts, "off": off, "otyp": otyp, "ttyp": ttyp, "ts": ts}


I64 = 2 ** 63


def inside(es, off, t, ttyp=None, ityp=None):
    """The integers the unmodified library computes exactly (measured on the real code, warnings as errors): the table
    ends at offset + total <= 2^63 - 1 and t - offset is an int64; when the time step or the offset is numpy-typed, t is an
    int64 itself.  With Python ints on both sides t may lie beyond int64 as long as t - offset does not."""
    total = sum(d for _, d in es)
    if "np.int32" in (ttyp, ityp):
        return abs(t) + off + total < 2 ** 31 - 1          # everything numpy may compute in 32 bits fits
    py = ttyp in (None, "int") and ityp in (None, "int")
    return off + total <= I64 - 1 and -I64 <= t - off <= I64 - 1 and (py or -I64 <= t <= I64 - 1)


def oracle_state(es, off, t):
    """Independent walk: element whose window contains (t - off) mod total."""
    total = sum(d for _, d in es)
    k = (t - off) % total
    for s, d in es:
        if k < d:
            return s
        k -= d
    raise AssertionError("unreachable")


def _fail(ctx, key, what, case, cap=3):
    """ctx.fail, but one key at most `cap` times per worker (a recorded finding must not crowd out new ones)."""
    seen = ctx.__dict__.setdefault("_c17_keys", {})
    seen[key] = seen.get(key, 0) + 1
    if seen[key] <= cap:
        ctx.fail(key, what, case)


# ------------------------------------------------------------------------------------------------ flat stream
def gen_case(ctx):
    r = ctx.rng
    n = r.choice([1, 1, 2, 3, 3, 4, 5, 6])
    if r.random() < 0.04:
        n = r.randint(7, 60)
    big = r.random() < 0.1
    st = _states()
    es = [[r.randrange(len(st)), r.randint(1, 10 ** 6) if big and r.random() < 0.5 else r.randint(1, 9)] for _ in range(n)]
    off = r.choice([0, 0, 1, 2, 5, 20, r.randint(0, 20), r.randint(0, 10 ** 6)])
    case = {}
    u = r.random()
    if u < 0.12:
        case["ityp"] = r.choice(["np.int64", "np.int32"])
    elif u < 0.2:
        case["noff"] = True
        off = 0
    elif u < 0.26 and not big:
        es[r.randrange(n)][1] = r.choice([10 ** 12, 10 ** 12 + 7, 2 ** 40])       # a very long phase
    total = sum(d for _, d in es)
    ts = set()
    # phase boundaries in several periods
    acc = 0
    for _, d in es:
        for per in (-2, -1, 0, 1, 3):
            ts.update([off + per * total + acc, off + per * total + acc + d - 1])
        acc += d
    for _ in range(6):
        ts.add(r.randint(off - 3 * total, off + 5 * total))
    ts.add(r.randint(-10 ** 9, 10 ** 9))
    if r.random() < 0.3:
        ts.update([r.randint(-10 ** 15, 10 ** 15), -10 ** 15, 10 ** 15 + off])
    v = r.random()
    if v < 0.15:
        case["ttyp"] = "np.int64"
    elif v < 0.3:
        case["ttyp"] = "np.int32"
    w = r.random()
    if w < 0.3 and case.get("ttyp") != "np.int32" and case.get("ityp") != "np.int32":
        # the whole range the library computes exactly in int64 (see `inside`): magnitudes above 2^53 (where a double no longer
        # holds every integer) up to the int64 edges, for the time step, the offset and the sum of the durations
        if w < 0.1 and not case.get("noff"):
            off = r.choice([2 ** 53 + 1, 2 ** 53 + r.randint(2, 10 ** 6), r.randint(2 ** 53, 2 ** 62), 10 ** 17 + 1,
                            I64 - 1 - total, I64 - 1 - total - r.randint(1, 1000)])
        elif w < 0.2:
            i = r.randrange(n)
            rest = total - es[i][1]
            es[i][1] = r.choice([2 ** 53 + 1, 2 ** 53 + r.randint(2, 10 ** 6), 2 ** 61, r.randint(2 ** 53, 2 ** 62),
                                 I64 - 1 - off - rest, I64 - 1 - off - rest - r.randint(1, 1000)])
            total = sum(d for _, d in es)
        lo, hi = off - I64, off + I64 - 1          # t - off is an int64
        far = set()
        k = (I64 - 1 - total) // total             # the last whole period inside
        acc = 0
        for _, d in es[:6]:
            for per in (-k, -(k // 2 + 1), -(10 ** 16) if 10 ** 16 < k else -k, 10 ** 16 if 10 ** 16 < k else k - 1, k // 3 + 1, k - 1):
                far.update([off + per * total + acc, off + per * total + acc + d - 1])
            acc += d
        far.update([off + 2 ** 53 + 1, off - 2 ** 53 - 1, off + 2 ** 53, off + 2 ** 53 + 2, off + 10 ** 17 + 1, off - 10 ** 17 - 1,
                    lo, lo + 1, hi, hi - 1, r.randint(lo, hi), r.randint(lo, hi), r.randint(lo, hi)])
        base = r.choice(sorted(ts))
        far.update([base + (10 ** 16 % (k + 1)) * total, base - (10 ** 16 % (k + 1)) * total, base + (k // 2) * total])
        far = [t for t in far if inside(es, off, t, case.get("ttyp"), case.get("ityp"))]
        ts = set(r.sample(sorted(ts), min(len(ts), 16))) | set(r.sample(far, min(len(far), 24)))
    ts = sorted(t for t in ts if inside(es, off, t, case.get("ttyp"), case.get("ityp")) or "np.int32" in (case.get("ttyp"), case.get("ityp")))
    if len(ts) > 40:
        ts = sorted(r.sample(ts, 40))
    lim = 2 ** 31 - 1
    if case.get("ttyp") == "np.int32" or case.get("ityp") == "np.int32":
        # everything numpy computes in 32 bits has to fit: keep the whole case small
        es = [[s, min(d, 9)] for s, d in es]
        off = min(off, 20)
        total = sum(d for _, d in es)
        ts = sorted({max(-10 ** 6, min(10 ** 6, t)) for t in ts} | {off + total, off + total - 1, off - 1})
        assert all(abs(t) + off + total < lim for t in ts)
    case.update({"es": es, "off": off, "ts": ts})
    return case


def run_case(ctx, case):
    if case.get("kind") == "hist":
        return run_hist(ctx, case)
    from commonroad.scenario.traffic_light import (TrafficLight, TrafficLightCycle, TrafficLightCycleElement)
    import numpy as np
    st = _states()
    es, off, ts = case["es"], case["off"], case["ts"]
    ityp, ttyp, noff = case.get("ityp"), case.get("ttyp"), bool(case.get("noff")) and off == 0
    dts, otyp = case.get("dts"), case.get("otyp", case.get("ityp"))
    total = sum(d for _, d in es)
    if dts:
        if not ts:
            return
        ok = (lambda t_: inside_typed(es, dts, off, otyp, t_, ttyp))
        unsigned = all(x.startswith("np.uint") for x in dts)
        ctx.tag("flat/dts-" + ("all-unsigned" if unsigned else "same-narrow" if len(set(dts)) == 1 else "mixed-widths"))
        for x in set(dts) | {otyp, ttyp}:
            if x not in (None, "int") and not fits(x, off + total):
                ctx.tag(f"flat/offset+total-exceeds-{x}")
            if x not in (None, "int") and any(not fits(x, t - off) or not fits(x, t) for t in ts):
                ctx.tag(f"flat/t-exceeds-{x}")
        ctx.tag(f"flat/otyp-{otyp or 'int'}", f"flat/ttyp-{ttyp or 'int'}")
    else:
        ok = (lambda t_: inside(es, off, t_, ttyp, ityp))
    if len(es) == 1:
        ctx.tag("single-element")
    if any(t < off for t in ts):
        ctx.tag("t<offset")
    if any(t > off + 2 * total for t in ts):
        ctx.tag("many-periods")
    ctx.tag("boundary")
    if ityp:
        ctx.tag(f"flat/ityp-{ityp}")
    if ttyp:
        ctx.tag(f"flat/ttyp-{ttyp}")
    if noff:
        ctx.tag("flat/offset-omitted")
    if len(es) > 6:
        ctx.tag("flat/many-elements")
    if any(d >= 10 ** 12 for _, d in es):
        ctx.tag("flat/huge-duration")
    if any(abs(t) >= 10 ** 14 for t in ts):
        ctx.tag("flat/huge-t")
    if any(abs(t - off) > 2 ** 53 for t in ts):
        ctx.tag("flat/|t-off|>2^53")
    if any(t - off in (-I64, -I64 + 1, I64 - 1, I64 - 2) for t in ts):
        ctx.tag("flat/t-off-at-int64-edge")
    if any(not -I64 <= t <= I64 - 1 for t in ts):
        ctx.tag("flat/t-beyond-int64")
    if off > 2 ** 53:
        ctx.tag("flat/offset>2^53")
    if total > 2 ** 53:
        ctx.tag("flat/total>2^53")
    if off + total == I64 - 1:
        ctx.tag("flat/table-end-at-int64-max")
    if any(not ok(t) for t in ts):
        ctx.excluded += 1          # a stored case outside the integers the library computes exactly: no verdict (ASSUMPTIONS)
        return
    ctx.case(case)

    def mk():
        els = [TrafficLightCycleElement(st[s], _num(dts[i] if dts else ityp, d)) for i, (s, d) in enumerate(es)]
        return TrafficLightCycle(els) if noff else TrafficLightCycle(els, time_offset=_num(otyp, off))

    impl, impl_light = [], []
    cyc = mk()
    # an inactive light still "agrees with its cycle" (the property makes no exception); active both ways
    # every optional constructor argument of the light is varied: the colour list (lamps the light has) may lack states of the
    # cycle, be empty or be given through the setter; the property makes no exception for any of them
    kw = {"active": (off + len(es)) % 3 != 0}
    cmode = (off + 2 * len(es) + len(ts)) % 4
    used = sorted({s for s, _ in es})
    colors = {0: None, 1: [st[s] for s in used[:-1]], 2: [st[(used[0] + 1) % len(st)]], 3: [st[s] for s in used]}[cmode]
    if colors is not None and cmode != 2:
        kw["color"] = colors
    light = TrafficLight(1, np.array([0.0, 0.0]), mk(), **kw)
    if cmode == 2:
        light.color = colors
    ctx.tag("light/inactive" if not light.active else "light/active")
    ctx.tag(f"light/color-{['default', 'lacks-a-cycle-state', 'disjoint-by-setter', 'all-cycle-states'][cmode]}")
    for t in ts:
        r = call(cyc.get_state_at_time_step, _num(ttyp, t))
        impl.append({"ok": st.index(r[1])} if r[0] == "ok" else {"err": r[1]})
        r2 = call(light.get_state_at_time_step, _num(ttyp, t))
        impl_light.append({"ok": st.index(r2[1])} if r2[0] == "ok" else {"err": r2[1]})
    model = ctx.driver.ask("C17", "state_at", {"es": es, "off": off, "ts": ts})
    model_light = ctx.driver.ask("C17", "light_state_at", {"es": es, "off": off, "ts": ts})
    ctx.compare(case, impl, model, "TrafficLightCycle.get_state_at_time_step vs CR.TL.stateAt")
    ctx.compare(case, impl_light, model_light, "TrafficLight.get_state_at_time_step vs CR.TL.lightStateAt")
    # oracle (independent of the model)
    typed = f" (durations given as {dts}, offset as {otyp or 'int'}, time step as {ttyp or 'int'})" if dts else ""
    for t, a, b in zip(ts, impl, impl_light):
        want = oracle_state(es, off, t)
        sub = dict(case, ts=[t])
        if "err" in a:
            ctx.fail(f"C17/cycle.get_state_at_time_step/raises-{a['err']}", f"raises for cycle {es} offset {off} t={t}{typed}", sub)
        elif a["ok"] != want:
            ctx.fail("C17/cycle.get_state_at_time_step/wrong-state",
                     f"cycle {es} offset {off} t={t}{typed}: got {st[a['ok']].name}, cycle definition gives {st[want].name}", sub)
        if b != a:
            ctx.fail("C17/light.get_state_at_time_step/disagrees-with-cycle",
                     f"TrafficLight reports {b}, its cycle {a} at t={t}", sub)
        # periodicity
    if dts:
        # periodicity inside the typed range; the setter orders below are about histories, not about integer widths
        tt = ts[len(ts) // 2]
        for k in (1, 2, 5, 1000):
            if ok(tt + k * total):
                r1, r2 = call(mk().get_state_at_time_step, _num(ttyp, tt)), call(mk().get_state_at_time_step, _num(ttyp, tt + k * total))
                if r1[:2] != r2[:2]:
                    ctx.fail("C17/cycle.get_state_at_time_step/not-periodic", f"state at {tt} and {tt}+{k}*{total} differ",
                             dict(case, ts=[tt, tt + k * total]))
                    break
        return
    # TrafficLight keeps agreeing with its cycle after the cycle is replaced / edited (query -> set -> query)
    es2 = [[(s + 1) % len(st), d + (i % 2)] for i, (s, d) in enumerate(es)][::-1]
    cyc2 = TrafficLightCycle([TrafficLightCycleElement(st[s], d) for s, d in es2], time_offset=off + 1)
    light.traffic_light_cycle = cyc2
    for t in [t for t in ts if inside(es2, off + 1, t)][:12]:
        a2, b2 = call(cyc2.get_state_at_time_step, t), call(light.get_state_at_time_step, t)
        want2 = oracle_state(es2, off + 1, t)
        if b2[:2] != a2[:2] or (b2[0] == "ok" and st.index(b2[1]) != want2):
            ctx.fail("C17/light.get_state_at_time_step/disagrees-with-cycle-after-replacement",
                     f"after light.traffic_light_cycle = <new cycle>: light reports {b2[1]}, new cycle defines {st[want2].name} at t={t}",
                     dict(case, ts=[t]))
            break
    ctx.tag("light/cycle-replaced")
    # the cycle itself after its offset / elements are changed through the setters (query -> set -> query)
    cyc3 = mk()
    for t in ts[:3]:
        call(cyc3.get_state_at_time_step, t)
    off3 = off + 1 + (len(es) % 4)
    cyc3.time_offset = off3
    es3 = es
    if len(ts) % 2 == 0:
        es3 = es[::-1]
        cyc3.cycle_elements = [TrafficLightCycleElement(st[s], d) for s, d in es3]
    elif len(ts) % 3 == 0:
        # the SAME list object edited in place and handed back to the setter (`cycle.cycle_elements += [...]`)
        es3 = es + [[(es[0][0] + 2) % len(st), 2 + len(es) % 3]]
        lst = cyc3.cycle_elements
        lst.append(TrafficLightCycleElement(st[es3[-1][0]], es3[-1][1]))
        cyc3.cycle_elements = lst
        ctx.tag("cycle/same-list-reassigned")
    if not inside(es3, off3, off3):
        es3, off3 = es, off                 # no room left below 2^63 for a longer / later cycle: the setters put the old values back
        cyc3.time_offset = off3
        cyc3.cycle_elements = [TrafficLightCycleElement(st[s], d) for s, d in es3]
    for t in [t for t in ts if inside(es3, off3, t)][:10] + [off3 + sum(d for _, d in es3) - 1, off3 + sum(d for _, d in es3) - 2]:
        a3 = call(cyc3.get_state_at_time_step, t)
        want3 = oracle_state(es3, off3, t)
        if a3[0] != "ok" or st.index(a3[1]) != want3:
            ctx.fail("C17/cycle.get_state_at_time_step/wrong-state-after-setter",
                     f"after queries, time_offset = {off3}" + (" and cycle_elements replaced / extended" if es3 is not es else "") +
                     f": t={t} reports {a3[1] if a3[0] == 'ok' else a3[2]}, the cycle definition gives {st[want3].name}",
                     dict(case, ts=ts[:3] + [t]))
            break
    ctx.tag("cycle/setter-after-query")
    # periodicity, one period and MANY periods apart (as many as fit: up to 10^16 periods / the int64 edge)
    tt = ts[len(ts) // 2]
    kmax = (off + I64 - 1 - tt) // total
    for k in [k for k in sorted({1, min(kmax, 10 ** 16), kmax, kmax // 2}) if k >= 1 and inside(es, off, tt + k * total, None, ityp)]:
        r1, r2 = call(mk().get_state_at_time_step, tt), call(mk().get_state_at_time_step, tt + k * total)
        if r1[:2] != r2[:2]:
            ctx.fail("C17/cycle.get_state_at_time_step/not-periodic", f"state at {tt} and {tt}+{k}*{total} differ",
                     dict(case, ts=[tt, tt + k * total]))
            break


# ------------------------------------------------------------------------------------------------ history stream
KEEPS_ANY = ["cyc_active", "eq", "hash", "str", "repr", "deepcopy_cycle", "pickle_cycle", "raise_q",
             "shallow_copy_off", "shallow_copy_es", "shallow_copy_query"]
KEEPS_LIGHT = ["light_active", "color", "direction", "position", "id", "shape", "translate_rotate", "convert_to_2d",
               "deepcopy_light", "pickle_light", "raise_tr", "draw"]
KEEPS_HOLD = ["deepcopy_holder", "pickle_holder", "copy_network", "holder_translate_rotate"]
FORCE = ["alias", "off-omitted", "cyc-active-False", "cyc-active-omitted", "no-light", "light-pos-None", "light-pos-3d", "light-id-0",
         "light-shape", "light-color-empty", "light-active-False", "light-direction-given", "hold-network", "hold-scenario", "io-xml",
         "io-pb", "np.int64", "np.int32", "via-holder", "via-twin", "q-np.int32", "q-np.int64",
         "op:off-same", "op:es-same", "op:es-reuse", "op:dur-early", "op:dur-late", "op:state-early", "op:state-late", "op:app-early",
         "op:app-late", "op:dur-alias", "op:fresh", "op:reassign", "op:read", "op:read-early", "op:off-es", "op:es-off", "op:raise_empty"] + \
        [f"keep:{k}" for k in KEEPS_ANY + KEEPS_LIGHT + KEEPS_HOLD]


def _g_elems(r, n, small=False):
    """n [state, duration] pairs + identity classes (with probability 1/5 one object sits at two positions)"""
    es = [[r.randrange(5), r.choice([1, 1, 2, 3, r.randint(1, 9)] + ([] if small else [r.randint(1, 10 ** 6)]))] for _ in range(n)]
    cls = list(range(n))
    return es, cls


def gen_hist(ctx, force=None):
    """One history.  `force` names a dimension this case must exercise (run() cycles through FORCE so that no required bucket
    depends on the luck of a seed)."""
    r = ctx.rng
    f = force or ""
    small = f in ("np.int32", "q-np.int32") or r.random() < 0.1
    ityp = "np.int32" if f == "np.int32" else "np.int64" if f == "np.int64" else r.choice(["int"] * 6 + ["np.int64"] + (["np.int32"] if small else []))
    small = small or ityp == "np.int32"
    n = r.choice([1, 2, 2, 3, 3, 4, 5])
    if f in ("alias", "op:dur-alias"):
        n = max(n, 2)
    es, cls = _g_elems(r, n, small)
    if n >= 2 and (f in ("alias", "op:dur-alias") or r.random() < 0.2):
        i, j = r.sample(range(n), 2)
        es[j], cls[j] = list(es[i]), cls[i]
    off = r.choice([0, 0, 1, 2, 5, 20, r.randint(0, 40)] + ([] if small else [r.randint(0, 10 ** 6)]))
    case = {"kind": "hist", "es": es, "cls": cls, "off": off, "ityp": ityp}
    if f == "off-omitted" or (not force and r.random() < 0.15):
        case["off"] = None
        off = 0
    case["cyc_active"] = False if f == "cyc-active-False" else None if f == "cyc-active-omitted" else r.choice([True, False, None])
    io = "xml" if f == "io-xml" else "pb" if f == "io-pb" else r.choice([None] * 8 + ["xml", "pb"])
    hold = "network" if f == "hold-network" else "scenario" if f == "hold-scenario" else r.choice([None, None, "network", "scenario"])
    need_light = io or hold or f.startswith("light-") or f in ("via-holder", "op:fresh", "op:reassign") or f[5:] in KEEPS_LIGHT + KEEPS_HOLD
    if f[5:] in KEEPS_HOLD or f == "via-holder":
        hold = hold or r.choice(["network", "scenario"])
    if f in ("no-light", "keep:deepcopy_cycle", "keep:pickle_cycle") or (not need_light and r.random() < 0.3):
        light, hold, io = None, None, None
    else:
        light = {"id": 0 if f == "light-id-0" else r.choice([0, 1, 7, 10 ** 6])}
        light["pos"] = None if f == "light-pos-None" else [1.5, -2.0, 3.0] if f == "light-pos-3d" else \
            r.choice([[0.0, 0.0], [3.5, -2.25], [1.5, -2.0, 3.0], None])
        used = sorted({s for s, _ in es})
        light["color"] = [] if f == "light-color-empty" else r.choice(["omit", None, [], used[:-1], [(used[0] + 1) % 5], used])
        light["active"] = False if f == "light-active-False" else r.choice(["omit", True, False])
        light["direction"] = r.randrange(7) if f == "light-direction-given" else r.choice(["omit"] + list(range(7)))
        light["shape"] = [0.5, 1.5] if f == "light-shape" else r.choice(["omit", None, [0.5, 1.5]])
        if io and light["pos"] is not None and len(light["pos"]) == 3:
            light["pos"] = light["pos"][:2]       # the file formats store 2-d positions
        kf = f[5:] if f.startswith("keep:") else ""
        if kf in ("translate_rotate", "draw", "holder_translate_rotate", "raise_tr"):
            light["pos"] = [3.5, -2.25]
        if kf == "convert_to_2d":
            light["pos"] = [1.5, -2.0, 3.0]
        if kf in ("id", "deepcopy_light", "pickle_light"):
            hold = None
    if force and not f.startswith("io-"):
        io = None
    case["light"], case["hold"], case["io"] = light, hold, io
    if io:
        # what the file formats can carry: 32-bit durations
        case["es"] = es = [[s, min(d, 10 ** 6)] for s, d in es]

    # ---- operations
    ops = []
    cur_n = [n]                  # current number of elements (indices must stay valid)
    queried = [False]

    def q(k=None):
        es_now_total = 60        # only a scale for the time steps; the true boundaries are added at run time ("b" entries)
        via = r.choice(["cycle", "cycle", "light", "holder", "twin"])
        if f in ("via-holder", "via-twin"):
            via = f[4:]
        ttyp = "np.int32" if (f == "q-np.int32" or (small and r.random() < 0.3)) else \
            "np.int64" if (f == "q-np.int64" or r.random() < 0.15) else "int"
        # time steps are given RELATIVE to the definition at run time: ["b", i, per, end] = first / last step of element i's
        # window in period per; plain integers are absolute
        ts = []
        for _ in range(k or r.choice([2, 3, 4, 6])):
            u = r.random()
            if u < 0.6:
                per = r.choice([-2, -1, 0, 0, 1, 2, 5])
                if ttyp != "np.int32" and not small and r.random() < 0.12:
                    # many periods later / earlier: |t - offset| above 2^53, up to the int64 edge (halved at run time until inside)
                    per = r.choice([10 ** 16, -10 ** 16, 2 ** 62, -2 ** 62, 2 ** 53 + 1, -(2 ** 53) - 1])
                ts.append(["b", r.randrange(6), per, r.random() < 0.5])
            elif u < 0.9:
                ts.append(r.randint(-es_now_total, 2 * es_now_total))
            else:
                ts.append(r.randint(-10 ** 6, 10 ** 6) if small or ttyp == "np.int32" else r.randint(-10 ** 12, 10 ** 12))
        queried[0] = True
        return ["q", ts, via, ttyp]

    def new_el():
        return [r.randrange(5), r.choice([1, 2, 3, r.randint(1, 9)] + ([] if small else [r.randint(1, 10 ** 4)]))]

    def es_op(mode=None):
        mode = mode or r.choice(["new", "new", "same", "reuse"])
        if mode == "reuse":
            m = r.choice([cur_n[0], cur_n[0], cur_n[0] + 1, max(1, cur_n[0] - 1)])
            spec = [["old", r.randrange(cur_n[0])] for _ in range(m)]
            if r.random() < 0.5:
                spec = [["old", i] for i in reversed(range(cur_n[0]))]
        else:
            m = r.choice([1, 2, 3, 4])
            spec = [new_el() for _ in range(m)]
            if m >= 2 and r.random() < 0.2:
                spec[-1] = ["dup", 0]          # the first NEW object once more
        cur_n[0] = len(spec)
        return ["es", spec, mode]

    def off_op(same=False):
        return ["off", "same" if same else r.choice([0, 1, 2, 7, r.randint(0, 30)]), r.choice(["int", "int", ityp])]

    def dur_op():
        return ["dur", r.randrange(cur_n[0]), r.choice([1, 2, 3, 4, r.randint(1, 9)])]

    def state_op():
        return ["state", r.randrange(cur_n[0]), r.randrange(5)]

    def app_op():
        cur_n[0] += 1
        return ["app", new_el() if r.random() < 0.8 else ["old", r.randrange(cur_n[0] - 1)]]

    def keep_op(name=None):
        pool = list(KEEPS_ANY) + (KEEPS_LIGHT if light else []) + (KEEPS_HOLD if hold else [])
        return ["keep", name or r.choice(pool)]

    def any_op():
        u = r.random()
        if u < 0.34:
            return q()
        if u < 0.44:
            return off_op(r.random() < 0.15)
        if u < 0.54:
            return es_op()
        if u < 0.62:
            return dur_op()
        if u < 0.68:
            return state_op()
        if u < 0.73:
            return app_op()
        if u < 0.77:
            return ["read"]
        if u < 0.81 and light:
            return r.choice([["fresh"], ["reassign"]])
        return keep_op()

    if f.startswith("op:"):
        k = f[3:]
        early = {"dur-early": dur_op, "state-early": state_op, "app-early": app_op, "read-early": lambda: ["read"]}
        late = {"dur-late": dur_op, "state-late": state_op, "app-late": app_op, "read": lambda: ["read"],
                "off-same": lambda: off_op(True), "es-same": lambda: es_op("same"), "es-reuse": lambda: es_op("reuse"),
                "fresh": lambda: ["fresh"], "reassign": lambda: ["reassign"]}
        if k in early:
            ops += [early[k](), q(4)]
        elif k in late:
            ops += [q(), late[k](), q(4)]
        elif k == "dur-alias":
            i = [i for i in range(n) if cls.count(cls[i]) > 1][0]
            ops += [["dur", i, r.choice([1, 4, 6])], q(6), ["dur", i, r.choice([2, 3, 5])], q(6)]
        elif k == "off-es":
            ops += [q(), off_op(), es_op(), q(4)]
        elif k == "es-off":
            ops += [q(), es_op(), off_op(), q(4)]
        elif k == "raise_empty":
            ops += [q(), ["es", [], "new"], ["keep", "raise_empty"], ["es", [new_el(), new_el()], "new"], q(4)]
            cur_n[0] = 2
    elif f.startswith("keep:"):
        ops += [q(), keep_op(f[5:]), q(4)]
    for _ in range(r.randint(2, 8) if force else r.randint(3, 12)):
        ops.append(any_op())
    if ops[-1][0] != "q":
        ops.append(q(4))
    case["ops"] = ops
    return case


class _Book:
    """The oracle's own book of what was put into the cycle: element cells (identity -> [state, duration]) in order, and the
    offset.  Independent of the Lean model (which keeps values + identity classes)."""

    def __init__(self):
        self.cells, self.order, self.off, self.next = {}, [], 0, 0

    def new_cell(self, s, d):
        self.next += 1
        self.cells[self.next] = [s, d]
        return self.next

    def es(self):
        return [list(self.cells[c]) for c in self.order]

    def cls(self):
        return list(self.order)


def _mk_holder(kind, light, np):
    from commonroad.scenario.lanelet import Lanelet, LaneletNetwork
    from commonroad.scenario.scenario import Scenario, ScenarioID
    la = Lanelet(np.array([[0., 1.], [10., 1.]]), np.array([[0., 0.], [10., 0.]]), np.array([[0., -1.], [10., -1.]]), 11)
    if kind == "network":
        net = LaneletNetwork.create_from_lanelet_list([la])
        net.add_traffic_light(light, {11})
        return net
    sc = Scenario(0.1, ScenarioID())
    sc.add_objects(la)
    sc.add_objects(light, {11})
    return sc


def _net_of(holder):
    return holder.lanelet_network if hasattr(holder, "lanelet_network") else holder


def run_hist(ctx, case):
    import numpy as np
    import commonroad.scenario.traffic_light as M
    from commonroad.geometry.shape import Rectangle
    st, dirs = _states(), list(M.TrafficLightDirection)
    E, C, L = M.TrafficLightCycleElement, M.TrafficLightCycle, M.TrafficLight
    ityp = case.get("ityp") or "int"
    ctx.case(case)
    book = _Book()

    # ---- construction
    objs = {}                     # cell id -> element object

    def build(es, cls):
        """element objects for a list given with identity classes; returns (objects, cell ids)"""
        by_cls, out, ids = {}, [], []
        for (s, d), c in zip(es, cls):
            if c not in by_cls:
                cid = book.new_cell(s, d)
                by_cls[c] = cid
                objs[cid] = E(st[s], _num(ityp, d))
            ids.append(by_cls[c])
            out.append(objs[by_cls[c]])
        return out, ids

    els, ids = build(case["es"], case["cls"])
    book.order = ids
    kw = {}
    if case.get("off") is not None:
        kw["time_offset"] = _num(ityp, case["off"])
        book.off = case["off"]
    else:
        ctx.tag("hist/off-omitted")
    if case.get("cyc_active") is not None:
        kw["active"] = case["cyc_active"]
    ctx.tag("hist/cyc-active-" + {None: "omitted", True: "True", False: "False"}[case.get("cyc_active")])
    if len(set(ids)) < len(ids):
        ctx.tag("hist/alias")
    ctx.tag(f"hist/ityp-{ityp}")
    cyc = C(els, **kw)
    light = holder = None
    lc = case.get("light")
    if lc is None:
        ctx.tag("hist/no-light")
    else:
        lk = {}
        if lc["color"] != "omit":
            lk["color"] = None if lc["color"] is None else [st[s] for s in lc["color"]]
        if lc["active"] != "omit":
            lk["active"] = lc["active"]
        if lc["direction"] != "omit":
            lk["direction"] = dirs[lc["direction"]]
            ctx.tag("hist/light-direction-given")
        if lc["shape"] != "omit":
            lk["shape"] = None if lc["shape"] is None else Rectangle(*lc["shape"])
            if lc["shape"]:
                ctx.tag("hist/light-shape")
        pos = None if lc["pos"] is None else np.array(lc["pos"], dtype=float)
        light = L(lc["id"], pos, cyc, **lk)
        ctx.tag("hist/light-pos-" + ("None" if pos is None else f"{len(pos)}d"))
        if lc["id"] == 0:
            ctx.tag("hist/light-id-0")
        if lc["color"] == []:
            ctx.tag("hist/light-color-empty")
        if lc["active"] is False:
            ctx.tag("hist/light-active-False")
        if case.get("hold") or case.get("io"):
            holder = _mk_holder(case.get("hold") or "scenario", light, np)
            if case.get("hold"):
                ctx.tag(f"hist/hold-{case['hold']}")
    if case.get("io") and light is not None:
        # write the scenario, read it back: the history goes on on the light the reader built
        import os
        from commonroad.common.file_reader import CommonRoadFileReader
        from commonroad.common.file_writer import CommonRoadFileWriter, OverwriteExistingFile
        from commonroad.common.util import FileFormat
        from commonroad.planning.planning_problem import PlanningProblemSet
        from commonroad.scenario.scenario import Tag
        fmt = FileFormat.XML if case["io"] == "xml" else FileFormat.PROTOBUF
        sc = holder if hasattr(holder, "lanelet_network") else None
        if sc is None:
            sc = _mk_holder("scenario", copy.deepcopy(light), np)
        path = os.path.join(ctx.tmpdir(), "c17" + (".xml" if case["io"] == "xml" else ".pb"))
        import contextlib, io as _io
        with contextlib.redirect_stdout(_io.StringIO()), contextlib.redirect_stderr(_io.StringIO()):
            CommonRoadFileWriter(sc, PlanningProblemSet(), "a", "b", "c", {Tag.URBAN}, file_format=fmt).write_to_file(
                path, OverwriteExistingFile.ALWAYS)
            sc2, _ = CommonRoadFileReader(path, fmt).open()
        got = sc2.lanelet_network.find_traffic_light_by_id(lc["id"])
        if got is None or got.traffic_light_cycle is None or not got.traffic_light_cycle.cycle_elements:
            ctx.excluded += 1          # the round trip itself is C02/C03's subject
            return
        light, cyc = got, got.traffic_light_cycle
        holder = (sc2 if case.get("hold") == "scenario" else sc2.lanelet_network) if case.get("hold") else None
        # the definition is what the read cycle's public getters report
        book = _Book()
        objs.clear()
        seen = {}
        for e in cyc.cycle_elements:
            if id(e) not in seen:
                seen[id(e)] = book.new_cell(st.index(e.state), int(e.duration))
                objs[seen[id(e)]] = e
            book.order.append(seen[id(e)])
        book.off = int(cyc.time_offset)
        ctx.tag(f"hist/io-{case['io']}")
    es0, cls0, off0 = book.es(), book.cls(), book.off

    # ---- the history
    impl, m_ops = [], []
    fresh_in_taint = []          # (op index, answer index): answered by the definition although an unseen in-place edit is pending
    tainted = []                 # in-place edits the cycle cannot see, made while a table may exist (a query / read since the
    memo = [False]               # last operation that drops it): only those are the recorded finding
    had_query = [False]
    last_setter = [None]
    nq = 0

    def resolve_spec(spec):
        """["es"/"app"] element specs -> (objects, cell ids)"""
        out, ids, news = [], [], []
        for x in spec:
            if x[0] == "old":
                cid = book.order[x[1] % len(book.order)]
            elif x[0] == "dup":
                cid = news[x[1] % len(news)] if news else None
                if cid is None:
                    continue
            else:
                cid = book.new_cell(x[0], x[1])
                objs[cid] = E(st[x[0]], _num(ityp, x[1]))
                news.append(cid)
            ids.append(cid)
            out.append(objs[cid])
        return out, ids

    def holder_light():
        return _net_of(holder).find_traffic_light_by_id(light.traffic_light_id)

    for op in case["ops"]:
        k = op[0]
        if k == "q":
            es_now, off_now = book.es(), book.off
            if not es_now:
                impl.append([])
                m_ops.append(["keep", "skipped query on an empty cycle"])
                continue
            total = sum(d for _, d in es_now)
            ts = []
            for x in op[1]:
                if isinstance(x, list):
                    i = x[1] % len(es_now)
                    per = x[2]
                    t = off_now + per * total + sum(d for _, d in es_now[:i]) + (es_now[i][1] - 1 if x[3] else 0)
                    while not inside(es_now, off_now, t, op[3], ityp) and per not in (0, -1):
                        per //= 2
                        t = off_now + per * total + sum(d for _, d in es_now[:i]) + (es_now[i][1] - 1 if x[3] else 0)
                    ts.append(t)
                    if abs(t - off_now) > 2 ** 53:
                        ctx.tag("q/|t-off|>2^53")
                else:
                    ts.append(x)
            via, ttyp = op[2], op[3]
            if ttyp == "np.int32" and any(abs(t) + off_now + total >= 2 ** 31 - 1 for t in ts):
                ttyp = "int"
            if via == "light" and light is None or via == "holder" and holder is None:
                via = "cycle"
            ctx.tag(f"via/{via}", f"q/{ttyp}")
            if via == "twin":
                # a SECOND light built around the same cycle object (after whatever the cycle has been through so far)
                twin = L(4242, None, cyc, active=False)
            target = {"cycle": lambda: cyc, "light": lambda: light, "holder": holder_light, "twin": lambda: twin}[via]()
            ans = []
            for t in ts:
                rv = call(target.get_state_at_time_step, _num(ttyp, t))
                rc = call(cyc.get_state_at_time_step, _num(ttyp, t)) if via != "cycle" else rv
                a = {"ok": st.index(rc[1])} if rc[0] == "ok" else {"err": rc[1]}
                ans.append(a)
                want = oracle_state(es_now, off_now, t)
                sub = dict(case, ops=case["ops"][:len(impl) + 1])
                if rv[:2] != rc[:2]:
                    _fail(ctx, f"C17/light.get_state_at_time_step/disagrees-with-cycle/via-{via}",
                          f"history {_show(case, len(impl))}: at t={t} the light ({via}) reports {rv[1]}, its cycle {rc[1]}", sub)
                if tainted and a == {"ok": want}:
                    fresh_in_taint.append((len(impl), len(ans) - 1))
                if a != {"ok": want}:
                    got = st[a["ok"]].name if "ok" in a else f"raises {rc[2]}"
                    if tainted:
                        key = K_DUR if tainted[-1] == "dur" else K_APP
                    else:
                        key = "C17/cycle.get_state_at_time_step/wrong-state-in-history" + ("" if "ok" in a else f"/raises-{a['err']}")
                    _fail(ctx, key, f"history {_show(case, len(impl))}: the cycle now has elements "
                          f"{[(st[s].name, d) for s, d in es_now]}, offset {off_now}; t={t} reports {got}, the cycle definition "
                          f"gives {st[want].name}", sub)
            impl.append(ans)
            m_ops.append(["q", ts])
            had_query[0] = memo[0] = True
            nq += 1
            continue
        impl.append([])
        if k == "read":
            call(lambda: cyc.cycle_init_timesteps)
            memo[0] = True
            m_ops.append(["read"])
            ctx.tag("op/read" if had_query[0] else "op/read-before-first-query")
        elif k == "off":
            v = book.off if op[1] == "same" else op[1]
            cyc.time_offset = _num(op[2], v)
            if v == book.off:
                ctx.tag("op/off-same-value")
            book.off = v
            tainted.clear()
            memo[0] = False
            m_ops.append(["off", v])
            ctx.tag("op/off")
            if last_setter[0] == "es":
                ctx.tag("op/setter-order/es-off")
            last_setter[0] = "off"
        elif k == "es":
            mode, spec = op[2], op[1]
            if any(x[0] == "old" for x in spec) and not book.order:
                mode, spec = "new", [[1, 2]]
            new, ids = resolve_spec(spec)
            if mode == "same":
                held = cyc.cycle_elements
                held[:] = new                       # the list the cycle holds, edited in place ...
                cyc.cycle_elements = held           # ... and handed back through the setter
            else:
                cyc.cycle_elements = new
            book.order = ids
            tainted.clear()
            memo[0] = False
            m_ops.append(["es", book.es(), book.cls()])
            ctx.tag(f"op/es-{mode}")
            if last_setter[0] == "off":
                ctx.tag("op/setter-order/off-es")
            last_setter[0] = "es"
        elif k == "dur":
            if not book.order:
                m_ops.append(["keep", "dur on an empty cycle skipped"])
                continue
            i = op[1] % len(book.order)
            cyc.cycle_elements[i].duration = _num(ityp, op[2])
            book.cells[book.order[i]][1] = op[2]
            if memo[0]:
                tainted.append("dur")
            m_ops.append(["dur", i, op[2]])
            ctx.tag("op/dur-after-query" if had_query[0] else "op/dur-before-first-query")
            if book.order.count(book.order[i]) > 1:
                ctx.tag("op/dur-on-aliased-element")
        elif k == "state":
            if not book.order:
                m_ops.append(["keep", "state on an empty cycle skipped"])
                continue
            i = op[1] % len(book.order)
            cyc.cycle_elements[i].state = st[op[2]]
            book.cells[book.order[i]][0] = op[2]
            m_ops.append(["state", i, op[2]])
            ctx.tag("op/state-after-query" if had_query[0] else "op/state-before-first-query")
        elif k == "app":
            spec = op[1] if (op[1][0] != "old" or book.order) else [1, 2]
            new, ids = resolve_spec([spec])
            cyc.cycle_elements.append(new[0])
            book.order = book.order + ids
            if memo[0]:
                tainted.append("app")
            m_ops.append(["app", list(book.cells[ids[0]]), ids[0]])
            ctx.tag("op/app-after-query" if had_query[0] else "op/app-before-first-query")
        elif k in ("fresh", "reassign"):
            if light is None:
                m_ops.append(["keep", f"{k} without a light skipped"])
                continue
            if k == "reassign":
                light.traffic_light_cycle = light.traffic_light_cycle
                m_ops.append(["keep", "reassign"])
            else:
                # a new cycle object made of NEW elements with shifted colours / durations
                es_new = [[(s + 1) % 5, d % 9 + 1] for s, d in (book.es() or [[0, 1]])][::-1]
                book.order = [book.new_cell(s, d) for s, d in es_new]
                for cid in book.order:
                    objs[cid] = E(st[book.cells[cid][0]], _num(ityp, book.cells[cid][1]))
                book.off = book.off + 1
                cyc = C([objs[c] for c in book.order], _num(ityp, book.off))
                light.traffic_light_cycle = cyc
                tainted.clear()
                had_query[0] = memo[0] = False
                m_ops.append(["fresh", book.es(), book.cls(), book.off])
            ctx.tag(f"op/{k}")
        elif k == "keep":
            name = op[1]
            done = True
            if name == "cyc_active":
                cyc.active = not cyc.active
            elif name == "eq":
                call(lambda: (cyc == copy.copy(cyc), cyc.cycle_elements[0] == cyc.cycle_elements[-1], light == light))
            elif name == "hash":
                call(lambda: (hash(cyc), hash(cyc.cycle_elements[0]), hash(light) if light is not None and light.position is not None else 0))
            elif name == "str":
                call(lambda: (str(cyc), str(cyc.cycle_elements[0]), str(light)))
            elif name == "repr":
                call(lambda: (repr(cyc), repr(cyc.cycle_elements[0]), repr(light) if light is not None and light.position is not None else ""))
            elif name == "raise_q":
                rr = call(cyc.get_state_at_time_step, "soon")
                if rr[0] != "err":
                    done = False
            elif name == "raise_empty":
                if book.order:
                    done = False
                else:
                    call(cyc.get_state_at_time_step, 3)        # raises (IndexError) or answers; leaves a table behind
                    memo[0] = True
                    m_ops.append(["read"])
                    ctx.tag("op/keep/raise_empty")
                    continue
            elif name in ("shallow_copy_off", "shallow_copy_es", "shallow_copy_query"):
                # a SHALLOW copy of the cycle (copy.copy shares the element list, the element objects and any memoised table
                # with the original) whose OWN bindings are then changed through its public setters / queried: the original
                # cycle was given no new data, so it must go on answering by its own elements and offset (round-6 seed C17_12:
                # an offset setter shifting the shared table in place)
                twin_c = copy.copy(cyc)
                if name == "shallow_copy_off":
                    twin_c.time_offset = _num(ityp, book.off + 3 + len(impl) % 4)
                elif name == "shallow_copy_es":
                    twin_c.cycle_elements = [E(st[(j + 1) % 5], _num(ityp, j % 3 + 2)) for j in range(len(book.order) % 3 + 1)]
                    call(twin_c.get_state_at_time_step, book.off + 1)
                else:
                    call(twin_c.get_state_at_time_step, book.off + len(impl))
                    call(lambda: twin_c.cycle_init_timesteps)
            elif name in ("deepcopy_cycle", "pickle_cycle") and light is None:
                cyc = copy.deepcopy(cyc) if name == "deepcopy_cycle" else pickle.loads(pickle.dumps(cyc))
                _rebind(objs, book, cyc)
            elif name in ("deepcopy_cycle", "pickle_cycle", "deepcopy_light", "pickle_light") and light is not None and holder is None:
                light = copy.deepcopy(light) if name.startswith("deepcopy") else pickle.loads(pickle.dumps(light))
                cyc = light.traffic_light_cycle
                _rebind(objs, book, cyc)
                name = name.replace("_cycle", "_light")
            elif name in ("deepcopy_cycle", "pickle_cycle", "deepcopy_light", "pickle_light", "deepcopy_holder", "pickle_holder",
                          "copy_network") and holder is not None:
                if name == "copy_network":
                    from commonroad.scenario.lanelet import LaneletNetwork
                    holder = LaneletNetwork.create_from_lanelet_network(_net_of(holder))   # from here on the network copy holds the light
                else:
                    holder = copy.deepcopy(holder) if name.startswith("deepcopy") else pickle.loads(pickle.dumps(holder))
                    name = name.split("_")[0] + "_holder"
                light = holder_light()
                cyc = light.traffic_light_cycle
                _rebind(objs, book, cyc)
            elif light is None:
                done = False
            elif name == "light_active":
                light.active = not light.active
            elif name == "color":
                light.color = [st[(len(impl) + j) % 5] for j in range(len(impl) % 3)]
            elif name == "direction":
                light.direction = dirs[len(impl) % 7]
            elif name == "position":
                light.position = np.array([float(len(impl)), -1.0])
            elif name == "id":
                if holder is None:
                    light.traffic_light_id = light.traffic_light_id + 1
                else:
                    done = False                   # the holder's index is keyed by the id
            elif name == "shape":
                light.shape = Rectangle(1.0 + len(impl), 0.5)
            elif name == "translate_rotate":
                # raises for a light without / with a 3-d position: then it is one more failed call the history goes on after
                done = call(light.translate_rotate, np.array([2.0, -1.0]), 0.5)[0] == "ok"
            elif name == "holder_translate_rotate":
                done = holder is not None and call(holder.translate_rotate, np.array([2.0, -1.0]), 0.5)[0] == "ok"
            elif name == "convert_to_2d":
                if light.position is None:
                    done = False
                else:
                    light.convert_to_2d()
            elif name == "raise_tr":
                rr = call(light.translate_rotate, np.array([1.0, 1.0]), 7.0)
                if rr[0] != "err":
                    done = False
            elif name == "draw":
                if light.position is None or len(light.position) != 2:
                    done = False
                else:
                    _draw(light, book.off + len(impl))
                    if light.active and book.order:
                        memo[0] = True
                        # the renderer asks an ACTIVE light for its state (visualization/traffic_sign.py:513-514): one query
                        m_ops.append(["read"])
                        ctx.tag("op/keep/draw")
                        continue
            else:
                done = False
            if done:
                ctx.tag(f"op/keep/{name}")
            m_ops.append(["keep", name])
        else:
            raise InfraError(f"C17: unknown history op {k}")
    if nq and getattr(ctx, "driver", None) is not None:
        model = ctx.driver.ask("C17", "hist", {"es": es0, "cls": cls0, "off": off0, "ops": m_ops})
        # while an in-place edit the cycle cannot see is pending, the model predicts the outdated answer of the CURRENT code
        # (the recorded finding); an implementation that answers by the definition there is right, not in disagreement
        impl = [list(a) for a in impl]
        for i, j in fresh_in_taint:
            if i < len(model) and j < len(model[i]):
                impl[i][j] = model[i][j]
        ctx.compare(case, impl, model, "history on one TrafficLightCycle object vs CR.TL.Hist.run")


def _rebind(objs, book, cyc):
    """after a copy: the book's cells now stand for the copy's element objects (same order, same sharing)"""
    objs.clear()
    for cid, e in zip(book.order, cyc.cycle_elements):
        objs[cid] = e


_RND = []


def _draw(light, t):
    import matplotlib
    matplotlib.use("Agg")
    from commonroad.visualization.mp_renderer import MPRenderer
    if not _RND:
        _RND.append(MPRenderer())
    rnd = _RND[0]
    rnd.draw_params.time_begin = t
    rnd.draw_params.traffic_light.time_begin = t
    light.draw(rnd)
    rnd.render()            # the collected lights are drawn (and their state asked for) only here
    rnd.clear()


def _show(case, upto):
    def one(op):
        if op[0] == "q":
            return f"query({op[2]})"
        if op[0] == "keep":
            return op[1]
        return {"off": "time_offset=", "es": f"cycle_elements=({op[-1]})", "dur": "element.duration=", "state": "element.state=",
                "app": "cycle_elements.append", "fresh": "light.traffic_light_cycle=new", "reassign": "light.traffic_light_cycle=same",
                "read": "cycle_init_timesteps"}.get(op[0], op[0])
    pre = ("file(" + case["io"] + ") " if case.get("io") else "") + (case.get("hold") or ("light" if case.get("light") else "cycle"))
    return pre + ": " + " -> ".join(one(op) for op in case["ops"][:upto + 1])


def run(ctx):
    import glob, json, os, sys
    from common import CORPUS_DIR
    stale_table = check_dimensions()
    for p in sorted(glob.glob(os.path.join(CORPUS_DIR, "C17", "*.json"))):
        run_case(ctx, json.load(open(p)))
    for _ in range(ctx.n(1500)):
        run_case(ctx, gen_case(ctx))
    for i in range(ctx.n(400)):
        run_case(ctx, gen_typed(ctx, ["same", "mixed", "unsigned", None][i % 4]))
    for i in range(ctx.n(1200)):
        run_hist(ctx, gen_hist(ctx, FORCE[i // 2 % len(FORCE)] if i % 2 == 0 and i < 6 * len(FORCE) else None))
    if stale_table:
        # the code has grown past the table.  A concrete failure found anyway is reported as such (it is more useful than the
        # bookkeeping message); otherwise the run must not pass for a check of the whole interface: exit 2
        print("INFRA: " + stale_table, file=sys.stderr)
        if not [f for f in ctx.failures if f.key not in (K_DUR, K_APP)]:
            raise InfraError(stale_table)


search = run


def replay(ctx, case):
    run_case(ctx, case)


class _Probe:
    """a context that only collects finding keys (for shrinking; no model, no statistics)"""
    driver = None

    def __init__(self):
        self.failures, self.excluded, self._tmp = [], 0, None

    def tag(self, *a):
        pass

    def case(self, *a, **k):
        pass

    def compare(self, *a, **k):
        return True

    def fail(self, key, what, case, detail=None):
        self.failures.append(key)

    def tmpdir(self):
        import tempfile
        if self._tmp is None:
            self._tmp = tempfile.mkdtemp(prefix="crverif_C17s_")
        return self._tmp

    def close(self):
        import shutil
        if self._tmp:
            shutil.rmtree(self._tmp, ignore_errors=True)


def _fails(case, key):
    p = _Probe()
    try:
        run_hist(p, case)
    except Exception:  # noqa
        return False
    finally:
        p.close()
    return key in p.failures


def shrink(case, key):
    """hist: drop operations, then the optional parts of the construction, while the same finding key is still produced"""
    if case.get("kind") != "hist" or not _fails(case, key):
        return case
    from common import shrink_list
    case = dict(case, ops=shrink_list(case["ops"], lambda ops: _fails(dict(case, ops=ops), key)))
    for k, v in (("io", None), ("hold", None), ("light", None), ("cyc_active", None), ("ityp", "int")):
        cand = dict(case, **{k: v})
        if k == "light":
            cand.update(hold=None, io=None)
        if case.get(k) != v and _fails(cand, key):
            case = cand
    return case
