"""C17 — traffic-light state follows the cycle definition.
model: lean/CRModel/TrafficLight.lean; theorems: lean/CRProps/C17.lean."""
from common import call, canon

RULE = ("cycles of 1..6 elements (durations 1..9, sometimes up to 10^6; all colours), offsets 0..20 (sometimes large), "
        "time steps from -3 periods to +5 periods around the offset plus far-away steps; a case is one (cycle, offset, "
        "list of time steps); non-trivial = every case (each evaluates >= 1 step outside the first period or at a phase boundary); "
        "distinct = distinct canonical JSON of the case")
ASSUMPTIONS = ["numpy cumsum/insert/argmax on int64 denote their list counterparts (sampled by the correspondence)",
               "durations and time steps fit in int64 (numpy); the model uses unbounded integers"]
EXTRA_MODULES = ['CRProps.T17']      # translator tie: Gen.Src (regenerated from /repo every run) = hand model
REQUIRED_BUCKETS = ["single-element", "t<offset", "boundary", "many-periods", "light/cycle-replaced", "light/inactive", "light/active", "cycle/setter-after-query", "cycle/same-list-reassigned",
                    "light/color-lacks-a-cycle-state", "light/color-disjoint-by-setter"]


def _states():
    from commonroad.scenario.traffic_light import TrafficLightState
    return list(TrafficLightState)


def gen_case(ctx):
    r = ctx.rng
    n = r.choice([1, 1, 2, 3, 3, 4, 5, 6])
    big = r.random() < 0.1
    st = _states()
    es = [[r.randrange(len(st)), r.randint(1, 10 ** 6) if big and r.random() < 0.5 else r.randint(1, 9)] for _ in range(n)]
    off = r.choice([0, 0, 1, 2, 5, 20, r.randint(0, 20), r.randint(0, 10 ** 6)])
    total = sum(d for _, d in es)
    ts = set()
    # phase boundaries in several periods
    acc = 0
    for _, d in es:
        for per in (-2, -1, 0, 1, 3):
            ts.update([off + per * total + acc, off + per * total + acc + d - 1])
        acc += d
    for _ in range(6):
        ts.add(r.randint(off - 3 * total, off + 5 * total))
    ts.add(r.randint(-10 ** 9, 10 ** 9))
    ts = sorted(ts)
    if len(ts) > 40:
        ts = sorted(r.sample(ts, 40))
    return {"es": es, "off": off, "ts": ts}


def oracle_state(es, off, t):
    """Independent walk: element whose window contains (t - off) mod total."""
    total = sum(d for _, d in es)
    k = (t - off) % total
    for s, d in es:
        if k < d:
            return s
        k -= d
    raise AssertionError("unreachable")


def run_case(ctx, case):
    from commonroad.scenario.traffic_light import (TrafficLight, TrafficLightCycle, TrafficLightCycleElement)
    import numpy as np
    st = _states()
    es, off, ts = case["es"], case["off"], case["ts"]
    total = sum(d for _, d in es)
    if len(es) == 1:
        ctx.tag("single-element")
    if any(t < off for t in ts):
        ctx.tag("t<offset")
    if any(t > off + 2 * total for t in ts):
        ctx.tag("many-periods")
    ctx.tag("boundary")
    ctx.case(case)

    def mk():
        return TrafficLightCycle([TrafficLightCycleElement(st[s], d) for s, d in es], time_offset=off)

    impl, impl_light = [], []
    cyc = mk()
    # an inactive light still "agrees with its cycle" (the property makes no exception); active both ways
    # every optional constructor argument of the light is varied: the colour list (lamps the light has) may lack states of the
    # cycle, be empty or be given through the setter; the property makes no exception for any of them
    kw = {"active": (off + len(es)) % 3 != 0}
    cmode = (off + 2 * len(es) + len(ts)) % 4
    used = sorted({s for s, _ in es})
    colors = {0: None, 1: [st[s] for s in used[:-1]], 2: [st[(used[0] + 1) % len(st)]], 3: [st[s] for s in used]}[cmode]
    if colors is not None and cmode != 2:
        kw["color"] = colors
    light = TrafficLight(1, np.array([0.0, 0.0]), mk(), **kw)
    if cmode == 2:
        light.color = colors
    ctx.tag("light/inactive" if not light.active else "light/active")
    ctx.tag(f"light/color-{['default', 'lacks-a-cycle-state', 'disjoint-by-setter', 'all-cycle-states'][cmode]}")
    for t in ts:
        r = call(cyc.get_state_at_time_step, t)
        impl.append({"ok": st.index(r[1])} if r[0] == "ok" else {"err": r[1]})
        r2 = call(light.get_state_at_time_step, t)
        impl_light.append({"ok": st.index(r2[1])} if r2[0] == "ok" else {"err": r2[1]})
    model = ctx.driver.ask("C17", "state_at", {"es": es, "off": off, "ts": ts})
    model_light = ctx.driver.ask("C17", "light_state_at", {"es": es, "off": off, "ts": ts})
    ctx.compare(case, impl, model, "TrafficLightCycle.get_state_at_time_step vs CR.TL.stateAt")
    ctx.compare(case, impl_light, model_light, "TrafficLight.get_state_at_time_step vs CR.TL.lightStateAt")
    # oracle (independent of the model)
    for t, a, b in zip(ts, impl, impl_light):
        want = oracle_state(es, off, t)
        sub = {"es": es, "off": off, "ts": [t]}
        if "err" in a:
            ctx.fail(f"C17/cycle.get_state_at_time_step/raises-{a['err']}", f"raises for cycle {es} offset {off} t={t}", sub)
        elif a["ok"] != want:
            ctx.fail("C17/cycle.get_state_at_time_step/wrong-state",
                     f"cycle {es} offset {off} t={t}: got {st[a['ok']].name}, cycle definition gives {st[want].name}", sub)
        if b != a:
            ctx.fail("C17/light.get_state_at_time_step/disagrees-with-cycle",
                     f"TrafficLight reports {b}, its cycle {a} at t={t}", sub)
        # periodicity
    # TrafficLight keeps agreeing with its cycle after the cycle is replaced / edited (query -> set -> query)
    es2 = [[(s + 1) % len(st), d + (i % 2)] for i, (s, d) in enumerate(es)][::-1]
    cyc2 = TrafficLightCycle([TrafficLightCycleElement(st[s], d) for s, d in es2], time_offset=off + 1)
    light.traffic_light_cycle = cyc2
    for t in ts[:12]:
        a2, b2 = call(cyc2.get_state_at_time_step, t), call(light.get_state_at_time_step, t)
        want2 = oracle_state(es2, off + 1, t)
        if b2[:2] != a2[:2] or (b2[0] == "ok" and st.index(b2[1]) != want2):
            ctx.fail("C17/light.get_state_at_time_step/disagrees-with-cycle-after-replacement",
                     f"after light.traffic_light_cycle = <new cycle>: light reports {b2[1]}, new cycle defines {st[want2].name} at t={t}",
                     {"es": es, "off": off, "ts": [t]})
            break
    ctx.tag("light/cycle-replaced")
    # the cycle itself after its offset / elements are changed through the setters (query -> set -> query)
    cyc3 = mk()
    for t in ts[:3]:
        call(cyc3.get_state_at_time_step, t)
    off3 = off + 1 + (len(es) % 4)
    cyc3.time_offset = off3
    es3 = es
    if len(ts) % 2 == 0:
        es3 = es[::-1]
        cyc3.cycle_elements = [TrafficLightCycleElement(st[s], d) for s, d in es3]
    elif len(ts) % 3 == 0:
        # the SAME list object edited in place and handed back to the setter (`cycle.cycle_elements += [...]`)
        es3 = es + [[(es[0][0] + 2) % len(st), 2 + len(es) % 3]]
        lst = cyc3.cycle_elements
        lst.append(TrafficLightCycleElement(st[es3[-1][0]], es3[-1][1]))
        cyc3.cycle_elements = lst
        ctx.tag("cycle/same-list-reassigned")
    for t in ts[:10] + [off3 + sum(d for _, d in es3) - 1, off3 + sum(d for _, d in es3) - 2]:
        a3 = call(cyc3.get_state_at_time_step, t)
        want3 = oracle_state(es3, off3, t)
        if a3[0] != "ok" or st.index(a3[1]) != want3:
            ctx.fail("C17/cycle.get_state_at_time_step/wrong-state-after-setter",
                     f"after queries, time_offset = {off3}" + (" and cycle_elements replaced / extended" if es3 is not es else "") +
                     f": t={t} reports {a3[1] if a3[0] == 'ok' else a3[2]}, the cycle definition gives {st[want3].name}",
                     {"es": es, "off": off, "ts": ts[:3] + [t]})
            break
    ctx.tag("cycle/setter-after-query")
    tt = ts[len(ts) // 2]
    r1, r2 = call(mk().get_state_at_time_step, tt), call(mk().get_state_at_time_step, tt + total)
    if r1[:2] != r2[:2]:
        ctx.fail("C17/cycle.get_state_at_time_step/not-periodic", f"state at {tt} and {tt}+{total} differ",
                 {"es": es, "off": off, "ts": [tt, tt + total]})


def run(ctx):
    import glob, json, os
    from common import CORPUS_DIR
    for p in sorted(glob.glob(os.path.join(CORPUS_DIR, "C17", "*.json"))):
        run_case(ctx, json.load(open(p)))
    for _ in range(ctx.n(1500)):
        run_case(ctx, gen_case(ctx))


search = run


def replay(ctx, case):
    run_case(ctx, case)


def shrink(case, key):
    return case
