"""C16 — Interval and AngleInterval behave as the closed sets they denote.
model: lean/CRModel/Interval.lean; theorems: lean/CRProps/C16.lean."""
import glob
import json
import math
import os
from fractions import Fraction

from common import CORPUS_DIR, call, frac, rat, unrat

RULE = ("plain intervals: end points and arguments on the dyadic grid k/16 (|k|<=4096) so float + - * and /2^j are exact, ops "
        "mk/set_start/set_end/contains/containsI/overlaps/intersection/add/sub/mul/div/round/length/gt/lt with arguments at the "
        "end points, just inside/outside, far away, int and float, scalars <0, =0, >0; a second stream of arbitrary doubles "
        "(1e-300..1e300) goes through the oracle with relative tolerance 1e-12. angle intervals: lengths "
        "{0, tiny, pi-eps, pi, pi+eps, 2pi-eps, random} at positions across +-pi and +-2pi (constructor arguments up to +-6pi), "
        "angles at the end points +- 2pi k, inside, outside, int and float. distinct = distinct canonical JSON of the case; "
        "non-trivial = the case hits an end point, a wrap-around, a long (>pi) interval, a non-positive scalar or an error branch")
ASSUMPTIONS = ["float rounding inside + - * / and math.fmod is modelled as exact rational arithmetic; the correspondence is exact on "
               "the dyadic grid and uses a 1e-9 band elsewhere",
               "angles within 1e-9 (mod 2pi) of an interval end point are 'ambiguous' for the oracle (the property is tolerance-guarded)"]
EXTRA_MODULES = ['CRProps.T16']      # translator tie: Gen.Src (regenerated from /repo every run) = hand model
REQUIRED_BUCKETS = ["plain/contains", "plain/mul-neg", "plain/div-neg", "plain/mk-reject", "plain/intersection-none",
                    "angle/long", "angle/int-arg", "angle/wrap", "angle/containsI", "angle/shift", "plain/arbitrary-floats",
                    "angle/setter-then-query"]

BAND = Fraction(1, 10 ** 9)


def _tau():
    from commonroad import TWO_PI
    return TWO_PI


# ------------------------------------------------------------------------------------------------ plain intervals

def grid(r, lim=4096):
    if r.random() < 0.12:
        return r.choice([0, 0.0, -0.0, 1, -1])          # zero is special to Python truthiness: keep it frequent
    k = r.randint(-lim, lim)
    return k / 16.0 if r.random() < 0.7 else (k // 16)   # float or int


def gen_plain(ctx):
    r = ctx.rng
    a, b = sorted([grid(r), grid(r)], key=float)
    if r.random() < 0.1:
        b = a
    op = r.choice(["mk", "set_start", "set_end", "contains", "contains", "containsI", "overlaps", "intersection", "add", "sub",
                   "mul", "mul", "div", "div", "round", "length", "gt", "lt", "gtI", "ltI"])
    case = {"kind": "plain", "op": op, "a": a, "b": b}
    near = [a, b, a - 1 / 16, a + 1 / 16, b - 1 / 16, b + 1 / 16, (a + b) / 2, grid(r), int(a), int(b)]
    if op == "mk":
        if r.random() < 0.5:
            case["a"], case["b"] = (b, a) if a != b else (a + 1, a)
    elif op in ("set_start", "set_end", "contains", "gt", "lt", "add", "sub"):
        case["x"] = r.choice(near)
    elif op in ("containsI", "overlaps", "intersection", "gtI", "ltI"):
        c, d = sorted([r.choice(near), r.choice(near)], key=float)
        case["c"], case["d"] = c, d
    elif op == "mul":
        case["x"] = r.choice([0, 0.0, -1, -0.5, 2, 0.25, -3, grid(r, 64)])
    elif op == "div":
        case["x"] = r.choice([1, -1, 2, -2, 0.5, -0.5, 4.0, -8.0, 0.125, -0.0625])
    elif op == "round":
        case["n"] = r.choice([None, 0, 1, 2])
    return case


def gen_plain_float(ctx):
    """Arbitrary doubles (oracle only, relative tolerance)."""
    r = ctx.rng

    def f():
        return r.choice([-1, 1]) * r.random() * 10.0 ** r.randint(-30, 30)
    a, b = sorted([f(), f()])
    op = r.choice(["contains", "overlaps", "intersection", "add", "sub", "mul", "div", "containsI"])
    case = {"kind": "plainf", "op": op, "a": a, "b": b}
    if op in ("contains", "add", "sub"):
        case["x"] = r.choice([a, b, f(), (a + b) / 2])
    elif op in ("mul", "div"):
        case["x"] = r.choice([f(), -abs(f()), abs(f())])
    else:
        case["c"], case["d"] = sorted([r.choice([a, b, f()]), f()])
    return case


def _iv(i):
    return None if i is None else [rat(i.start), rat(i.end)]


def run_plain_impl(case):
    """Run the real Interval; returns canonical {'ok': ..} / {'err': cls}."""
    from commonroad.common.util import Interval
    op = case["op"]
    if op == "mk":
        r = call(Interval, case["a"], case["b"])
        return {"ok": _iv(r[1])} if r[0] == "ok" else {"err": r[1]}
    i = Interval(case["a"], case["b"])

    def other():
        return Interval(case["c"], case["d"])

    def do():
        if op == "set_start":
            i.start = case["x"]
            return _iv(i)
        if op == "set_end":
            i.end = case["x"]
            return _iv(i)
        if op == "contains":
            v1 = i.contains(case["x"])
            v2 = case["x"] in i
            assert v1 == v2, "contains and __contains__ differ"
            return bool(v1)
        if op == "containsI":
            return bool(i.contains(other()))
        if op == "overlaps":
            return bool(i.overlaps(other()))
        if op == "intersection":
            return _iv(i.intersection(other()))
        if op == "add":
            return _iv(i + case["x"])
        if op == "sub":
            return _iv(i - case["x"])
        if op == "mul":
            return _iv(i * case["x"])
        if op == "div":
            return _iv(i / case["x"])
        if op == "round":
            return _iv(round(i, case["n"]))
        if op == "length":
            return rat(i.length)
        if op == "gt":
            return bool(i > case["x"])
        if op == "lt":
            return bool(i < case["x"])
        if op == "gtI":
            return bool(i > other())
        if op == "ltI":
            return bool(i < other())
        raise RuntimeError(op)
    r = call(do)
    return {"ok": r[1]} if r[0] == "ok" else {"err": r[1], "msg": r[2]}


def plain_oracle(case):
    """Exact set semantics with Fractions. Returns expected canonical result or ('err',)."""
    op = case["op"]
    a, b = frac(case["a"]), frac(case["b"])
    x = frac(case["x"]) if "x" in case else None
    c, d = (frac(case["c"]), frac(case["d"])) if "c" in case else (None, None)
    pr = lambda lo, hi: [rat(lo), rat(hi)]  # noqa
    if op == "mk":
        return {"ok": pr(a, b)} if a <= b else {"err": "assert"}
    if op == "set_start":
        return {"ok": pr(x, b)} if x <= b else {"err": "assert"}
    if op == "set_end":
        return {"ok": pr(a, x)} if a <= x else {"err": "assert"}
    if op == "contains":
        return {"ok": a <= x <= b}
    if op == "containsI":
        return {"ok": a <= c and d <= b}
    if op == "overlaps":
        return {"ok": max(a, c) <= min(b, d)}
    if op == "intersection":
        return {"ok": pr(max(a, c), min(b, d)) if max(a, c) <= min(b, d) else None}
    if op == "add":
        return {"ok": pr(a + x, b + x)}
    if op == "sub":
        return {"ok": pr(a - x, b - x)}
    if op == "mul":
        return {"ok": pr(min(a * x, b * x), max(a * x, b * x))}
    if op == "div":
        return {"ok": pr(min(a / x, b / x), max(a / x, b / x))}
    if op == "round":
        ra, rb = frac(round(case["a"], case["n"])), frac(round(case["b"], case["n"]))
        return {"ok": pr(ra, rb)}
    if op == "length":
        return {"ok": rat(b - a)}
    if op == "gt":
        return {"ok": x < a}
    if op == "lt":
        return {"ok": b < x}
    if op == "gtI":
        return {"ok": d < a}
    if op == "ltI":
        return {"ok": b < c}
    raise RuntimeError(op)


def close(u, v, rel=Fraction(1, 10 ** 12)):
    """Canonical results equal up to relative tolerance on rationals."""
    if isinstance(u, list) and isinstance(v, list) and len(u) == len(v):
        return all(close(p, q, rel) for p, q in zip(u, v))
    if isinstance(u, str) and isinstance(v, str) and "/" in u + v or (isinstance(u, str) and isinstance(v, str)):
        try:
            p, q = unrat(u), unrat(v)
        except Exception:  # noqa
            return u == v
        return abs(p - q) <= rel * max(abs(p), abs(q), Fraction(1, 10 ** 300))
    return u == v


def run_plain(ctx, case):
    op = case["op"]
    ctx.case(case)
    ctx.tag("plain/" + op)
    impl = run_plain_impl(case)
    impl_c = {k: v for k, v in impl.items() if k != "msg"}
    want = plain_oracle(case)
    if op == "mul" and frac(case["x"]) < 0:
        ctx.tag("plain/mul-neg")
    if op == "div" and frac(case["x"]) < 0:
        ctx.tag("plain/div-neg")
    if op == "mk" and "err" in want:
        ctx.tag("plain/mk-reject")
    if op == "intersection" and want.get("ok", 1) is None:
        ctx.tag("plain/intersection-none")
    if case["kind"] == "plain":
        args = {k: (rat(v) if k in ("a", "b", "c", "d", "x") else v) for k, v in case.items() if k not in ("kind", "op", "n")}
        if op == "round":
            args["ra"], args["rb"] = rat(round(case["a"], case["n"])), rat(round(case["b"], case["n"]))
        model = ctx.driver.ask("C16", op, args)
        ctx.compare(case, impl_c, model, f"Interval.{op} vs CR.Iv")
        ok = impl_c == want
    else:
        ctx.tag("plain/arbitrary-floats")
        ok = ("ok" in impl_c and "ok" in want and close(impl_c["ok"], want["ok"])) or impl_c == want
    if not ok:
        if "err" in impl_c and "err" not in want:
            ctx.fail(f"C16/Interval.{op}/raises-{impl_c['err']}", f"Interval({case['a']},{case['b']}).{op} raised {impl.get('msg')}", case)
        elif "err" in want:
            ctx.fail(f"C16/Interval.{op}/not-rejected", f"Interval {op} with start > end was not rejected: {impl_c}", case)
        else:
            ctx.fail(f"C16/Interval.{op}/wrong-set", f"Interval({case['a']},{case['b']}).{op}({ {k: case[k] for k in case if k in 'xcdn'} }) = "
                     f"{impl_c} but the set semantics give {want}", case)


# ------------------------------------------------------------------------------------------------ angle intervals

def gen_angle(ctx):
    r = ctx.rng
    pi = math.pi
    length = r.choice([0.0, 1e-7, 0.3, 1.0, pi - 1e-6, pi, pi + 1e-6, 4.0, 5.5, 2 * pi - 1e-6, r.uniform(0, 2 * pi - 1e-9),
                       1, 2, 3, 4, 5, 6])
    start = r.choice([-pi, -pi + 0.2, pi - 0.2, -2 * pi + 0.1, 0.0, -0.1, r.uniform(-2 * pi, 2 * pi - float(length)),
                      r.uniform(-6 * pi, 6 * pi), -3, 0, 2, -6])
    if r.random() < 0.5 and not (-2 * pi <= start and start + length <= 2 * pi):
        start = r.uniform(-2 * pi, 2 * pi - float(length))
    op = r.choice(["a_contains", "a_contains", "a_contains", "a_containsI", "a_add", "a_sub", "mk_angle", "a_setter"])
    case = {"kind": "angle", "op": op, "s": start, "e": start + length}
    if op == "a_contains":
        ths = []
        for _ in range(10):
            base = r.choice([start, start + length, start + length / 2, start - 0.01, start + length + 0.01, start + length + 1e-6,
                             start - 1e-6, r.uniform(-7, 7), r.randint(-7, 7), start + length + (2 * pi - length) / 2])
            k = r.choice([0, 0, 1, -1, 2, -3])
            th = base + 2 * pi * k
            if isinstance(base, int) and k == 0:
                th = base
            ths.append(th)
        case["thetas"] = ths
    elif op == "a_containsI":
        l2 = r.choice([0.0, length / 2, length, length + 0.01, 1.0, 5.0, r.uniform(0, 2 * pi - 1e-9)])
        s2 = r.choice([start, start + 0.1, start + length - l2, start + length / 2, r.uniform(-2 * pi, 2 * pi - l2), start - 0.05,
                       start + 2 * pi, start - 2 * pi])
        if not (-2 * pi <= s2 and s2 + l2 <= 2 * pi):
            s2 = max(-2 * pi, min(s2, 2 * pi - l2))
        case["c"], case["d"] = s2, s2 + l2
    elif op in ("a_add", "a_sub"):
        case["x"] = r.choice([0.0, 1.0, -1.0, pi, -pi, 2 * pi, 3.5, r.uniform(-6, 6), 1, -2])
        case["thetas"] = [r.uniform(-7, 7) for _ in range(6)]
    elif op == "a_setter":
        # query, then move one end through its property setter, then query again (a cached width must not survive)
        case["which"] = r.choice(["start", "end"])
        case["newlen"] = r.choice([0.0, 0.25, 1.0, pi, 4.0, 5.5, r.uniform(0, 2 * pi - 1e-6)])
        case["thetas"] = [r.uniform(-7, 7) for _ in range(8)] + [r.randint(-6, 6)]
    elif op == "mk_angle":
        if r.random() < 0.3:
            case["s"], case["e"] = case["e"] + 0.5, case["s"]            # start > end -> rejected
        elif r.random() < 0.2:
            case["e"] = case["s"] + 2 * pi + r.choice([0.0, 0.5])          # too long -> rejected
    return case


def amem_exact(a: Fraction, b: Fraction, th: Fraction, tau: Fraction):
    """(member?, distance to the nearest end point modulo tau) in exact arithmetic."""
    import math as m
    k0 = m.ceil((a - th) / tau)
    member = th + k0 * tau <= b
    dist = min(min(abs(th + k * tau - a), abs(th + k * tau - b)) for k in (k0 - 1, k0, k0 + 1))
    return member, dist


def run_angle(ctx, case):
    from commonroad.common.util import AngleInterval
    tau = _tau()
    T = frac(tau)
    eps = AngleInterval._TOLERANCE if hasattr(AngleInterval, "_TOLERANCE") else 0.0
    op = case["op"]
    ctx.case(case)
    ctx.tag("angle/" + op)
    s, e = case["s"], case["e"]
    r = call(AngleInterval, s, e)
    want_ok = frac(s) <= frac(e) and frac(e) - frac(s) < T
    # --- construction: correspondence + oracle
    model_mk = ctx.driver.ask("C16", "mk_angle", {"tau": rat(tau), "s": rat(s), "e": rat(e)})
    if r[0] != "ok":
        ctx.compare(case, {"err": r[1]}, model_mk if "err" in model_mk else {"ok": "interval"}, "AngleInterval() vs CR.Iv.mkAngle")
        if want_ok:
            ctx.fail(f"C16/AngleInterval.__init__/raises-{r[1]}", f"AngleInterval({s},{e}) raised {r[2]}", case)
        return
    iv = r[1]
    if not want_ok:
        # admissible boundary: float length may round below tau; only flag clear cases
        if frac(s) > frac(e) or frac(e) - frac(s) >= T + BAND:
            ctx.fail("C16/AngleInterval.__init__/not-rejected", f"AngleInterval({s},{e}) accepted", case)
        return
    if "ok" in model_mk:
        ms, me = unrat(model_mk["ok"][0]), unrat(model_mk["ok"][1])
        okc = abs(ms - frac(iv.start)) <= BAND and abs(me - frac(iv.end)) <= BAND
        ctx.compare(case, "normalised interval within 1e-9" if okc else [rat(iv.start), rat(iv.end)],
                    "normalised interval within 1e-9" if okc else model_mk["ok"], "AngleInterval() vs CR.Iv.mkAngle")
    else:
        ctx.compare(case, {"ok": "interval"}, model_mk, "AngleInterval() vs CR.Iv.mkAngle")
    A, B = frac(iv.start), frac(iv.end)
    k = round((A - frac(s)) / T)
    if not (abs(A - frac(s) - k * T) <= BAND and abs((B - A) - (frac(e) - frac(s))) <= BAND and -T <= A and B <= T and A <= B):
        ctx.fail("C16/AngleInterval.__init__/wrong-normalisation", f"AngleInterval({s},{e}) -> [{iv.start},{iv.end}]", case)
    if B - A > frac(math.pi):
        ctx.tag("angle/long")
    if op == "mk_angle":
        return

    def member_checks(interval, thetas, lo, hi, label, shift=Fraction(0)):
        """Compare impl membership of each theta in `interval` with the exact set [lo,hi] mod tau."""
        impl, keep = [], []
        for th in thetas:
            if isinstance(th, int):
                ctx.tag("angle/int-arg")
            r1, r2 = call(interval.contains, th), call(interval.__contains__, th)
            if r1[0] != "ok" or r2[0] != "ok":
                bad = r1 if r1[0] != "ok" else r2
                ctx.fail(f"C16/AngleInterval.{label}/raises-{bad[1]}",
                         f"AngleInterval({s},{e}) membership of {th!r} ({type(th).__name__}) raised {bad[2]}",
                         dict(case, thetas=[th]))
                continue
            if bool(r1[1]) != bool(r2[1]):
                ctx.fail(f"C16/AngleInterval.{label}/contains-vs-__contains__", f"differ for {th!r}", dict(case, thetas=[th]))
            member, dist = amem_exact(lo, hi, frac(th) - shift, T)
            if abs(frac(th)) > abs(frac(th) - shift - lo) or abs(frac(th) - lo) >= T:
                ctx.tag("angle/wrap")
            if dist < BAND:
                ctx.excluded += 1
                continue
            impl.append(bool(r1[1]))
            keep.append(th)
            if bool(r1[1]) != member:
                ctx.fail(f"C16/AngleInterval.{label}/wrong-membership",
                         f"AngleInterval({s},{e}) -> [{float(lo)},{float(hi)}]: {th!r} reported {bool(r1[1])}, "
                         f"set semantics (theta+2pi*k in [a,b]) give {member}", dict(case, thetas=[th]))
        return impl, keep

    if op == "a_contains":
        impl, keep = member_checks(iv, case["thetas"], A, B, "contains")
        if keep:
            model = ctx.driver.ask("C16", "a_contains", {"tau": rat(tau), "eps": rat(eps), "a": rat(iv.start), "b": rat(iv.end),
                                                         "thetas": [rat(t) for t in keep]})
            ctx.compare(dict(case, thetas=keep), impl, model, "AngleInterval.contains vs CR.Iv.containsAngle")
    elif op == "a_containsI":
        ctx.tag("angle/containsI")
        r2 = call(AngleInterval, case["c"], case["d"])
        if r2[0] != "ok":
            return
        jv = r2[1]
        C, D = frac(jv.start), frac(jv.end)
        r3 = call(iv.contains, jv)
        if r3[0] != "ok":
            ctx.fail(f"C16/AngleInterval.contains(interval)/raises-{r3[1]}", f"{r3[2]}", case)
            return
        # exact: offset d of C from A modulo tau, need d + (D-C) <= B-A ; ambiguous within the band
        d = (C - A) % T
        slack = (B - A) - (d + (D - C))
        slack2 = (B - A) - ((d - T) + (D - C)) if T - d < BAND else None   # start coincides modulo tau up to round-off
        amb = abs(slack) < BAND or (slack2 is not None) or d < BAND and False
        if slack2 is not None or abs(slack) < BAND:
            ctx.excluded += 1
        else:
            want = slack >= 0
            model = ctx.driver.ask("C16", "a_containsI", {"tau": rat(tau), "eps": rat(eps), "a": rat(iv.start), "b": rat(iv.end),
                                                          "c": rat(jv.start), "d": rat(jv.end)})
            ctx.compare(case, {"ok": bool(r3[1])}, model, "AngleInterval.contains(AngleInterval) vs CR.Iv.containsAngleI")
            if bool(r3[1]) != want:
                ctx.fail("C16/AngleInterval.contains(interval)/wrong",
                         f"[{iv.start},{iv.end}].contains([{jv.start},{jv.end}]) = {r3[1]}, containment of all points gives {want}", case)
    elif op == "a_setter":
        for th in case["thetas"][:3]:
            call(iv.contains, th)
        if case["which"] == "start":
            v = float(iv.end) - case["newlen"]
            ok_new = -tau <= v
        else:
            v = float(iv.start) + case["newlen"]
            ok_new = v <= tau
        if not ok_new:
            return
        r5 = call(setattr, iv, case["which"], v)
        if r5[0] != "ok":
            ctx.fail(f"C16/AngleInterval.{case['which']}-setter/raises-{r5[1]}", f"[{A},{B}].{case['which']} = {v} raised {r5[2]}", case)
            return
        ctx.tag("angle/setter-then-query")
        A2, B2 = frac(iv.start), frac(iv.end)
        if (A2, B2) != ((frac(v), B) if case["which"] == "start" else (A, frac(v))):
            ctx.fail(f"C16/AngleInterval.{case['which']}-setter/wrong-bounds", f"after {case['which']} = {v}: [{iv.start},{iv.end}]", case)
            return
        impl, keep = member_checks(iv, case["thetas"], A2, B2, f"contains-after-{case['which']}-setter")
        if keep:
            model = ctx.driver.ask("C16", "a_contains", {"tau": rat(tau), "eps": rat(eps), "a": rat(iv.start), "b": rat(iv.end),
                                                         "thetas": [rat(t) for t in keep]})
            ctx.compare(dict(case, thetas=keep), impl, model, "AngleInterval.contains after a setter vs CR.Iv.containsAngle on the new bounds")
        # interval containment after the setter: the interval contains itself and every sub-arc
        sub = call(AngleInterval, float(iv.start) + case["newlen"] / 4, float(iv.end) - case["newlen"] / 4)
        if sub[0] == "ok" and case["newlen"] > 1e-6:
            r6 = call(iv.contains, sub[1])
            if r6[0] != "ok" or not r6[1]:
                ctx.fail(f"C16/AngleInterval.contains(interval)/wrong-after-{case['which']}-setter",
                         f"[{iv.start},{iv.end}] (after the setter) does not contain its sub-arc [{sub[1].start},{sub[1].end}]: {r6[1:]}", case)
    elif op in ("a_add", "a_sub"):
        ctx.tag("angle/shift")
        x = case["x"]
        r4 = call((lambda: iv + x) if op == "a_add" else (lambda: iv - x))
        if r4[0] != "ok":
            ctx.fail(f"C16/AngleInterval.{op}/raises-{r4[1]}", f"[{iv.start},{iv.end}] {op} {x} raised {r4[2]}", case)
            return
        sh = r4[1]
        model = ctx.driver.ask("C16", op, {"tau": rat(tau), "a": rat(iv.start), "b": rat(iv.end), "x": rat(x)})
        if "ok" in model:
            ms, me = unrat(model["ok"][0]), unrat(model["ok"][1])
            okc = abs(ms - frac(sh.start)) <= BAND and abs(me - frac(sh.end)) <= BAND
            ctx.compare(case, "shifted interval within 1e-9" if okc else [rat(sh.start), rat(sh.end)],
                        "shifted interval within 1e-9" if okc else model["ok"], f"AngleInterval {op} vs CR.Iv")
        else:
            ctx.compare(case, {"ok": "interval"}, model, f"AngleInterval {op} vs CR.Iv")
        shift = frac(x) if op == "a_add" else -frac(x)
        if not isinstance(sh, AngleInterval) or not (frac(sh.start) <= frac(sh.end)):
            ctx.fail(f"C16/AngleInterval.{op}/invalid-result", f"{sh}", case)
        # image set: theta in shifted  <=>  theta - shift in original
        member_checks(sh, case["thetas"], A, B, op, shift=shift)


def run_case(ctx, case):
    if case["kind"] in ("plain", "plainf"):
        run_plain(ctx, case)
    else:
        run_angle(ctx, case)


def run(ctx):
    for p in sorted(glob.glob(os.path.join(CORPUS_DIR, "C16", "*.json"))):
        run_case(ctx, json.load(open(p)))
    for _ in range(ctx.n(2500)):
        run_case(ctx, gen_plain(ctx))
    for _ in range(ctx.n(800)):
        run_case(ctx, gen_plain_float(ctx))
    for _ in range(ctx.n(2500)):
        run_case(ctx, gen_angle(ctx))


search = run


def replay(ctx, case):
    run_case(ctx, case)
