"""C16 — Interval and AngleInterval behave as the closed sets they denote.
model: lean/CRModel/Interval.lean; theorems: lean/CRProps/C16.lean."""
import glob
import json
import math
import os
from fractions import Fraction

from common import CORPUS_DIR, InfraError, call, frac, rat, unrat

RULE = ("plain intervals: end points and arguments on the dyadic grid k/16 (|k|<=4096) so float + - * and /2^j are exact (in float32 too), "
        "ops mk/set_start/set_end/contains/in/containsI/overlaps/intersection/add/sub/mul/div/round/length/gt/lt with arguments at the "
        "end points, just inside/outside, far away, as int / float / numpy float64 float32 int64 int32, scalars <0, =0, -0.0, >0, Python "
        "zero divisors; a second stream of arbitrary doubles (1e-300..1e300, denormals, DBL_MAX) goes through the oracle with relative "
        "tolerance 1e-12. histories (kind prog / aprog): ONE object driven through 3-9 steps - setters after construction and after "
        "queries, several in a row, same value / other bound handed back, crossing or out-of-range values (rejected) followed by further "
        "steps, arithmetic / rounding / intersection results fed into the next step, copy / deepcopy / pickle / Interval(*i) copies then "
        "queries, hash / == / str / iter in between; every earlier object is re-checked at the end. angle intervals: lengths {0, tiny, "
        "pi-eps, pi, pi+eps, 2pi-eps, random}, positions across +-pi and +-2pi, bounds exactly at -2pi -pi 0 pi 2pi, constructor arguments "
        "up to 300 turns away and at whole multiples of 2pi, int / numpy arguments; angles at the end points +- 2pi k (k to +-1000), "
        "inside, outside, huge (1e5), int / float / numpy float64 int64 float32; contains(interval) in every relative position (before, "
        "touching, inside, sticking out, gap, covering the gap, whole turns apart); make_valid_orientation(_interval) at multiples of 2pi "
        "up to 450 turns. DIMENSIONS lists every member of both classes with its variation and is checked against the real classes on "
        "every run. distinct = distinct canonical JSON of the case; non-trivial = the case hits an end point, a wrap-around, a long "
        "(>pi) interval, a non-positive scalar, a history step or an error branch")
ASSUMPTIONS = ["float rounding inside + - * / and math.fmod is modelled as exact rational arithmetic; the correspondence is exact on "
               "the dyadic grid and uses a 1e-9 band elsewhere (1e-5 when a numpy float32 takes part: the library then computes in 24 bits)",
               "angles within 1e-9 (mod 2pi) of an interval end point are 'ambiguous' for the oracle (the property is tolerance-guarded); "
               "so are constructor arguments within 1e-9 of a whole multiple of 2pi for the CHOICE of representative (the denoted set is still judged) "
               "and lengths within 1e-9 of 2pi for acceptance",
               "not admissible, no verdict: zero divisors (Python zero: ZeroDivisionError is compared with the model; numpy zero gives inf/nan), "
               "results beyond 1e+-300, NaN / inf, fixed-width numpy integers that overflow, Fraction / Decimal / bool scalars",
               "mixed-class queries are outside the quantifier and not generated: Interval.contains(AngleInterval) (raises TypeError today), "
               "AngleInterval.contains(plain Interval), `angle_interval in angle_interval` (AngleInterval.__contains__ is declared for numbers "
               "only and raises TypeError for an interval; .contains(interval) is the entry point that is checked)",
               "an AngleInterval setter that would make the length >= 2pi is not executed (the setters do not re-check the length; the object "
               "then reports every angle as a member, C16_angle_long_all)"]
EXTRA_MODULES = ['CRProps.T16']      # translator tie: Gen.Src (regenerated from /repo every run) = hand model
REQUIRED_BUCKETS = ["plain/contains", "plain/mul-neg", "plain/div-neg", "plain/mk-reject", "plain/intersection-none",
                    "angle/long", "angle/int-arg", "angle/wrap", "angle/containsI", "angle/shift", "plain/arbitrary-floats",
                    "angle/setter-then-query",
                    # generator audit (dimension table)
                    "dimensions/checked", "plain/numpy-operand", "plain/32bit-operand", "plain/int-operand", "plain/zero-length", "plain/div-zero",
                    "plain/huge", "plain/in", "plain/inI",
                    "prog/chain", "prog/model-trace", "prog/setter-ok", "prog/setter-rejected", "prog/several-setters", "prog/setter-after-query",
                    "prog/setter-same-or-other-bound", "prog/op-after-failed-op", "prog/noise", "prog/32bit-operand",
                    "prog/copy-copy", "prog/copy-deepcopy", "prog/copy-pickle", "prog/copy-ctor-from-iter", "prog/copy-ctor-from-props",
                    "angle/bound-at-pi-or-2pi", "angle/ctor-many-turns", "angle/numpy-arg", "angle/float32", "angle/huge-theta", "angle/zero-length",
                    "angle/a_rel", "angle/containsI-true", "angle/containsI-false", "angle/shift-many-turns",
                    "aprog/setter-ok", "aprog/setter-rejected", "aprog/several-setters", "aprog/start-setter", "aprog/op-after-failed-op",
                    "aprog/chain", "aprog/copy", "aprog/query", "aprog/model-trace",
                    "norm/make_valid_orientation", "norm/make_valid_orientation_interval", "norm/many-turns"]

BAND = Fraction(1, 10 ** 9)
BAND32 = Fraction(1, 10 ** 5)        # cases in which a numpy float32 takes part (24-bit arithmetic inside the library)

# ------------------------------------------------------------------------------------------------ typed numbers
# A number in a case is a JSON int / float (Python int / float) or a string "<tag>:<value>" for a numpy scalar.
_NP = {"f64": "float64", "f32": "float32", "i64": "int64", "i32": "int32"}


def enc(v):
    """Python / numpy scalar -> JSON-able case value."""
    import numpy as np
    for tag, name in _NP.items():
        if type(v) is getattr(np, name):
            return f"{tag}:{int(v)}" if tag[0] == "i" else f"{tag}:{float(v)!r}"
    return v


def val(v):
    """Case value -> the Python / numpy scalar handed to the library."""
    if isinstance(v, str):
        import numpy as np
        tag, _, txt = v.partition(":")
        return getattr(np, _NP[tag])(int(txt) if tag[0] == "i" else float(txt))
    if isinstance(v, list):
        return [val(x) for x in v]
    return v


NUM_KEYS = ("a", "b", "c", "d", "x", "s", "e", "thetas")


def dec(case):
    """Shallow copy of a case with its numbers decoded."""
    return {k: (val(v) if k in NUM_KEYS else v) for k, v in case.items()}


def has32(case):
    return any(t in json.dumps(case) for t in ('"f32:', '"i32:'))


def retype(r, v, allow32=True, p=0.5):
    """Give the number v another scalar type of the same value (int where integral, numpy 64/32-bit scalars)."""
    import numpy as np
    if isinstance(v, str) or r.random() >= p:
        return v
    f = float(v)
    opts = ["float", "f64"]
    if f.is_integer() and abs(f) < 2 ** 30:
        opts += ["int", "i64"] + (["i32"] if allow32 else [])
    if allow32 and float(np.float32(f)) == f:
        opts.append("f32")
    t = r.choice(opts)
    if t == "float":
        return f
    if t == "int":
        return int(f)
    return enc(getattr(np, _NP[t])(int(f) if t[0] == "i" else f))


def _tau():
    from commonroad import TWO_PI
    return TWO_PI


# ------------------------------------------------------------------------------------------------ dimension table
# Every constructor parameter, settable attribute and public operation of the anchored classes (and the two normalisation
# functions) with how the generators vary it, or why it lies outside the property. `check_dimensions` compares the table with
# the real classes on every run: a member / parameter / instance attribute the table does not know => exit 2.
V, O = "varied", "outside"
DIMENSIONS = {
    # --- Interval
    "Interval.__init__(start,end)": (V, "grid k/16 and arbitrary doubles 1e-300..1e300, int / float / numpy float64 float32 int64 int32, 0 and -0.0, "
                                        "start == end, start > end (rejected); also reached through copies `Interval(*i)` / `Interval(i.start, i.end)`"),
    "Interval.start[setter]": (V, "plain ops set_start and histories (kind prog): after construction, after queries, several in a row, the same value / "
                                  "the other bound handed back, crossing values (rejected, then further steps on the object)"),
    "Interval.end[setter]": (V, "as start"),
    "Interval.length[ro]": (V, "query op `length`, also inside histories"),
    "Interval.contains(other)": (V, "numbers of every scalar type at / next to the bounds and far away; Interval arguments in every relative position; "
                                    "an AngleInterval argument to a plain Interval is a mixed-class query the property does not define (TypeError today): not generated"),
    "Interval.__contains__(value)": (V, "every contains case is also asked through `in` (numbers and intervals)"),
    "Interval.overlaps(interval)": (V, "every relative position incl. touching end points and zero-length intervals"),
    "Interval.intersection(other)": (V, "as overlaps; result None / interval; result fed into further steps (history op inter)"),
    "Interval.__add__(other)": (V, "int / float / numpy scalars; results fed into further operations"),
    "Interval.__sub__(other)": (V, "as __add__"),
    "Interval.__mul__(other)": (V, "scalars < 0, 0, -0.0, > 0 of every scalar type; chains"),
    "Interval.__truediv__(other)": (V, "scalars of either sign (+-2^j on the grid, arbitrary doubles in the float stream); Python zero => "
                                       "ZeroDivisionError (correspondence only, object must be untouched); numpy zero is not admissible (inf/nan)"),
    "Interval.__round__(n)": (V, "n in None, 0, 1, 2, -1 on int / float / numpy bounds; inside chains"),
    "Interval.__gt__(other)": (V, "number and interval operand (not named by the property: compared with the model and the order semantics)"),
    "Interval.__lt__(other)": (V, "as __gt__"),
    "Interval.__eq__(other)": (O, "equality is C12's subject; used as a read-only query in histories (self, copy, a number), must not disturb the object"),
    "Interval.__hash__()": (O, "as __eq__; called between steps of histories"),
    "Interval.__iter__()": (V, "copies `Interval(*i)` and read-only `tuple(i)` in histories"),
    "Interval.__str__()": (O, "text output is not part of the property; called between steps of histories"),
    "Interval<instance>": (V, "instance attributes {_start, _end}: objects are copied by copy / deepcopy / pickle and queried / mutated afterwards; "
                              "the original is re-checked at the end of the history"),
    # --- AngleInterval
    "AngleInterval<_TOLERANCE>": (O, "private class constant: read and handed to the model as eps; angles within 1e-9 of an end point are ambiguous"),
    "AngleInterval.__init__(start,end)": (V, "lengths 0, tiny, around pi, up to 2pi-1e-6, >= 2pi (rejected), start > end (rejected); positions across +-pi, "
                                             "+-2pi, bounds exactly at -2pi -pi 0 pi 2pi, int arguments, numpy float64/int64/float32, up to 300 turns away, at "
                                             "and next to whole multiples of 2pi"),
    "AngleInterval.start[setter]": (V, "a_setter and histories (kind aprog): new length / same value / the other bound / absolute +-2pi, +-pi, ints / crossing "
                                       "(rejected) / outside [-2pi,2pi] (rejected), several in a row, queries before and after; a setter that would make "
                                       "the length >= 2pi leaves the property's quantifier and is not executed"),
    "AngleInterval.end[setter]": (V, "as start"),
    "AngleInterval.contains(other)": (V, "angles: end points +- 2pi k (k up to +-1000), inside, outside, gap middle, huge (1e5), int / float / numpy; "
                                         "intervals: every relative position incl. wrap-around, gap, whole turns apart, zero length; a plain Interval "
                                         "argument is a mixed-class query: not generated"),
    "AngleInterval.__contains__(value)": (V, "every angle query is asked through both; an interval argument to `in` is outside its declared domain "
                                             "(numbers only; raises TypeError today): not generated"),
    "AngleInterval.intersect(other)": (O, "raises NotImplementedError by design; the property speaks of intersection of plain intervals only"),
    "AngleInterval<inherited>": (O, "overlaps / intersection / * / / / round / < / > / length inherited from Interval are linear, not modular; the property "
                                    "claims them for plain intervals only. __add__ / __sub__ (inherited, re-normalising through type(self)) ARE varied: "
                                    "shifts by every scalar type up to 50 turns, chained in histories"),
    "AngleInterval<instance>": (V, "instance attributes {_start, _end}: copy / deepcopy / pickle / AngleInterval(*i) then queries and setters"),
    # --- module functions
    "make_valid_orientation(angle)": (V, "whole multiples of 2pi, next to them, up to 450 turns, ints (correspondence with the model; tied by T16)"),
    "make_valid_orientation_interval(angle_start,angle_end)": (V, "as above with lengths 0 .. 2pi-1e-6; oracle: same angles, inside [-2pi,2pi]"),
    "<reflected operands>": (O, "__radd__ / __rsub__ / __rmul__ / __rtruediv__ are not defined (number op Interval raises TypeError by design); "
                                "check_dimensions reports them if they appear"),
}
_IGNORED = {"__module__", "__doc__", "__dict__", "__weakref__", "__qualname__", "__annotations__", "__firstlineno__", "__static_attributes__",
            "__annotate_func__", "__annotations_cache__"}


def real_dimensions():
    import inspect
    from commonroad.common import util
    from commonroad.common.util import AngleInterval, Interval
    found = set()
    for c in (Interval, AngleInterval):
        for n, o in vars(c).items():
            if n in _IGNORED or (n.startswith("_") and not n.startswith("__")):
                continue                                     # private helpers / constants are not entry points (instance state is checked below)
            if isinstance(o, property):
                found.add(f"{c.__name__}.{n}[{'setter' if o.fset else 'ro'}]")
            elif inspect.isfunction(o) or isinstance(o, (classmethod, staticmethod)):
                f = o if inspect.isfunction(o) else o.__func__
                found.add(f"{c.__name__}.{n}({','.join(list(inspect.signature(f).parameters)[1:])})")
            else:
                found.add(f"{c.__name__}.{n}")
    problems = []
    for c in (Interval, AngleInterval):
        o = c(0, 1)
        for what in NOISE:                                   # lazily created attributes (caches) show up after the read-only calls
            _noise(o, what)
        call(o.contains, 0.5), call(o.contains, c(0, 0.5)), call(lambda: (o.length, o + 1, o.overlaps(o), o.intersection(o)))
        keys = set(vars(o).keys())
        if keys != {"_start", "_end"}:
            problems.append(f"{c.__name__} instances now carry attributes {sorted(keys)} (table: _start, _end)")
    if AngleInterval.__mro__[1:] != (Interval, object):
        problems.append(f"AngleInterval bases changed: {AngleInterval.__mro__}")
    subs = sorted(n for n, o in vars(util).items() if inspect.isclass(o) and issubclass(o, Interval))
    if subs != ["AngleInterval", "Interval"]:
        problems.append(f"interval classes in util.py: {subs}")
    for fn in ("make_valid_orientation", "make_valid_orientation_interval"):
        f = getattr(util, fn, None)
        found.add(f"{fn}({','.join(inspect.signature(f).parameters)})" if f else f"{fn}<missing>")
    return found, problems


def check_dimensions():
    """The table must name exactly the members the real classes have."""
    found, problems = real_dimensions()
    pseudo = {k for k in DIMENSIONS if "<" in k}
    unknown = sorted(found - set(DIMENSIONS))
    stale = sorted(set(DIMENSIONS) - pseudo - found)
    if unknown:
        problems.append(f"members / signatures unknown to the C16 dimension table: {unknown}")
    if stale:
        problems.append(f"dimension table entries without a real member: {stale}")
    return problems


# ------------------------------------------------------------------------------------------------ plain intervals

def grid(r, lim=4096):
    if r.random() < 0.12:
        return r.choice([0, 0.0, -0.0, 1, -1])          # zero is special to Python truthiness: keep it frequent
    k = r.randint(-lim, lim)
    return k / 16.0 if r.random() < 0.7 else (k // 16)   # float or int


def gen_plain(ctx):
    r = ctx.rng
    a, b = sorted([grid(r), grid(r)], key=float)
    if r.random() < 0.1:
        b = a
    op = r.choice(["mk", "set_start", "set_end", "contains", "contains", "in", "inI", "containsI", "overlaps", "intersection", "add", "sub",
                   "mul", "mul", "div", "div", "round", "length", "gt", "lt", "gtI", "ltI"])
    case = {"kind": "plain", "op": op, "a": a, "b": b}
    near = [a, b, a - 1 / 16, a + 1 / 16, b - 1 / 16, b + 1 / 16, (a + b) / 2, grid(r), int(a), int(b)]
    if op == "mk":
        if r.random() < 0.5:
            case["a"], case["b"] = (b, a) if a != b else (a + 1, a)
    elif op in ("set_start", "set_end", "contains", "in", "gt", "lt", "add", "sub"):
        case["x"] = r.choice(near)
    elif op in ("containsI", "inI", "overlaps", "intersection", "gtI", "ltI"):
        c, d = sorted([r.choice(near), r.choice(near)], key=float)
        case["c"], case["d"] = c, d
    elif op == "mul":
        case["x"] = r.choice([0, 0.0, -1, -0.5, 2, 0.25, -3, grid(r, 64)])
    elif op == "div":
        case["x"] = r.choice([1, -1, 2, -2, 0.5, -0.5, 4.0, -8.0, 0.125, -0.0625])
        if r.random() < 0.04:
            case["x"] = r.choice([0, 0.0, -0.0])                # Python zero: ZeroDivisionError (numpy zeros: not admissible, inf/nan)
    elif op == "round":
        case["n"] = r.choice([None, 0, 1, 2, -1])
    if r.random() < 0.3 and not (op == "div" and case["x"] == 0):
        # the same values as other scalar types; every value of this grid and every result is exact in float32 as well,
        # except decimal rounding (n > 0) of a float32
        a32 = not (op == "round" and (case["n"] or 0) > 0)
        for k in ("a", "b", "x", "c", "d"):
            if k in case:
                case[k] = retype(r, case[k], allow32=a32)
    return case


def gen_plain_float(ctx):
    """Arbitrary doubles (oracle only, relative tolerance)."""
    r = ctx.rng

    big = r.random() < 0.25                      # huge / tiny magnitudes (results that over- or underflow are excluded)
    e0 = r.randint(-300, 300) if big else r.randint(-30, 30)

    def f():
        if big and r.random() < 0.1:
            return r.choice([5e-324, -5e-324, 2.2250738585072014e-308, 1.7976931348623157e308, -1.7976931348623157e308, 0.0, -0.0])
        return r.choice([-1, 1]) * r.random() * 10.0 ** (e0 + r.randint(-8, 8) if big else r.randint(-30, 30))
    a, b = sorted([f(), f()])
    op = r.choice(["contains", "overlaps", "intersection", "add", "sub", "mul", "div", "containsI"])
    case = {"kind": "plainf", "op": op, "a": a, "b": b}
    if op in ("contains", "add", "sub"):
        case["x"] = r.choice([a, b, f(), a / 2 + b / 2])         # (a + b) / 2 overflows to inf next to DBL_MAX
    elif op in ("mul", "div"):
        case["x"] = r.choice([f(), -abs(f()), abs(f())])
    else:
        case["c"], case["d"] = sorted([r.choice([a, b, f()]), f()])
    if not all(math.isfinite(case[k]) for k in ("a", "b", "x", "c", "d") if k in case):
        return gen_plain_float(ctx)                              # the property is about finite values only
    return case


def _iv(i):
    return None if i is None else [rat(i.start), rat(i.end)]


def plain_apply(i, op, case):
    """One operation of the real Interval object `i`; returns the canonical result (intervals as [start, end])."""
    from commonroad.common.util import Interval

    def other():
        return Interval(case["c"], case["d"])
    if op == "set_start":
        i.start = case["x"]
        return _iv(i)
    if op == "set_end":
        i.end = case["x"]
        return _iv(i)
    if op in ("contains", "in"):
        v1 = i.contains(case["x"])
        v2 = case["x"] in i
        assert bool(v1) == bool(v2), "contains and __contains__ differ"
        return bool(v1)
    if op in ("containsI", "inI"):
        o = other()
        v1 = i.contains(o)
        v2 = o in i
        assert bool(v1) == bool(v2), "contains(interval) and `interval in` differ"
        return bool(v1)
    if op == "overlaps":
        return bool(i.overlaps(other()))
    if op == "intersection":
        return _iv(i.intersection(other()))
    if op == "add":
        return _iv(i + case["x"])
    if op == "sub":
        return _iv(i - case["x"])
    if op == "mul":
        return _iv(i * case["x"])
    if op == "div":
        return _iv(i / case["x"])
    if op == "round":
        return _iv(round(i, case["n"]))
    if op == "length":
        return rat(i.length)
    if op == "gt":
        return bool(i > case["x"])
    if op == "lt":
        return bool(i < case["x"])
    if op == "gtI":
        return bool(i > other())
    if op == "ltI":
        return bool(i < other())
    raise RuntimeError(op)


def run_plain_impl(case):
    """Run the real Interval; returns canonical {'ok': ..} / {'err': cls}."""
    from commonroad.common.util import Interval
    op = case["op"]
    if op == "mk":
        r = call(Interval, case["a"], case["b"])
        return {"ok": _iv(r[1])} if r[0] == "ok" else {"err": r[1]}
    i = Interval(case["a"], case["b"])
    r = call(plain_apply, i, op, case)
    return {"ok": r[1]} if r[0] == "ok" else {"err": r[1], "msg": r[2]}


def plain_oracle(case):
    """Exact set semantics with Fractions. Returns expected canonical result or ('err',)."""
    op = case["op"]
    a, b = frac(case["a"]), frac(case["b"])
    x = frac(case["x"]) if "x" in case else None
    c, d = (frac(case["c"]), frac(case["d"])) if "c" in case else (None, None)
    pr = lambda lo, hi: [rat(lo), rat(hi)]  # noqa
    if op == "mk":
        return {"ok": pr(a, b)} if a <= b else {"err": "assert"}
    if op == "set_start":
        return {"ok": pr(x, b)} if x <= b else {"err": "assert"}
    if op == "set_end":
        return {"ok": pr(a, x)} if a <= x else {"err": "assert"}
    if op in ("contains", "in"):
        return {"ok": a <= x <= b}
    if op in ("containsI", "inI"):
        return {"ok": a <= c and d <= b}
    if op == "overlaps":
        return {"ok": max(a, c) <= min(b, d)}
    if op in ("intersection", "inter"):
        return {"ok": pr(max(a, c), min(b, d)) if max(a, c) <= min(b, d) else None}
    if op == "add":
        return {"ok": pr(a + x, b + x)}
    if op == "sub":
        return {"ok": pr(a - x, b - x)}
    if op == "mul":
        return {"ok": pr(min(a * x, b * x), max(a * x, b * x))}
    if op == "div":
        if x == 0:
            return {"err": "zero-div"}                       # not an admissible scalar: no verdict, correspondence only
        return {"ok": pr(min(a / x, b / x), max(a / x, b / x))}
    if op == "round":
        if "exact_round" in case:                            # histories: own half-even decimal rounding of the exact value
            return {"ok": pr(round_exact(a, case["n"]), round_exact(b, case["n"]))}
        ra, rb = frac(round(case["a"], case["n"])), frac(round(case["b"], case["n"]))
        return {"ok": pr(ra, rb)}
    if op == "length":
        return {"ok": rat(b - a)}
    if op == "gt":
        return {"ok": x < a}
    if op == "lt":
        return {"ok": b < x}
    if op == "gtI":
        return {"ok": d < a}
    if op == "ltI":
        return {"ok": b < c}
    raise RuntimeError(op)


def round_exact(v: Fraction, n):
    """round(v, n) for an exactly known value: half-even at n decimals, then (n > 0) the nearest double."""
    n = n or 0
    q = round(v * Fraction(10) ** n)                          # Fraction.__round__: half to even
    w = Fraction(q) / Fraction(10) ** n
    return Fraction(*float(w).as_integer_ratio()) if n > 0 else w


def close(u, v, rel=Fraction(1, 10 ** 12)):
    """Canonical results equal up to relative tolerance on rationals."""
    if isinstance(u, list) and isinstance(v, list) and len(u) == len(v):
        return all(close(p, q, rel) for p, q in zip(u, v))
    if isinstance(u, str) and isinstance(v, str) and "/" in u + v or (isinstance(u, str) and isinstance(v, str)):
        try:
            p, q = unrat(u), unrat(v)
        except Exception:  # noqa
            return u == v
        return abs(p - q) <= rel * max(abs(p), abs(q), Fraction(1, 10 ** 300))
    return u == v


FMAX, FMIN = Fraction(10) ** 300, Fraction(1, 10 ** 300)


def run_plain(ctx, raw):
    case = dec(raw)
    op = case["op"]
    ctx.case(raw)
    ctx.tag("plain/" + op)
    if not all(math.isfinite(float(case[k])) for k in ("a", "b", "x", "c", "d") if k in case):
        ctx.tag("plain/non-finite-excluded")
        ctx.excluded += 1                                     # inf / nan operands (stored cases): outside the quantifier, no verdict
        return
    if any(isinstance(raw.get(k), str) for k in ("a", "b", "c", "d", "x")):
        ctx.tag("plain/numpy-operand")
        if has32(raw):
            ctx.tag("plain/32bit-operand")
    if "x" in case and isinstance(case["x"], int) and not isinstance(case["x"], bool):
        ctx.tag("plain/int-operand")
    if frac(case["a"]) == frac(case["b"]):
        ctx.tag("plain/zero-length")
    impl = run_plain_impl(case)
    impl_c = {k: v for k, v in impl.items() if k != "msg"}
    want = plain_oracle(case)
    if op == "mul" and frac(case["x"]) < 0:
        ctx.tag("plain/mul-neg")
    if op == "div" and frac(case["x"]) < 0:
        ctx.tag("plain/div-neg")
    if op == "mk" and "err" in want:
        ctx.tag("plain/mk-reject")
    if op == "intersection" and want.get("ok", 1) is None:
        ctx.tag("plain/intersection-none")
    if case["kind"] == "plain":
        args = {k: (rat(v) if k in ("a", "b", "c", "d", "x") else v) for k, v in case.items() if k not in ("kind", "op", "n")}
        if op == "round":
            args["ra"], args["rb"] = rat(round(case["a"], case["n"])), rat(round(case["b"], case["n"]))
        model = ctx.driver.ask("C16", {"in": "contains", "inI": "containsI"}.get(op, op), args)
        ctx.compare(raw, impl_c, model, f"Interval.{op} vs CR.Iv")
        if op == "div" and frac(case["x"]) == 0:
            ctx.tag("plain/div-zero")
            ctx.excluded += 1                                 # dividing by zero is not admissible: no oracle verdict
            return
        ok = impl_c == want
    else:
        ctx.tag("plain/arbitrary-floats")
        if op == "div" and frac(case["x"]) == 0:
            ctx.excluded += 1                                 # zero divisor: not admissible
            return
        if op in ("mul", "div", "add", "sub") and "ok" in want:
            mags = [abs(unrat(q)) for q in want["ok"]]
            if any(m != 0 and not (FMIN <= m <= FMAX) for m in mags):
                ctx.tag("plain/overflow-excluded")
                ctx.excluded += 1                             # the exact image is not representable as doubles
                return
        if max(abs(frac(case["a"])), abs(frac(case["b"]))) > Fraction(10) ** 100:
            ctx.tag("plain/huge")
        ok = ("ok" in impl_c and "ok" in want and close(impl_c["ok"], want["ok"])) or impl_c == want
    if not ok:
        if "err" in impl_c and "err" not in want:
            ctx.fail(f"C16/Interval.{op}/raises-{impl_c['err']}", f"Interval({case['a']!r},{case['b']!r}).{op} raised {impl.get('msg')}", raw)
        elif "err" in want:
            ctx.fail(f"C16/Interval.{op}/not-rejected", f"Interval {op} with start > end was not rejected: {impl_c}", raw)
        else:
            ctx.fail(f"C16/Interval.{op}/wrong-set", f"Interval({case['a']!r},{case['b']!r}).{op}({ {k: case[k] for k in case if k in 'xcdn'} }) = "
                     f"{impl_c} but the set semantics give {want}", raw)


# ------------------------------------------------------------------------------------------------ angle intervals

def gen_angle(ctx):
    r = ctx.rng
    pi = math.pi
    tau = _tau()
    length = r.choice([0.0, 1e-7, 0.3, 1.0, pi - 1e-6, pi, pi + 1e-6, 4.0, 5.5, 2 * pi - 1e-6, r.uniform(0, 2 * pi - 1e-9),
                       1, 2, 3, 4, 5, 6])
    start = r.choice([-pi, -pi + 0.2, pi - 0.2, -2 * pi + 0.1, 0.0, -0.1, r.uniform(-2 * pi, 2 * pi - float(length)),
                      r.uniform(-6 * pi, 6 * pi), -3, 0, 2, -6])
    if r.random() < 0.5 and not (-2 * pi <= start and start + length <= 2 * pi):
        start = r.uniform(-2 * pi, 2 * pi - float(length))
    end = start + length
    u = r.random()
    if u < 0.2:
        # exact boundary positions: a bound exactly at -2pi, -pi, 0, pi, 2pi (float and int neighbours)
        bnd = r.choice([-tau, -pi, 0.0, pi, tau, -6, 6, 0, -3, 3])
        length = r.choice([0.0, 0, 1e-7, 0.5, 1, pi, 4.0, 6, tau - 1e-6])
        start, end = (bnd, bnd + length) if r.random() < 0.5 else (bnd - length, bnd)
    elif u < 0.3:
        # constructor arguments many turns away, at and next to whole multiples of 2pi
        k = r.choice([1, -1, 2, -2, 3, -3, 7, -10, 40, -40, 150, -300])
        if r.random() < 0.4:
            start = k * tau + r.choice([0.0, 1e-7, -1e-7, 0.25, -0.25])
            end = start + float(length)
        else:
            start, end = start + k * tau, start + k * tau + float(length)
    op = r.choice(["a_contains", "a_contains", "a_contains", "a_containsI", "a_rel", "a_rel", "a_add", "a_sub", "mk_angle", "a_setter"])
    case = {"kind": "angle", "op": op, "s": start, "e": end}
    length = float(end) - float(start)
    if op == "a_contains":
        ths = []
        for _ in range(10):
            base = r.choice([start, end, start + length / 2, start - 0.01, end + 0.01, end + 1e-6,
                             start - 1e-6, r.uniform(-7, 7), r.randint(-7, 7), end + (2 * pi - length) / 2,
                             -tau, tau, -pi, pi, 0.0])
            k = r.choice([0, 0, 1, -1, 2, -3, 50, -1000, 1000])
            th = base + 2 * pi * k
            if isinstance(base, int) and k == 0:
                th = base
            if r.random() < 0.04:
                th = r.choice([-1, 1]) * r.uniform(1e3, 1e5)                        # huge angle
            if r.random() < 0.15:
                th = retype(r, th, allow32=False, p=1.0)                            # int / numpy 64-bit scalar of the same value
            ths.append(th)
        case["thetas"] = ths
        if r.random() < 0.08 and abs(float(start)) < 20:
            # numpy float32 everywhere (the library then computes in 24-bit arithmetic: judged with the band 1e-5)
            import numpy as np
            case["s"], case["e"] = enc(np.float32(start)), enc(np.float32(end))
            case["thetas"] = [enc(np.float32(r.uniform(-9, 9))) for _ in range(8)]
        elif r.random() < 0.08:
            import numpy as np
            case["thetas"] = [enc(np.float32(r.uniform(-9, 9))) for _ in range(8)]
        elif r.random() < 0.1:
            case["s"], case["e"] = retype(r, start, False, 1.0), retype(r, end, False, 1.0)
    elif op == "a_containsI":
        l2 = r.choice([0.0, length / 2, length, length + 0.01, 1.0, 5.0, r.uniform(0, 2 * pi - 1e-9)])
        s2 = r.choice([start, start + 0.1, start + length - l2, start + length / 2, r.uniform(-2 * pi, 2 * pi - l2), start - 0.05,
                       start + 2 * pi, start - 2 * pi])
        if not (-2 * pi <= s2 and s2 + l2 <= 2 * pi):
            s2 = max(-2 * pi, min(s2, 2 * pi - l2))
        case["c"], case["d"] = s2, s2 + l2
    elif op == "a_rel":
        # every relative position of J to I: J starts before / at / inside / at the end of / behind I, ends before / at /
        # behind I's end, reaches round into I's start (wrap-around), lies in the gap, covers the gap; whole turns added
        gap = 2 * pi - length
        l2 = r.choice([0.0, 1e-7, length / 3, length, length + 0.02, gap / 2, gap, gap + 0.02, min(length + gap / 2, 6.2), 6.2])
        off = r.choice([-0.03, 0.0, 0.03, length / 2, length - l2, length - l2 - 0.02, length - l2 + 0.02, length, length + 0.02,
                        length + gap / 2, -gap / 2, 2 * pi - 0.03 - l2, -l2, -l2 / 2])
        k = r.choice([0, 0, 1, -1, 2, -2])
        case["c"] = float(start) + off + k * tau
        case["d"] = case["c"] + l2
    elif op in ("a_add", "a_sub"):
        case["x"] = r.choice([0.0, 1.0, -1.0, pi, -pi, 2 * pi, 3.5, r.uniform(-6, 6), 1, -2, tau, -tau, 3 * tau, -50 * tau, 1000.5, -777,
                              enc_np("f64", 0.75), enc_np("i64", 3), enc_np("i32", -2)])
        case["thetas"] = [r.uniform(-7, 7) for _ in range(6)]
    elif op == "a_setter":
        # query, then move one end through its property setter, then query again (a cached width must not survive)
        case["which"] = r.choice(["start", "end"])
        case["newlen"] = r.choice([0.0, 0.25, 1.0, pi, 4.0, 5.5, r.uniform(0, 2 * pi - 1e-6)])
        case["thetas"] = [r.uniform(-7, 7) for _ in range(8)] + [r.randint(-6, 6)]
    elif op == "mk_angle":
        if r.random() < 0.3:
            case["s"], case["e"] = case["e"] + 0.5, case["s"]            # start > end -> rejected
        elif r.random() < 0.2:
            case["e"] = case["s"] + 2 * pi + r.choice([0.0, 0.5])          # too long -> rejected
    return case


def enc_np(tag, v):
    import numpy as np
    return enc(getattr(np, _NP[tag])(v))


def amem_exact(a: Fraction, b: Fraction, th: Fraction, tau: Fraction):
    """(member?, distance to the nearest end point modulo tau) in exact arithmetic."""
    import math as m
    k0 = m.ceil((a - th) / tau)
    member = th + k0 * tau <= b
    dist = min(min(abs(th + k * tau - a), abs(th + k * tau - b)) for k in (k0 - 1, k0, k0 + 1))
    return member, dist


def near_turn(x: Fraction, T: Fraction, band):
    """x is within `band` of a non-zero whole multiple of tau (where a normalisation loop decides within round-off)."""
    k = round(x / T)
    return k != 0 and abs(x - k * T) < band


def cmp_norm(ctx, raw, got, model, args, T, band, what):
    """Correspondence of a normalised pair: equal within the band; when an argument sits within round-off of a loop
    threshold (a whole multiple of tau) the two may legitimately end one turn apart."""
    if "ok" not in model:
        ctx.compare(raw, {"ok": "interval"}, model, what)
        return
    ms, me = unrat(model["ok"][0]), unrat(model["ok"][1])
    ds, de = frac(got[0]) - ms, frac(got[1]) - me
    okc = abs(ds) <= band and abs(de) <= band
    if not okc and any(near_turn(frac(v), T, band) for v in args):
        k = round(ds / T)
        if abs(k) == 1 and abs(ds - k * T) <= band and abs(de - k * T) <= band:
            ctx.excluded += 1
            ctx.tag("angle/turn-ambiguous")
            return
    ctx.compare(raw, f"within {float(band)}" if okc else [rat(got[0]), rat(got[1])], f"within {float(band)}" if okc else model["ok"], what)


def member_checks(ctx, raw, head, interval, thetas, lo, hi, label, T, band, shift=Fraction(0)):
    """Compare the real membership of each theta in `interval` with the exact set [lo,hi] mod tau."""
    impl, keep = [], []
    for th_raw in thetas:
        th = val(th_raw)
        if isinstance(th, int):
            ctx.tag("angle/int-arg")
        elif type(th) is not float:
            ctx.tag("angle/numpy-arg")
        r1, r2 = call(interval.contains, th), call(interval.__contains__, th)
        if r1[0] != "ok" or r2[0] != "ok":
            bad = r1 if r1[0] != "ok" else r2
            ctx.fail(f"C16/AngleInterval.{label}/raises-{bad[1]}",
                     f"{head} membership of {th!r} ({type(th).__name__}) raised {bad[2]}",
                     dict(raw, thetas=[th_raw]))
            continue
        if bool(r1[1]) != bool(r2[1]):
            ctx.fail(f"C16/AngleInterval.{label}/contains-vs-__contains__", f"differ for {th!r}", dict(raw, thetas=[th_raw]))
        member, dist = amem_exact(lo, hi, frac(th) - shift, T)
        if abs(frac(th)) > abs(frac(th) - shift - lo) or abs(frac(th) - lo) >= T:
            ctx.tag("angle/wrap")
        if abs(frac(th)) > 100:
            ctx.tag("angle/huge-theta")
        if dist < band + abs(frac(th)) * Fraction(1, 10 ** 15):
            ctx.excluded += 1
            continue
        impl.append(bool(r1[1]))
        keep.append(th)
        if bool(r1[1]) != member:
            ctx.fail(f"C16/AngleInterval.{label}/wrong-membership",
                     f"{head} -> [{float(lo)},{float(hi)}]: {th!r} reported {bool(r1[1])}, "
                     f"set semantics (theta+2pi*k in [a,b]) give {member}", dict(raw, thetas=[th_raw]))
    return impl, keep


def containsI_check(ctx, raw, iv, jv, T, band, eps, tau, label="contains(interval)"):
    """iv.contains(jv) against containment of all points (exact, with the ambiguity band)."""
    A, B, C, D = frac(iv.start), frac(iv.end), frac(jv.start), frac(jv.end)
    r3 = call(iv.contains, jv)        # (`jv in iv` is not exercised: AngleInterval.__contains__ is declared for numbers only)
    if r3[0] != "ok":
        ctx.fail(f"C16/AngleInterval.{label}/raises-{r3[1]}", f"{r3[2]}", raw)
        return
    # exact: offset d of C from A modulo tau, need d + (D-C) <= B-A ; ambiguous within the band
    d = (C - A) % T
    slack = (B - A) - (d + (D - C))
    if T - d < band or abs(slack) < band:
        ctx.excluded += 1             # J starts within round-off before I's start (modulo tau), or ends within round-off of I's end
        return
    want = slack >= 0
    if ctx.driver is not None:
        model = ctx.driver.ask("C16", "a_containsI", {"tau": rat(tau), "eps": rat(eps), "a": rat(iv.start), "b": rat(iv.end),
                                                      "c": rat(jv.start), "d": rat(jv.end)})
        ctx.compare(raw, {"ok": bool(r3[1])}, model, "AngleInterval.contains(AngleInterval) vs CR.Iv.containsAngleI")
    ctx.tag("angle/containsI-true" if want else "angle/containsI-false")
    if bool(r3[1]) != want:
        ctx.fail(f"C16/AngleInterval.{label}/wrong",
                 f"[{iv.start},{iv.end}].contains([{jv.start},{jv.end}]) = {r3[1]}, containment of all points gives {want}", raw)


def run_angle(ctx, raw):
    from commonroad.common.util import AngleInterval
    case = dec(raw)
    tau = _tau()
    T = frac(tau)
    eps = AngleInterval._TOLERANCE if hasattr(AngleInterval, "_TOLERANCE") else 0.0
    op = case["op"]
    ctx.case(raw)
    ctx.tag("angle/" + op)
    band = BAND32 if '"f32:' in json.dumps(raw) else BAND
    if band is BAND32:
        ctx.tag("angle/float32")
    s, e = case["s"], case["e"]
    if any(abs(frac(v) - b) == 0 for v in (s, e) for b in (T, -T, frac(math.pi), -frac(math.pi))):
        ctx.tag("angle/bound-at-pi-or-2pi")
    if abs(frac(s)) > 3 * T:
        ctx.tag("angle/ctor-many-turns")
    r = call(AngleInterval, s, e)
    want_ok = frac(s) <= frac(e) and frac(e) - frac(s) < T
    if abs(frac(e) - frac(s) - T) < band:
        ctx.excluded += 1                               # length within round-off of 2pi: acceptance is not determined
        return
    # --- construction: correspondence + oracle
    model_mk = ctx.driver.ask("C16", "mk_angle", {"tau": rat(tau), "s": rat(s), "e": rat(e)})
    if r[0] != "ok":
        ctx.compare(raw, {"err": r[1]}, model_mk if "err" in model_mk else {"ok": "interval"}, "AngleInterval() vs CR.Iv.mkAngle")
        if want_ok:
            ctx.fail(f"C16/AngleInterval.__init__/raises-{r[1]}", f"AngleInterval({s!r},{e!r}) raised {r[2]}", raw)
        return
    iv = r[1]
    if not want_ok:
        ctx.fail("C16/AngleInterval.__init__/not-rejected", f"AngleInterval({s!r},{e!r}) accepted", raw)
        return
    cmp_norm(ctx, raw, (iv.start, iv.end), model_mk, (s, e), T, band, "AngleInterval() vs CR.Iv.mkAngle")
    A, B = frac(iv.start), frac(iv.end)
    k = round((A - frac(s)) / T)
    if not (abs(A - frac(s) - k * T) <= band and abs((B - A) - (frac(e) - frac(s))) <= band and -T - (band if band is BAND32 else 0) <= A
            and B <= T + (band if band is BAND32 else 0) and A <= B):
        ctx.fail("C16/AngleInterval.__init__/wrong-normalisation", f"AngleInterval({s!r},{e!r}) -> [{iv.start},{iv.end}]", raw)
    if B - A > frac(math.pi):
        ctx.tag("angle/long")
    if B == A:
        ctx.tag("angle/zero-length")
    if op == "mk_angle":
        return
    head = f"AngleInterval({s!r},{e!r})"

    if op == "a_contains":
        impl, keep = member_checks(ctx, raw, head, iv, raw["thetas"], A, B, "contains", T, band)
        if keep:
            model = ctx.driver.ask("C16", "a_contains", {"tau": rat(tau), "eps": rat(eps), "a": rat(iv.start), "b": rat(iv.end),
                                                         "thetas": [rat(t) for t in keep]})
            if band is BAND:
                ctx.compare(dict(raw, thetas=[enc(t) for t in keep]), impl, model, "AngleInterval.contains vs CR.Iv.containsAngle")
    elif op in ("a_containsI", "a_rel"):
        ctx.tag("angle/containsI")
        r2 = call(AngleInterval, case["c"], case["d"])
        if r2[0] != "ok":
            if frac(case["d"]) - frac(case["c"]) < T - band:
                ctx.fail(f"C16/AngleInterval.__init__/raises-{r2[1]}", f"AngleInterval({case['c']!r},{case['d']!r}) raised {r2[2]}", raw)
            return
        containsI_check(ctx, raw, iv, r2[1], T, band, eps, tau)
    elif op == "a_setter":
        for th in case["thetas"][:3]:
            call(iv.contains, th)
        if case["which"] == "start":
            v = float(iv.end) - case["newlen"]
            ok_new = -tau <= v
        else:
            v = float(iv.start) + case["newlen"]
            ok_new = v <= tau
        if not ok_new:
            return
        r5 = call(setattr, iv, case["which"], v)
        if r5[0] != "ok":
            ctx.fail(f"C16/AngleInterval.{case['which']}-setter/raises-{r5[1]}", f"[{A},{B}].{case['which']} = {v} raised {r5[2]}", raw)
            return
        ctx.tag("angle/setter-then-query")
        A2, B2 = frac(iv.start), frac(iv.end)
        if (A2, B2) != ((frac(v), B) if case["which"] == "start" else (A, frac(v))):
            ctx.fail(f"C16/AngleInterval.{case['which']}-setter/wrong-bounds", f"after {case['which']} = {v}: [{iv.start},{iv.end}]", raw)
            return
        impl, keep = member_checks(ctx, raw, head, iv, raw["thetas"], A2, B2, f"contains-after-{case['which']}-setter", T, band)
        if keep:
            model = ctx.driver.ask("C16", "a_contains", {"tau": rat(tau), "eps": rat(eps), "a": rat(iv.start), "b": rat(iv.end),
                                                         "thetas": [rat(t) for t in keep]})
            ctx.compare(dict(raw, thetas=keep), impl, model, "AngleInterval.contains after a setter vs CR.Iv.containsAngle on the new bounds")
        # interval containment after the setter: the interval contains itself and every sub-arc
        sub = call(AngleInterval, float(iv.start) + case["newlen"] / 4, float(iv.end) - case["newlen"] / 4)
        if sub[0] == "ok" and case["newlen"] > 1e-6:
            r6 = call(iv.contains, sub[1])
            if r6[0] != "ok" or not r6[1]:
                ctx.fail(f"C16/AngleInterval.contains(interval)/wrong-after-{case['which']}-setter",
                         f"[{iv.start},{iv.end}] (after the setter) does not contain its sub-arc [{sub[1].start},{sub[1].end}]: {r6[1:]}", raw)
    elif op in ("a_add", "a_sub"):
        ctx.tag("angle/shift")
        x = case["x"]
        if abs(frac(x)) > 50:
            ctx.tag("angle/shift-many-turns")
        r4 = call((lambda: iv + x) if op == "a_add" else (lambda: iv - x))
        if r4[0] != "ok":
            ctx.fail(f"C16/AngleInterval.{op}/raises-{r4[1]}", f"[{iv.start},{iv.end}] {op} {x!r} raised {r4[2]}", raw)
            return
        sh = r4[1]
        model = ctx.driver.ask("C16", op, {"tau": rat(tau), "a": rat(iv.start), "b": rat(iv.end), "x": rat(x)})
        sgn = 1 if op == "a_add" else -1
        bandx = band + abs(frac(x)) * Fraction(1, 10 ** 13)
        cmp_norm(ctx, raw, (sh.start, sh.end), model, (A + sgn * frac(x), B + sgn * frac(x)), T, bandx, f"AngleInterval {op} vs CR.Iv")
        shift = frac(x) if op == "a_add" else -frac(x)
        if not isinstance(sh, AngleInterval) or not (frac(sh.start) <= frac(sh.end)):
            ctx.fail(f"C16/AngleInterval.{op}/invalid-result", f"{sh}", raw)
        if (frac(iv.start), frac(iv.end)) != (A, B):
            ctx.fail(f"C16/AngleInterval.{op}/operand-changed", f"the operand is now [{iv.start},{iv.end}]", raw)
        # image set: theta in shifted  <=>  theta - shift in original
        member_checks(ctx, raw, head, sh, raw["thetas"], A, B, op, T, bandx, shift=shift)


# ------------------------------------------------------------------------------------------------ histories on plain intervals

PROG_MUT = ["set_start", "set_end", "add", "sub", "mul", "div", "round", "inter", "copy"]
PROG_QRY = ["contains", "in", "containsI", "inI", "overlaps", "intersection", "length", "gt", "lt", "gtI", "ltI", "noise"]
COPIES = ["copy", "deepcopy", "pickle", "ctor-from-iter", "ctor-from-props"]
NOISE = ["hash", "eq-self", "eq-copy", "eq-number", "str", "repr", "iter", "getters"]


def _sim_step(lo, hi, st):
    """Set semantics of one history step on the exact state [lo, hi] (generator side: picks absolute arguments)."""
    op = st["op"]
    x = frac(val(st["x"])) if "x" in st else None
    if op == "set_start":
        return (x, hi) if x <= hi else (lo, hi)
    if op == "set_end":
        return (lo, x) if lo <= x else (lo, hi)
    if op == "add":
        return lo + x, hi + x
    if op == "sub":
        return lo - x, hi - x
    if op == "mul":
        return min(lo * x, hi * x), max(lo * x, hi * x)
    if op == "div":
        return (lo, hi) if x == 0 else (min(lo / x, hi / x), max(lo / x, hi / x))
    if op == "round":
        return round_exact(lo, st["n"]), round_exact(hi, st["n"])
    if op == "inter":
        c, d = frac(val(st["c"])), frac(val(st["d"]))
        return (max(lo, c), min(hi, d)) if max(lo, c) <= min(hi, d) else (lo, hi)
    return lo, hi


def _fl(v: Fraction):
    """A Fraction of the dyadic grid as the float / int it is."""
    return int(v) if v.denominator == 1 and abs(v) < 2 ** 40 and (v.numerator % 2 == 0 or v == 1) else float(v)


def gen_prog(ctx):
    """A history on ONE Interval object: setters after construction and after queries (several in a row, crossing ones
    that must be rejected, the same value handed back), arithmetic results fed into further operations, copies, read-only
    queries in between. Arguments are absolute numbers chosen next to the state the set semantics predict."""
    r = ctx.rng

    def g(lim=256):
        if r.random() < 0.1:
            return r.choice([0, 0.0, -0.0, 1, -1])
        k = r.randint(-lim, lim)
        return k / 16.0 if r.random() < 0.7 else k // 16
    a, b = sorted([g(), g()], key=float)
    if r.random() < 0.12:
        b = a
    lo, hi = frac(a), frac(b)
    steps = []
    n = r.randint(3, 9)
    while len(steps) < n:
        op = r.choice(PROG_MUT + ["set_start", "set_end", "mul", "div"] if r.random() < 0.6 else PROG_QRY)
        st = {"op": op}
        e16 = Fraction(1, 16)
        if max(lo.denominator, hi.denominator) > 2 ** 20 and op in ("add", "sub", "mul", "div", "length"):
            continue            # after a decimal rounding the bounds are off the dyadic grid: float arithmetic would round
        near = [lo, hi, lo - e16, lo + e16, hi - e16, hi + e16, (lo + hi) / 2, frac(g()), Fraction(int(lo)), Fraction(int(hi))]
        if op == "set_start":
            st["x"] = _fl(r.choice([lo, hi, hi + e16, hi + 3, lo - 1, lo - e16, (lo + hi) / 2, hi - e16, frac(g())]))
        elif op == "set_end":
            st["x"] = _fl(r.choice([hi, lo, lo - e16, lo - 3, hi + 1, hi + e16, (lo + hi) / 2, lo + e16, frac(g())]))
        elif op in ("add", "sub", "contains", "in", "gt", "lt"):
            st["x"] = _fl(r.choice(near))
        elif op == "mul":
            if max(abs(lo), abs(hi)) > 2 ** 18 or max(lo.denominator, hi.denominator) > 2 ** 14:
                continue
            st["x"] = r.choice([0, 0.0, -0.0, -1, -0.5, 2, 0.25, -3, 1, g(64)])
        elif op == "div":
            if max(abs(lo), abs(hi)) > 2 ** 18 or max(lo.denominator, hi.denominator) > 2 ** 14:
                continue
            st["x"] = r.choice([1, -1, 2, -2, 0.5, -0.5, 4.0, -8.0, 0.125, -0.0625] + ([0, 0.0] if r.random() < 0.1 else []))
        elif op == "round":
            st["n"] = r.choice([None, 0, 1, 2, -1])
        elif op in ("inter", "containsI", "inI", "overlaps", "intersection", "gtI", "ltI"):
            c, d = sorted([r.choice(near), r.choice(near)])
            st["c"], st["d"] = _fl(c), _fl(d)
        elif op == "copy":
            st["how"] = r.choice(COPIES)
        elif op == "noise":
            st["what"] = r.choice(NOISE)
        steps.append(st)
        lo, hi = _sim_step(lo, hi, st)
    case = {"kind": "prog", "a": a, "b": b, "steps": steps}
    if r.random() < 0.3:
        import numpy as np
        nums = [frac(a), frac(b)] + [frac(st[k]) for st in steps for k in ("x", "c", "d") if k in st]
        lo, hi = frac(a), frac(b)
        for st in steps:
            lo, hi = _sim_step(lo, hi, st)
            nums += [lo, hi]
        a32 = all(float(np.float32(float(v))) == v for v in nums) and not any(st["op"] == "round" and (st["n"] or 0) > 0 for st in steps)
        case["a"], case["b"] = retype(r, a, a32), retype(r, b, a32)
        for st in steps:
            for k in ("x", "c", "d"):
                if k in st and not (st["op"] == "div" and frac(st[k]) == 0):
                    st[k] = retype(r, st[k], a32, p=0.4)
    return case


def _copy_of(i, how):
    import copy
    import pickle
    if how == "copy":
        return copy.copy(i)
    if how == "deepcopy":
        return copy.deepcopy(i)
    if how == "pickle":
        return pickle.loads(pickle.dumps(i))
    if how == "ctor-from-iter":
        return type(i)(*i)                                   # __iter__ yields start, end
    return type(i)(i.start, i.end)


def _noise(i, what):
    """Read-only entry points the property does not speak about; they must not disturb what it does speak about."""
    import copy
    import warnings
    with warnings.catch_warnings():
        warnings.simplefilter("ignore")
        if what == "hash":
            return call(hash, i)
        if what == "eq-self":
            return call(lambda: i == i)
        if what == "eq-copy":
            return call(lambda: i == copy.copy(i))
        if what == "eq-number":
            return call(lambda: i == 3)
        if what == "str":
            return call(str, i)
        if what == "repr":
            return call(repr, i)
        if what == "iter":
            return call(tuple, i)
        return call(lambda: (i.start, i.end, i.length))


def run_prog(ctx, raw):
    from commonroad.common.util import Interval
    ctx.case(raw)
    ctx.tag("prog/case")
    a, b = val(raw["a"]), val(raw["b"])
    if has32(raw):
        ctx.tag("prog/32bit-operand")
    r0 = call(Interval, a, b)
    if r0[0] != "ok":
        if frac(a) <= frac(b):
            ctx.fail(f"C16/Interval.mk/raises-{r0[1]}", f"Interval({a!r},{b!r}) raised {r0[2]}", raw)
        return
    cur = r0[1]
    lo, hi = frac(a), frac(b)
    olds = []                       # (object, expected bounds, description): objects the history has moved on from
    msteps, mimpl, rtab = [], [], []
    nset = 0
    prev_failed = False
    for k, st in enumerate(raw["steps"]):
        op = st["op"]
        desc = f"step {k} ({op}) of a history on Interval({a!r},{b!r})"
        sub = dict({kk: (val(v) if kk in ("x", "c", "d") else v) for kk, v in st.items()}, a=lo, b=hi, kind="plain", exact_round=True)
        if op == "copy":
            ctx.tag("prog/copy-" + st["how"])
            rc = call(_copy_of, cur, st["how"])
            if rc[0] != "ok":
                ctx.fail(f"C16/history/Interval.copy/raises-{rc[1]}", f"{desc}: {st['how']} raised {rc[2]}", raw)
                return
            olds.append((cur, (lo, hi), f"the object a {st['how']} was taken from at step {k}"))
            cur = rc[1]
            if type(cur) is not Interval or (frac(cur.start), frac(cur.end)) != (lo, hi):
                ctx.fail("C16/history/Interval.copy/wrong-set", f"{desc}: the {st['how']} is [{cur.start},{cur.end}], original [{float(lo)},{float(hi)}]", raw)
                return
            continue
        if op == "noise":
            ctx.tag("prog/noise")
            _noise(cur, st["what"])
        else:
            want = plain_oracle(sub)
            before = cur
            rr = call(plain_apply, cur, "intersection" if op == "inter" else op, sub)
            impl = {"ok": rr[1]} if rr[0] == "ok" else {"err": rr[1]}
            chain = op in ("add", "sub", "mul", "div", "round", "inter")
            if prev_failed:
                ctx.tag("prog/op-after-failed-op")
            prev_failed = "err" in impl
            if op in ("set_start", "set_end"):
                nset += 1
                ctx.tag("prog/setter-rejected" if "err" in want else "prog/setter-ok")
                if nset >= 2:
                    ctx.tag("prog/several-setters")
                if k > 0 and raw["steps"][k - 1]["op"] in PROG_QRY:
                    ctx.tag("prog/setter-after-query")
                if "err" not in want and frac(sub["x"]) in (lo, hi):
                    ctx.tag("prog/setter-same-or-other-bound")
            if op == "inter":
                # intersection fed back: the history continues with the result (None: with the object itself)
                want = {"ok": want["ok"] if want["ok"] is not None else [rat(lo), rat(hi)]}
                if "ok" in impl and impl["ok"] is None:
                    impl = {"ok": [rat(lo), rat(hi)]}
            zero_div = op == "div" and frac(sub["x"]) == 0
            if zero_div:
                ctx.tag("prog/div-zero")
                # not an admissible scalar (ZeroDivisionError for Python bounds, inf / nan for numpy ones): no verdict on the
                # step itself; what counts is that the object is untouched and the history goes on
                impl = {"err": "zero-div"}
            elif impl != want:
                if "err" in impl and "err" not in want:
                    ctx.fail(f"C16/history/Interval.{op}/raises-{impl['err']}", f"{desc} on [{float(lo)},{float(hi)}] raised {rr[2]}", raw)
                elif "err" in want:
                    ctx.fail(f"C16/history/Interval.{op}/not-rejected", f"{desc} on [{float(lo)},{float(hi)}]: crossing bound accepted: {impl}", raw)
                else:
                    ctx.fail(f"C16/history/Interval.{op}/wrong-set", f"{desc} on [{float(lo)},{float(hi)}] with "
                             f"{ {q: st[q] for q in st if q != 'op'} } = {impl}, the set semantics give {want}", raw)
                return
            if op in PROG_MUT:
                st_m = {"op": op}
                if "x" in st:
                    st_m["x"] = rat(sub["x"])
                if op == "round":
                    st_m["n"] = st["n"] or 0
                    for v in (cur.start, cur.end):
                        rtab.append([st["n"] or 0, rat(v), rat(round(v, st["n"]))])
                if op == "inter":
                    st_m["c"], st_m["d"] = rat(sub["c"]), rat(sub["d"])
                msteps.append(st_m)
                mimpl.append(impl)
            elif op != "noise" and ctx.driver is not None:
                q = {"in": "contains", "inI": "containsI"}.get(op, op)
                args = {kk: rat(v) for kk, v in sub.items() if kk in ("a", "b", "c", "d", "x")}
                ctx.compare(raw, impl, ctx.driver.ask("C16", q, args), f"Interval.{op} inside a history vs CR.Iv")
            if chain and "ok" in impl and not zero_div:
                ctx.tag("prog/chain")
                # the operation returned a NEW object; the history goes on with it, the operand must stay as it was
                res = _chain_result(cur, op, sub)
                if res is not None:
                    olds.append((cur, (lo, hi), f"the operand of {op} at step {k}"))
                    cur = res
                lo, hi = unrat(want["ok"][0]), unrat(want["ok"][1])
            elif op in ("set_start", "set_end") and "ok" in want:
                lo, hi = unrat(want["ok"][0]), unrat(want["ok"][1])
            if cur is not before and type(cur) is not Interval:
                ctx.fail(f"C16/history/Interval.{op}/result-type", f"{desc}: result is a {type(cur).__name__}", raw)
                return
        # the object after the step denotes exactly the predicted set (a query / a raising step must not move it)
        if (frac(cur.start), frac(cur.end)) != (lo, hi):
            ctx.fail(f"C16/history/Interval.{op}/object-changed", f"{desc}: the object is now [{cur.start},{cur.end}], "
                     f"the set semantics give [{float(lo)},{float(hi)}]", raw)
            return
    for o, (elo, ehi), what in olds:
        if (frac(o.start), frac(o.end)) != (elo, ehi):
            ctx.fail("C16/history/Interval/earlier-object-changed", f"{what} was [{float(elo)},{float(ehi)}] and is now [{o.start},{o.end}] "
                     f"after the history went on with another object", raw)
            return
    if msteps and ctx.driver is not None:
        ctx.tag("prog/model-trace")
        model = ctx.driver.ask("C16", "prog", {"a": rat(a), "b": rat(b), "steps": msteps, "rtab": rtab})
        ctx.compare(raw, {"trace": mimpl, "final": [rat(cur.start), rat(cur.end)]}, model, "history on an Interval vs CR.Iv.runOps / finalOps")


def _chain_result(cur, op, sub):
    """Re-run a chaining operation to get the resulting OBJECT (plain_apply returned its canonical form)."""
    from commonroad.common.util import Interval
    x = sub.get("x")
    if op == "add":
        return cur + x
    if op == "sub":
        return cur - x
    if op == "mul":
        return cur * x
    if op == "div":
        return cur / x
    if op == "round":
        return round(cur, sub["n"])
    return cur.intersection(Interval(sub["c"], sub["d"]))     # None: keep the object


# ------------------------------------------------------------------------------------------------ histories on angle intervals

def gen_aprog(ctx):
    """A history on ONE AngleInterval object. Setter arguments are given relative to the bounds the object has when the
    step runs (the constructor normalises, so absolute values are not known beforehand)."""
    r = ctx.rng
    pi = math.pi
    length = r.choice([0.0, 0.3, 1.0, pi, 4.0, 5.5, r.uniform(0, 2 * pi - 1e-3), 1, 3])
    start = r.choice([-pi, 0.0, -2 * pi, r.uniform(-2 * pi, 2 * pi - float(length)), r.uniform(-6 * pi, 6 * pi), -3, 0])
    steps = []
    for _ in range(r.randint(3, 8)):
        op = r.choice(["set", "set", "set", "contains", "contains", "containsI", "add", "sub", "copy", "noise"])
        st = {"op": op}
        if op == "set":
            st["which"] = r.choice(["start", "end"])
            st["mode"] = r.choice(["len", "len", "len", "same", "other", "cross", "out", "abs"])
            if st["mode"] == "len":
                st["v"] = r.choice([0.0, 0.25, 1.0, pi, 4.0, 5.5, r.uniform(0, 2 * pi - 1e-3)])
            elif st["mode"] == "cross":
                st["v"] = r.choice([1e-6, 0.5, 3.0])
            elif st["mode"] == "out":
                st["v"] = r.choice([2 * pi + 1e-6, 7, 7.5, 100.0])
            elif st["mode"] == "abs":
                st["v"] = r.choice([-2 * pi, 2 * pi, -pi, pi, 0.0, 0, -6, 6, 3, -3, enc_np("f64", 1.5), enc_np("i64", -1)])
        elif op == "contains":
            st["thetas"] = [r.choice([r.uniform(-7, 7), r.randint(-7, 7), r.uniform(-7, 7) + 2 * pi * r.choice([-3, 5, 100])]) for _ in range(5)]
            st["rel"] = [r.choice([-0.01, 0.0, 0.01]) for _ in range(2)]         # next to the current start / end
        elif op == "containsI":
            st["frac"] = [r.choice([0.0, 0.25, 0.5]), r.choice([0.5, 0.75, 1.0, 1.1])]   # J = I's sub-arc [f0, f1] (f1 > 1: sticks out)
            st["turn"] = r.choice([0, 0, 1, -1])
        elif op in ("add", "sub"):
            st["x"] = r.choice([0.0, 1.0, -1.0, pi, -2 * pi, 3.5, r.uniform(-6, 6), 1, -2, 40.0])
        elif op == "copy":
            st["how"] = r.choice(COPIES)
        elif op == "noise":
            st["what"] = r.choice(NOISE)
        steps.append(st)
    return {"kind": "aprog", "s": start, "e": start + length, "steps": steps}


def run_aprog(ctx, raw):
    from commonroad.common.util import AngleInterval
    ctx.case(raw)
    ctx.tag("aprog/case")
    tau = _tau()
    T = frac(tau)
    band = BAND
    eps = AngleInterval._TOLERANCE if hasattr(AngleInterval, "_TOLERANCE") else 0.0
    s, e = val(raw["s"]), val(raw["e"])
    if abs(frac(e) - frac(s) - T) < band:
        return
    r0 = call(AngleInterval, s, e)
    if r0[0] != "ok":
        ctx.fail(f"C16/AngleInterval.__init__/raises-{r0[1]}", f"AngleInterval({s!r},{e!r}) raised {r0[2]}", raw)
        return
    cur = r0[1]
    A, B = frac(cur.start), frac(cur.end)            # the construction itself is judged by the `angle` stream
    head = f"a history on AngleInterval({s!r},{e!r})"
    olds = []
    only_setters, msteps, mimpl, a0 = True, [], [], (A, B)
    nset = 0
    prev_failed = False
    for k, st in enumerate(raw["steps"]):
        op = st["op"]
        desc = f"step {k} ({op}) of {head}, object [{float(A)},{float(B)}]"
        failed_now = False
        if op == "set":
            which, mode = st["which"], st["mode"]
            lo_f, hi_f = cur.start, cur.end
            sv = val(st.get("v"))
            if mode == "len":
                v = float(hi_f) - sv if which == "start" else float(lo_f) + sv
            elif mode == "same":
                v = lo_f if which == "start" else hi_f
            elif mode == "other":
                v = hi_f if which == "start" else lo_f          # zero length: the same object's other bound handed over
            elif mode == "cross":
                v = float(hi_f) + sv if which == "start" else float(lo_f) - sv
            elif mode == "out":
                v = -sv if which == "start" else sv
            else:
                v = sv
            V = frac(v)
            if abs(abs(V) - T) < band and abs(V) != T:
                continue                                        # within round-off of +-2pi: validity not determined
            nA, nB = (V, B) if which == "start" else (A, V)
            want_ok = -T <= V <= T and nA <= nB
            if want_ok and nB - nA >= T - band:
                continue                                        # would leave the property's quantifier (length < 2pi)
            r5 = call(setattr, cur, which, v)
            nset += 1
            ctx.tag("aprog/setter-ok" if want_ok else "aprog/setter-rejected")
            if nset >= 2:
                ctx.tag("aprog/several-setters")
            if prev_failed:
                ctx.tag("aprog/op-after-failed-op")
            if which == "start":
                ctx.tag("aprog/start-setter")
            impl = {"ok": [rat(cur.start), rat(cur.end)]} if r5[0] == "ok" else {"err": r5[1]}
            if ctx.driver is not None:
                model = ctx.driver.ask("C16", "a_set_" + which, {"tau": rat(tau), "a": rat(A), "b": rat(B), "x": rat(v)})
                ctx.compare(raw, impl, model, f"AngleInterval.{which} setter vs CR.Iv.set{which.capitalize()}Angle")
            msteps.append({"op": "set_" + which, "x": rat(v)})
            mimpl.append(impl)
            if want_ok and r5[0] != "ok":
                ctx.fail(f"C16/history/AngleInterval.{which}-setter/raises-{r5[1]}", f"{desc}: {which} = {v!r} raised {r5[2]}", raw)
                return
            if not want_ok and r5[0] == "ok":
                ctx.fail(f"C16/history/AngleInterval.{which}-setter/not-rejected", f"{desc}: {which} = {v!r} (outside [-2pi,2pi] or crossing) accepted", raw)
                return
            if want_ok:
                A, B = nA, nB
            failed_now = not want_ok
        elif op == "contains":
            ths = list(st["thetas"]) + [float(cur.start) + st["rel"][0], float(cur.end) + st["rel"][1]]
            impl, keep = member_checks(ctx, raw, head + f" at step {k}", cur, ths, A, B, "contains-in-history", T, band)
            ctx.tag("aprog/query")
            if keep and ctx.driver is not None:
                model = ctx.driver.ask("C16", "a_contains", {"tau": rat(tau), "eps": rat(eps), "a": rat(cur.start), "b": rat(cur.end),
                                                             "thetas": [rat(t) for t in keep]})
                ctx.compare(raw, impl, model, "AngleInterval.contains inside a history vs CR.Iv.containsAngle")
            if ctx.failures and ctx.failures[-1].case is not raw and ctx.failures[-1].key.endswith("contains-in-history/wrong-membership"):
                ctx.failures[-1].case = raw                      # the failing angle alone does not replay a history
                return
        elif op == "containsI":
            ln = float(cur.end) - float(cur.start)
            c = float(cur.start) + st["frac"][0] * ln + st["turn"] * tau
            d = float(cur.start) + st["frac"][1] * ln + st["turn"] * tau
            rj = call(AngleInterval, c, d)
            if rj[0] == "ok":
                ctx.tag("aprog/query")
                containsI_check(ctx, raw, cur, rj[1], T, band, eps, tau, label="contains(interval)-in-history")
        elif op in ("add", "sub"):
            only_setters = False
            x = val(st["x"])
            r4 = call((lambda: cur + x) if op == "add" else (lambda: cur - x))
            if r4[0] != "ok":
                ctx.fail(f"C16/history/AngleInterval.{op}/raises-{r4[1]}", f"{desc} {op} {x!r} raised {r4[2]}", raw)
                return
            sh = r4[1]
            sgn = 1 if op == "add" else -1
            if ctx.driver is not None:
                model = ctx.driver.ask("C16", "a_" + op, {"tau": rat(tau), "a": rat(cur.start), "b": rat(cur.end), "x": rat(x)})
                cmp_norm(ctx, raw, (sh.start, sh.end), model, (A + sgn * frac(x), B + sgn * frac(x)), T, band, f"AngleInterval {op} in a history vs CR.Iv")
            nA, nB = frac(sh.start), frac(sh.end)
            kk = round((nA - (A + sgn * frac(x))) / T)
            if not (type(sh) is AngleInterval and abs(nA - (A + sgn * frac(x)) - kk * T) <= band and abs((nB - nA) - (B - A)) <= band
                    and -T <= nA <= nB <= T):
                ctx.fail(f"C16/history/AngleInterval.{op}/wrong-set", f"{desc} {op} {x!r} -> [{sh.start},{sh.end}]: not the image set in [-2pi,2pi]", raw)
                return
            ctx.tag("aprog/chain")
            olds.append((cur, (A, B), f"the operand of {op} at step {k}"))
            cur, A, B = sh, nA, nB
        elif op == "copy":
            only_setters = only_setters and True
            rc = call(_copy_of, cur, st["how"])
            if rc[0] != "ok":
                ctx.fail(f"C16/history/AngleInterval.copy/raises-{rc[1]}", f"{desc}: {st['how']} raised {rc[2]}", raw)
                return
            ctx.tag("aprog/copy")
            olds.append((cur, (A, B), f"the object a {st['how']} was taken from at step {k}"))
            cur = rc[1]
            if type(cur) is not AngleInterval or (frac(cur.start), frac(cur.end)) != (A, B):
                ctx.fail("C16/history/AngleInterval.copy/wrong-set", f"{desc}: the {st['how']} is [{cur.start},{cur.end}]", raw)
                return
        elif op == "noise":
            _noise(cur, st["what"])
        prev_failed = failed_now
        if (frac(cur.start), frac(cur.end)) != (A, B):
            ctx.fail(f"C16/history/AngleInterval.{op}/object-changed", f"{desc}: the object is now [{cur.start},{cur.end}], "
                     f"expected [{float(A)},{float(B)}]", raw)
            return
    for o, (ea, eb), what in olds:
        if (frac(o.start), frac(o.end)) != (ea, eb):
            ctx.fail("C16/history/AngleInterval/earlier-object-changed", f"{what} was [{float(ea)},{float(eb)}] and is now [{o.start},{o.end}]", raw)
            return
    if only_setters and msteps and ctx.driver is not None:
        ctx.tag("aprog/model-trace")
        model = ctx.driver.ask("C16", "a_prog", {"tau": rat(tau), "a": rat(a0[0]), "b": rat(a0[1]), "steps": msteps})
        ctx.compare(raw, {"trace": mimpl, "final": [rat(cur.start), rat(cur.end)]}, model, "setter history on an AngleInterval vs CR.Iv.runOpsA / finalOpsA")


# ------------------------------------------------------------------------------------------------ the normalisation functions

def gen_norm(ctx):
    r = ctx.rng
    tau = _tau()
    k = r.choice([0, 1, -1, 2, -2, 3, -5, 17, -64, 300, -450])
    x = r.choice([k * tau, k * tau + r.choice([1e-7, -1e-7, 0.5, -0.5]), r.uniform(-7, 7) + k * tau, r.randint(-40, 40), float(r.randint(-2000, 2000)),
                  tau, -tau, 0.0, -0.0])
    if r.random() < 0.5:
        return {"kind": "norm", "op": "mvo", "x": x}
    return {"kind": "norm", "op": "mvoi", "x": x, "len": r.choice([0.0, 1e-7, 1.0, math.pi, 6.0, tau - 1e-6, 1, 6])}


def run_norm(ctx, raw):
    """make_valid_orientation (tied, not part of the property sentence: correspondence only) and
    make_valid_orientation_interval (the constructor's normalisation: same set, inside [-2pi, 2pi])."""
    from commonroad.common.util import make_valid_orientation, make_valid_orientation_interval
    ctx.case(raw)
    tau = _tau()
    T = frac(tau)
    x = val(raw["x"])
    band = BAND + abs(frac(x)) * abs(frac(x)) * Fraction(1, 10 ** 16)
    if raw["op"] == "mvo":
        ctx.tag("norm/make_valid_orientation")
        r = call(make_valid_orientation, x)
        if r[0] != "ok":
            ctx.compare(raw, {"err": r[1]}, {"ok": "number"}, "make_valid_orientation raised")
            return
        model = ctx.driver.ask("C16", "make_valid", {"tau": rat(tau), "x": rat(x)})
        cmp_norm(ctx, raw, (r[1], r[1]), {"ok": [model["ok"], model["ok"]]}, (x,), T, band, "make_valid_orientation vs CR.Iv.makeValid")
        return
    ctx.tag("norm/make_valid_orientation_interval")
    e = x + raw["len"]
    if abs(frac(x)) > 10 * T:
        ctx.tag("norm/many-turns")
    r = call(make_valid_orientation_interval, x, e)
    if r[0] != "ok":
        ctx.fail(f"C16/make_valid_orientation_interval/raises-{r[1]}", f"make_valid_orientation_interval({x!r},{e!r}) raised {r[2]}", raw)
        return
    ns, ne = r[1]
    model = ctx.driver.ask("C16", "make_valid_interval", {"tau": rat(tau), "s": rat(x), "e": rat(e)})
    cmp_norm(ctx, raw, (ns, ne), model, (x, e), T, band, "make_valid_orientation_interval vs CR.Iv.makeValidInterval")
    k = round((frac(ns) - frac(x)) / T)
    if not (abs(frac(ns) - frac(x) - k * T) <= band and abs((frac(ne) - frac(ns)) - (frac(e) - frac(x))) <= band
            and -T <= frac(ns) and frac(ne) <= T):
        ctx.fail("C16/make_valid_orientation_interval/wrong-normalisation",
                 f"make_valid_orientation_interval({x!r},{e!r}) = ({ns},{ne}): not the same angles inside [-2pi,2pi]", raw)


def run_case(ctx, case):
    if case["kind"] in ("plain", "plainf"):
        run_plain(ctx, case)
    elif case["kind"] == "prog":
        run_prog(ctx, case)
    elif case["kind"] == "aprog":
        run_aprog(ctx, case)
    elif case["kind"] == "norm":
        run_norm(ctx, case)
    else:
        run_angle(ctx, case)


def run(ctx):
    problems = check_dimensions()
    ctx.tag("dimensions/checked")
    _run_cases(ctx)
    if problems and not ctx.failures:
        # code growth the generators do not know about: never a silent pass (a concrete failure found anyway takes precedence)
        raise InfraError("C16 dimension table vs commonroad.common.util: " + "; ".join(problems))


def _run_cases(ctx):
    for p in sorted(glob.glob(os.path.join(CORPUS_DIR, "C16", "*.json"))):
        run_case(ctx, json.load(open(p)))
    for _ in range(ctx.n(2500)):
        run_case(ctx, gen_plain(ctx))
    for _ in range(ctx.n(800)):
        run_case(ctx, gen_plain_float(ctx))
    for _ in range(ctx.n(900)):
        run_case(ctx, gen_prog(ctx))
    for _ in range(ctx.n(2500)):
        run_case(ctx, gen_angle(ctx))
    for _ in range(ctx.n(700)):
        run_case(ctx, gen_aprog(ctx))
    for _ in range(ctx.n(300)):
        run_case(ctx, gen_norm(ctx))


search = run


def replay(ctx, case):
    run_case(ctx, case)


class _Stub:
    """Oracle-only context for shrinking (no driver, no bookkeeping)."""
    driver = None

    def __init__(self):
        self.failures, self.excluded = [], 0

    def case(self, *a, **k): pass
    def tag(self, *a): pass
    def compare(self, *a, **k): return True

    def fail(self, key, what, case, detail=None):
        from common import Failure
        self.failures.append(Failure(key, what, case, detail))


def shrink(case, key):
    """Histories: drop steps while the same finding key is still produced."""
    if case.get("kind") not in ("prog", "aprog"):
        return case

    def fails(steps):
        st = _Stub()
        try:
            run_case(st, dict(case, steps=steps))
        except Exception:  # noqa
            return False
        return any(f.key == key for f in st.failures)
    steps = list(case["steps"])
    if not fails(steps):
        return case
    i = 0
    while i < len(steps):
        cand = steps[:i] + steps[i + 1:]
        if fails(cand):
            steps = cand
        else:
            i += 1
    return dict(case, steps=steps)
