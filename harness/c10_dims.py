"""C10 — the dimension table: every constructor parameter, settable attribute and public operation of the classes property C10
is anchored in that can influence what the property observes, with how harness/c10.py varies it (or why it cannot matter).
`check_dimensions()` compares the table with the real signatures on every run; a parameter / setter / method the table does
not know is an infrastructure error (exit 2): new code must not silently escape the generator."""
import inspect

from common import InfraError

V, C, Q, O, E, N, X = "varied", "content", "query", "operation", "edit", "no-influence", "outside"
#  varied        the generator draws different values (incl. the boundary classes named in the note)
#  content       opaque content of an element: varied a little, compared through the digest before / after every step
#  query         read-only: called between two operations (op "query"), the snapshot must not change
#  operation     an operation of the histories (model op or compared no-op)
#  edit          applied between two operations of a history (op "edit"), the model restarts from the edited network
#  no-influence  cannot influence any id-valued attribute or the presence of an element
#  outside       outside the property's quantifier (reason in the note; named in ASSUMPTIONS)

DIMENSIONS = {
    # ------------------------------------------------------------------------------------------------ Lanelet(...)
    "Lanelet(left_vertices)": (C, "grid rectangles, 2 or 3 vertices; translated by edit:translate"),
    "Lanelet(center_vertices)": (C, "as left_vertices"),
    "Lanelet(right_vertices)": (C, "as left_vertices"),
    "Lanelet(lanelet_id)": (V, "0, small, up to 10^6, fresh ids for lanelets added later"),
    "Lanelet(predecessor)": (V, "None / [] / lists with repeated entries / unsorted (set_pred reversed)"),
    "Lanelet(successor)": (V, "as predecessor"),
    "Lanelet(adjacent_left)": (V, "None / neighbour / arbitrary lanelet / mutual / id 0"),
    "Lanelet(adjacent_left_same_direction)": (V, "None with no neighbour, True / False otherwise"),
    "Lanelet(adjacent_right)": (V, "as adjacent_left"),
    "Lanelet(adjacent_right_same_direction)": (V, "as adjacent_left_same_direction"),
    "Lanelet(line_marking_left_vertices)": (C, "default or one of 5 markings"),
    "Lanelet(line_marking_right_vertices)": (C, "default or one of 5 markings"),
    "Lanelet(stop_line)": (V, "None / StopLine with refs None, empty, subsets of the lanelet's refs (not covered: stream stopline)"),
    "Lanelet(lanelet_type)": (V, "None / empty / 1-2 of 6 types (decides the type filter of a cut-out)"),
    "Lanelet(user_one_way)": (C, "omitted / None / sets"),
    "Lanelet(user_bidirectional)": (C, "omitted / None / sets"),
    "Lanelet(traffic_signs)": (V, "None / empty / shared signs; through the constructor or add_objects(sign, lanelet_ids)"),
    "Lanelet(traffic_lights)": (V, "as traffic_signs"),
    "Lanelet(adjacent_areas)": (C, "omitted / None / ids of areas of the network (areas are outside the property, see ASSUMPTIONS)"),
    # setters / mutators of Lanelet
    "Lanelet.lanelet_id=": (X, "re-keying a lanelet that sits in LaneletNetwork._lanelets under its old id leaves the dict "
                               "inconsistent: not a well-formed network"),
    "Lanelet.left_vertices=": (C, "geometry; edit:translate moves it through translate_rotate"),
    "Lanelet.center_vertices=": (C, "as left_vertices="), "Lanelet.right_vertices=": (C, "as left_vertices="),
    "Lanelet.predecessor=": (E, "edit:set_pred (new list object)"), "Lanelet.successor=": (E, "edit:set_succ; in place: edit:append_succ"),
    "Lanelet.adj_left=": (E, "edit:set_adj"), "Lanelet.adj_left_same_direction=": (E, "edit:set_adj"),
    "Lanelet.adj_right=": (E, "edit:set_adj"), "Lanelet.adj_right_same_direction=": (E, "edit:set_adj"),
    "Lanelet.traffic_signs=": (E, "edit:set_signs; in place: edit:inplace_sign_ref"), "Lanelet.traffic_lights=": (E, "edit:set_lights"),
    "Lanelet.stop_line=": (E, "edit:set_stop (a new StopLine object)"),
    "Lanelet.lanelet_type=": (C, "content; the type filter is re-read from the object by the harness"),
    "Lanelet.line_marking_left_vertices=": (C, ""), "Lanelet.line_marking_right_vertices=": (C, ""),
    "Lanelet.user_one_way=": (C, ""), "Lanelet.user_bidirectional=": (C, ""), "Lanelet.adjacent_areas=": (C, ""),
    "Lanelet.distance=": (N, "cache of arc lengths"), "Lanelet.dynamic_obstacles_on_lanelet=": (N, "obstacle registry (C07)"),
    "Lanelet.static_obstacles_on_lanelet=": (N, "obstacle registry (C07)"),
    "Lanelet.add_predecessor()": (E, "edit:add_pred"), "Lanelet.add_successor()": (E, "edit:add_succ"),
    "Lanelet.remove_predecessor()": (E, "edit:rm_pred"), "Lanelet.remove_successor()": (E, "edit:rm_succ"),
    "Lanelet.add_traffic_sign_to_lanelet()": (E, "edit:add_sign_ref and build route scenario"),
    "Lanelet.add_traffic_light_to_lanelet()": (E, "build route scenario, edit:add_light"),
    "Lanelet.add_adjacent_area_to_lanelet()": (C, "areas"), "Lanelet.add_dynamic_obstacle_to_lanelet()": (N, "C07"),
    "Lanelet.add_static_obstacle_to_lanelet()": (N, "C07"), "Lanelet.translate_rotate()": (E, "edit:translate (network / scenario level)"),
    "Lanelet.convert_to_2d()": (N, "2-d lanelets only"),
    "Lanelet.polygon": (Q, "polygon"), "Lanelet.inner_distance": (Q, "distance"), "Lanelet.convert_to_polygon()": (Q, "polygon"),
    "Lanelet.contains_points()": (Q, "geometry only"), "Lanelet.interpolate_position()": (Q, "distance"),
    "Lanelet.orientation_by_position()": (Q, "distance"), "Lanelet.dynamic_obstacle_by_time_step()": (N, "C07"),
    "Lanelet.get_obstacles()": (N, "C07"), "Lanelet.find_lanelet_predecessors_in_range()": (Q, "successors_in_range"),
    "Lanelet.find_lanelet_successors_in_range()": (Q, "successors_in_range"),
    "Lanelet.all_lanelets_by_merging_predecessors_from_lanelet()": (Q, "like merge_successors (C20)"),
    "Lanelet.all_lanelets_by_merging_successors_from_lanelet()": (Q, "merge_successors"),
    "Lanelet.merge_lanelets()": (N, "builds a new lanelet outside any network (C20)"),
    # ------------------------------------------------------------------------------------------------ StopLine
    "StopLine(start)": (C, ""), "StopLine(end)": (C, ""), "StopLine(line_marking)": (C, "one of 5 markings"),
    "StopLine(traffic_sign_ref)": (V, "None / empty / subset of the lanelet's signs"),
    "StopLine(traffic_light_ref)": (V, "None / empty / subset of the lanelet's lights"),
    "StopLine.start=": (C, ""), "StopLine.end=": (C, ""), "StopLine.line_marking=": (C, ""),
    "StopLine.traffic_sign_ref=": (E, "edit:stop_ref"), "StopLine.traffic_light_ref=": (E, "edit:stop_ref (set or None)"),
    "StopLine.translate_rotate()": (E, "edit:translate"), "StopLine.convert_to_2d()": (N, ""),
    # ------------------------------------------------------------------------------------------------ intersections
    "IntersectionIncomingElement(incoming_id)": (V, "unique ids incl. 0"),
    "IntersectionIncomingElement(incoming_lanelets)": (V, "1-2 lanelets (None / empty: an incoming without lanelets is not well-formed)"),
    "IntersectionIncomingElement(successors_right)": (V, "None / empty / 1-2 lanelets"),
    "IntersectionIncomingElement(successors_straight)": (V, "as successors_right"),
    "IntersectionIncomingElement(successors_left)": (V, "as successors_right"),
    "IntersectionIncomingElement(left_of)": (V, "None / an incoming of the same intersection (not a listed relation: observation only)"),
    "IntersectionIncomingElement.incoming_id=": (X, "re-numbering an incoming element whose id is recorded in Scenario._id_set (C09)"),
    "IntersectionIncomingElement.incoming_lanelets=": (E, "edit:inc_set / inc_inplace"),
    "IntersectionIncomingElement.successors_right=": (E, "edit:inc_set / inc_inplace"),
    "IntersectionIncomingElement.successors_straight=": (E, "edit:inc_set / inc_inplace"),
    "IntersectionIncomingElement.successors_left=": (E, "edit:inc_set / inc_inplace"),
    "IntersectionIncomingElement.left_of=": (N, "not a listed relation"),
    "Intersection(intersection_id)": (V, "unique ids incl. 0"), "Intersection(incomings)": (V, "1-3 incoming elements"),
    "Intersection(crossings)": (V, "None / empty / 1-2 lanelets"),
    "Intersection.intersection_id=": (X, "as Lanelet.lanelet_id="), "Intersection.incomings=": (E, "edit:incomings_reassign (same objects, other order)"),
    "Intersection.crossings=": (E, "edit:crossings"), "Intersection.map_incoming_lanelets": (Q, "map_incoming"),
    # ------------------------------------------------------------------------------------------------ signs / lights (content)
    "TrafficSign(traffic_sign_id)": (V, "unique ids incl. 0"), "TrafficSign(traffic_sign_elements)": (C, "4 element kinds x 3 values"),
    "TrafficSign(first_occurrence)": (C, "None / empty / lanelet ids (not a listed relation)"), "TrafficSign(position)": (C, ""),
    "TrafficSign(virtual)": (C, "True / False"),
    "TrafficLight(traffic_light_id)": (V, "unique ids incl. 0"), "TrafficLight(position)": (C, ""),
    "TrafficLight(traffic_light_cycle)": (C, "None / 1-3 elements"), "TrafficLight(color)": (C, "default"),
    "TrafficLight(active)": (C, "True / False"), "TrafficLight(direction)": (C, "3 directions"), "TrafficLight(shape)": (C, "default"),
    # ------------------------------------------------------------------------------------------------ LaneletNetwork
    "LaneletNetwork(information)": (N, "map meta data"), "LaneletNetwork.information=": (N, "map meta data"),
    "LaneletNetwork.add_lanelet()": (O, "build routes net / scenario; edit:add_lanelet; rtree True / False (stale spatial index)"),
    "LaneletNetwork.add_lanelet(rtree)": (V, "True / False"),
    "LaneletNetwork.add_traffic_sign()": (O, "build; edit:add_sign with lanelet_ids"), "LaneletNetwork.add_traffic_sign(lanelet_ids)": (V, "empty / referencing lanelets"),
    "LaneletNetwork.add_traffic_light()": (O, "build; edit:add_light"), "LaneletNetwork.add_traffic_light(lanelet_ids)": (V, "empty / referencing lanelets"),
    "LaneletNetwork.add_intersection()": (O, "build; edit:add_inter"), "LaneletNetwork.add_area()": (O, "build (areas)"),
    "LaneletNetwork.add_area(lanelet_ids)": (N, "areas are outside the property; always empty"),
    "LaneletNetwork.add_lanelets_from_network()": (N, "adds the other network's lanelet objects without copying; equivalent to add_lanelet(rtree=False) in a loop"),
    "LaneletNetwork.remove_lanelet()": (O, "net_remove_lanelet: present / absent / id 0 / numpy int id"), "LaneletNetwork.remove_lanelet(rtree)": (V, "True / False"),
    "LaneletNetwork.remove_traffic_sign()": (O, "net_remove_sign"), "LaneletNetwork.remove_traffic_light()": (O, "net_remove_light"),
    "LaneletNetwork.remove_intersection()": (O, "net_remove_inter"),
    "LaneletNetwork.remove_area()": (O, "net_remove_area of an unreferenced area (compared no-op; a referenced one: observation, see ASSUMPTIONS)"),
    "LaneletNetwork.cleanup_lanelet_references()": (O, "through remove_lanelet / both constructors"),
    "LaneletNetwork.cleanup_traffic_sign_references()": (O, "through remove_traffic_sign / create_from_lanelet_list"),
    "LaneletNetwork.cleanup_traffic_light_references()": (O, "through remove_traffic_light / create_from_lanelet_list"),
    "LaneletNetwork.create_from_lanelet_list()": (O, "from_list; also a build route"), "LaneletNetwork.create_from_lanelet_list(lanelets)": (V, "1-4 lanelets, repeated objects"),
    "LaneletNetwork.create_from_lanelet_list(cleanup_ids)": (V, "default / False"),
    "LaneletNetwork.create_from_lanelet_network()": (O, "cut_out; positional or keyword arguments; result used in a fresh Scenario, "
                                                        "through replace_lanelet_network, or dropped (history stays on the source)"),
    "LaneletNetwork.create_from_lanelet_network(lanelet_network)": (V, "fresh / stale spatial index, after edits and queries, empty"),
    "LaneletNetwork.create_from_lanelet_network(shape_input)": (V, "None / Rectangle (axis-aligned, rotated) / Circle / Polygon; the same Shape object "
                                                                   "reused; ShapeGroup has no shapely_object (raises, outside)"),
    "LaneletNetwork.create_from_lanelet_network(exclude_lanelet_types)": (V, "None / empty / 1-2 types"),
    "LaneletNetwork.create_from_lanelet_network(cleanup_ids)": (V, "default / False (outside the property, correspondence only)"),
    "LaneletNetwork.translate_rotate()": (E, "edit:translate (integer offsets, angle 0)"), "LaneletNetwork.convert_to_2d()": (N, "2-d networks only"),
    "LaneletNetwork.draw()": (N, "C19"), "LaneletNetwork.filter_obstacles_in_network()": (N, "C07"), "LaneletNetwork.map_obstacles_to_lanelets()": (N, "C07"),
    "LaneletNetwork.find_lanelet_by_id()": (Q, "find_by_id"), "LaneletNetwork.find_traffic_sign_by_id()": (Q, "find_by_id"),
    "LaneletNetwork.find_traffic_light_by_id()": (Q, "used by the harness itself"), "LaneletNetwork.find_intersection_by_id()": (Q, "find_by_id"),
    "LaneletNetwork.find_area_by_id()": (Q, "through cut-outs"), "LaneletNetwork.find_lanelet_by_position()": (Q, "by_position"),
    "LaneletNetwork.find_lanelet_by_shape()": (Q, "by_shape"), "LaneletNetwork.find_most_likely_lanelet_by_state()": (Q, "like by_position (C06)"),
    "LaneletNetwork.lanelets_in_proximity()": (Q, "proximity"), "LaneletNetwork.get_traffic_sign_referenced_lanelets()": (Q, "sign_referenced"),
    "LaneletNetwork.get_traffic_lights_referenced_lanelets()": (Q, "light_referenced"),
    "LaneletNetwork.lanelets": (Q, "properties"), "LaneletNetwork.lanelet_polygons": (Q, "lanelet_polygons"), "LaneletNetwork.intersections": (Q, "properties"),
    "LaneletNetwork.traffic_signs": (Q, "properties"), "LaneletNetwork.traffic_lights": (Q, "properties"), "LaneletNetwork.areas": (Q, "properties"),
    "LaneletNetwork.map_inc_lanelets_to_intersections": (Q, "map_inc"),
    # ------------------------------------------------------------------------------------------------ Scenario
    "Scenario.add_objects()": (O, "build route scenario (lanelet, sign, light, intersection one by one), route net (whole network); edits via scn"),
    "Scenario.add_objects(lanelet_ids)": (V, "None / empty / referencing lanelets"),
    "Scenario.remove_lanelet()": (O, "scn_remove_lanelets: object / list, stale and repeated objects"), "Scenario.remove_lanelet(referenced_elements)": (V, "default / True / False"),
    "Scenario.remove_hanging_lanelet_members()": (O, "through remove_lanelet and directly (scn_remove_hanging, list form; a single Lanelet is not iterable: raises, outside)"),
    "Scenario.remove_traffic_sign()": (O, "scn_remove_signs: object / list, stale objects"), "Scenario.remove_traffic_light()": (O, "scn_remove_lights"),
    "Scenario.remove_intersection()": (O, "scn_remove_inters: object / list, stale objects"),
    "Scenario.erase_lanelet_network()": (O, "through replace_lanelet_network"), "Scenario.replace_lanelet_network()": (O, "then=replace after a cut-out / from_list (id pool consistent)"),
    "Scenario.lanelet_network": (Q, "every step"), "Scenario.translate_rotate()": (E, "edit:translate via scn"),
    "Scenario.assign_obstacles_to_lanelets()": (N, "C07"), "Scenario.remove_obstacle()": (N, "C07/C09"), "Scenario.convert_to_2d()": (N, ""),
}


def _members(cls, name):
    out = []
    sig = inspect.signature(cls.__init__)
    out += [f"{name}({p})" for p in list(sig.parameters)[1:]]
    for n, v in inspect.getmembers(cls):
        if n.startswith("_"):
            continue
        if isinstance(v, property):
            if v.fset is not None:
                out.append(f"{name}.{n}=")
            else:
                out.append(f"{name}.{n}")
        elif callable(v):
            out.append(f"{name}.{n}()")
    return out


def real_dimensions():
    from commonroad.common.common_lanelet import StopLine
    from commonroad.scenario.intersection import Intersection, IntersectionIncomingElement
    from commonroad.scenario.lanelet import Lanelet, LaneletNetwork
    from commonroad.scenario.scenario import Scenario
    from commonroad.scenario.traffic_light import TrafficLight
    from commonroad.scenario.traffic_sign import TrafficSign
    out = []
    for cls in (Lanelet, StopLine, IntersectionIncomingElement, Intersection, LaneletNetwork):
        out += _members(cls, cls.__name__)
    # a property with a setter is listed once as "X.attr=" (its getter is read by the snapshot)
    for cls in (TrafficSign, TrafficLight):
        out += [f"{cls.__name__}({p})" for p in list(inspect.signature(cls.__init__).parameters)[1:]]
    for meth, params in (("add_lanelet", None), ("add_traffic_sign", None), ("add_traffic_light", None), ("add_area", None),
                         ("remove_lanelet", None), ("create_from_lanelet_list", None), ("create_from_lanelet_network", None)):
        sig = inspect.signature(getattr(LaneletNetwork, meth))
        for p in sig.parameters:
            if p in ("self", "cls", "lanelet", "traffic_sign", "traffic_light", "area", "lanelet_id"):
                continue
            out.append(f"LaneletNetwork.{meth}({p})")
    words = ("lanelet", "traffic_sign", "traffic_light", "intersection", "erase", "replace", "add_objects", "translate_rotate",
             "convert_to_2d", "remove_obstacle")
    for n, v in inspect.getmembers(Scenario):
        if n.startswith("_") or not any(w in n for w in words):
            continue
        if isinstance(v, property):
            out.append(f"Scenario.{n}=" if v.fset is not None else f"Scenario.{n}")
        elif callable(v):
            out.append(f"Scenario.{n}()")
    for meth in ("remove_lanelet", "add_objects"):
        for p in inspect.signature(getattr(Scenario, meth)).parameters:
            if p not in ("self", "lanelet", "scenario_object"):
                out.append(f"Scenario.{meth}({p})")
    return out


def check_dimensions():
    """every constructor parameter / setter / public method of the anchored classes has a decision in DIMENSIONS"""
    unknown = [d for d in real_dimensions() if d not in DIMENSIONS]
    if unknown:
        raise InfraError("C10 dimension table: the code has parameters / attributes / methods without a decision in "
                         f"harness/c10_dims.py DIMENSIONS (add how the generator varies them): {unknown}")
    return len(DIMENSIONS)
