"""C05 — translate_rotate is the exact rigid motion on every object.
model: lean/CRModel/Rigid.lean; theorems: lean/CRProps/C05.lean (+ lean/CRProofs/Rigid.lean)."""
import copy
import glob
import json
import math
import os
import sys
from fractions import Fraction

from common import CORPUS_DIR, InfraError, call, err_class, frac, rat, unrat

RULE = ("one case = a world (scenario with 0..4 lanelets [stop line optional], traffic signs, traffic lights, static / dynamic "
        "[trajectory prediction of KS/PM/Custom/ExtendedPM/Initial/MB/ST states | set-based prediction | none] / phantom / "
        "environment obstacles with exact or uncertain initial states [position region rectangle/circle/polygon, orientation "
        "interval], dynamic obstacles with history states, traffic lights with a housing shape, areas, 0..2 planning problems with "
        "1..3 goal states plus 0..3 further problems whose goal region equals an earlier one's by value [distinct objects] or is the "
        "same GoalRegion object; loose states sometimes with an inadmissible position / orientation type) + loose objects of every class that has a public "
        "translate_rotate, moved by one (t, a): a from {0, +-1e-9..+-0.049, +-0.05, +-nextafter(0.05), +-0.051, k*pi/2, +-2pi, "
        "+-nextafter(2pi), ints, uniform, log-uniform small, rarely out of range}, t dyadic / zero / float / int-typed / large; "
        "the motion is applied as a whole (Scenario / PlanningProblemSet), per network+obstacle, or part by part; "
        "probe cases put every coordinate on {-t, -t+e1, -t+e2} so that (cos, sin) are read back to 4 eps. "
        "distinct = canonical JSON of the case; non-trivial = every case (>= 1 object, a != 0 or t != 0 in > 95 %)")
ASSUMPTIONS = [
    "float rounding inside + - * of the matrix product is modelled as exact; the correspondence accepts 64*eps*(1+|p|+|t|) per "
    "coordinate (a rigorous bound for 3 products and 3 sums with |cos|,|sin| <= 1; 4*eps*(...) in probe cases, where p + t is "
    "exact) and 1e-13 per angle; the oracle the same",
    "orientations are compared as angles (mod 2pi) and must lie in [-2pi, 2pi]; both ends of an orientation interval move by the "
    "same multiple of 2pi",
    "(cos a, sin a) are parameters of the model, sent as the exact rationals of math.cos(a), math.sin(a)",
    "derived geometry (rectangle corner points, lanelet polygons, occupancies computed from states, areas, lengths, pairwise "
    "distances, inverse motion) is compared with relative 1e-9 as in the property text ('to rounding accuracy')",
    "the shape of an obstacle / trajectory prediction is given in the body frame and is not moved; obstacle shapes are generated "
    "centred at the origin (documented convention) so that occupancy_at_time is the rigid image",
    "ATTR_TABLE lists every attribute of the commonroad classes that holds spatial content with one decision each (moved / part / "
    "body / cache / none); reflect_world walks every object of every case and stops the run (exit 2) on an unlisted one, so "
    "the fields of the Lean records (= the moved and body entries) are complete w.r.t. the Python classes of this tree",
    "Area borders and DynamicObstacle.history (left in place by trees before 00d3698 / 6df6dd6) are world-frame fields like all "
    "others: compared exactly by the correspondence and the oracle; a regression is reported under "
    "C05/LaneletNetwork.translate_rotate/area-border-not-moved resp. C05/DynamicObstacle.translate_rotate/history-not-moved",
    "decision 'body' (obstacle_shape, TrajectoryPrediction.shape, TrafficLight.shape [optional housing rectangle, default centre "
    "(0, 0), used by no reader / writer / renderer]): must stay exactly as they are (checked)",
    "states whose position is neither an array nor a Shape, or whose orientation is neither a number nor an AngleInterval, are "
    "inadmissible: State.translate_rotate raises TypeError (modelled, compared); the oracle does not count that as 'fails'",
    "not demanded (the property text speaks of points and orientations): velocity / acceleration components other than the "
    "velocity vector of a PMState, from which its orientation is derived; occupancy sets of a TrajectoryPrediction cached BEFORE "
    "the motion (cache invalidation is C11's subject) - the oracle reads occupancies from a deep copy with cold caches",
    "3-D vertices (z) are outside the property (planar rigid motion)",
    "the generator's dimensions (constructor parameters, setters, entry points, histories) are listed in harness/c05_dims.py and "
    "checked against the real signatures on every run (exit 2 when the code grows an unknown one); outside the quantifier: "
    "StopLine(start=None, end=None) (the readers always supply points), ShapeGroup obstacle shapes with off-centre members (their "
    "occupancy is not a rigid placement of the body), translations that are not an ndarray of length 2, np.float32 angles",
    "a failing call with an angle outside [-2pi, 2pi] may precede the motion (dims.fail_first): whatever it leaves is the baseline, "
    "atomicity of the failed call is not demanded",
    "a GoalRegion object held by several problems: PlanningProblemSet.translate_rotate has to move it once (repaired by b4f94f9; "
    "model CR.Rigid.ProblemSet, C05_problem_set_objects); a caller moving problem by problem (modes network / parts) moves such an "
    "object once himself. Not generated: ONE state_list list object handed to two GoalRegion objects (GoalRegion keeps the "
    "caller's list and works on it in place)",
    "part by part, lanelets are moved behind the network's back, so find_lanelet_by_position is not compared in that mode (index "
    "maintenance is C11); with dims.warm the occupancies are read from the live objects whose caches were filled before the motion",
]
EXTRA_MODULES = ["CRProps.T05"]      # translator tie: Gen.SrcC05 (regenerated from the repo every run) = hand model CRModel/Rigid.lean
REQUIRED_BUCKETS = ["dim/ints", "dim/utm", "dim/alias", "dim/mutate", "dim/warm", "dim/fail_first", "dim/list_add", "dim/step2",
                    "dim/a_type/np.float64", "dim/a_type/np.int64", "dim/t_type/f32", "lanelet/own-center-line",
                    "obst/update_initial_state", "area/no-border", "loose/area", "loose/areaborder", "loose/matrix", "loose/network",
                    "body/asymmetric-polygon", "tie/place", "area", "history", "light/shape", "state/other", "angle/zero", "angle/tiny", "angle/small<=0.05", "angle/0.05-edge", "angle/quarter-turn", "angle/full-turn",
                    "angle/generic", "angle/out-of-range", "t/zero", "t/dyadic", "t/float", "mode/whole", "mode/network",
                    "mode/parts", "probe", "obst/static", "obst/dynamic-traj", "obst/dynamic-set", "obst/phantom", "obst/env",
                    "state/PMState", "state/uncertain-pos", "state/uncertain-ori", "lanelet/stop-line", "sign", "light",
                    "problem", "problem/equal-goal-regions", "problem/shared-goal-region", "loose/shape", "loose/state", "loose/trajectory", "loose/occupancy", "loose/setpred",
                    "loose/trajpred", "loose/stopline", "loose/lanelet", "loose/sign", "loose/light", "loose/obstacle",
                    "loose/goal", "loose/problem", "loose/points", "wrap/crossed"]

EPS = sys.float_info.epsilon
PI = math.pi


def TAU():
    from commonroad import TWO_PI
    return float(TWO_PI)


# ------------------------------------------------------------------------------------------------ generators

def gen_angle(r):
    tau = TAU()
    k = r.random()
    if k < 0.08:
        return r.choice([0.0, 0.0, 0, -0.0])
    if k < 0.30:
        mag = r.choice([1e-9, 1e-7, 1e-6, 1e-5, 1e-4, 0.001, 0.01, 0.02, 0.03, 0.049, 10 ** r.uniform(-8, math.log10(0.05))])
        return r.choice([1, -1]) * mag
    if k < 0.42:
        e = r.choice([0.05, math.nextafter(0.05, 1), math.nextafter(0.05, 0), 0.05 + 1e-12, 0.05 - 1e-12, 0.051, 0.0500001])
        return r.choice([1, -1]) * e
    if k < 0.56:
        return r.choice([-4, -3, -2, -1, 1, 2, 3, 4]) * (PI / 2) if r.random() < 0.8 else r.choice([PI / 4, -PI / 4, 3 * PI / 4])
    if k < 0.66:
        return r.choice([tau, -tau, math.nextafter(tau, 0), -math.nextafter(tau, 0), tau - 1e-9, -tau + 1e-9])
    if k < 0.70:
        return r.choice([1, -1, 2, -3, 5, 6, -6])
    if k < 0.73:
        return r.choice([7.0, -7.0, math.nextafter(tau, 10), 6.5, -100.0])
    return r.uniform(-tau, tau)


def gen_translation(r):
    k = r.random()
    if k < 0.12:
        return {"v": [0.0, 0.0], "int": False}
    if k < 0.55:
        return {"v": [r.randint(-1024, 1024) / 16.0, r.randint(-1024, 1024) / 16.0], "int": False}
    if k < 0.62:
        return {"v": [r.randint(-50, 50), r.randint(-50, 50)], "int": True}
    if k < 0.68:
        return {"v": [r.uniform(-1e4, 1e4), r.uniform(-1e4, 1e4)], "int": False}
    return {"v": [r.uniform(-100, 100), r.uniform(-100, 100)], "int": False}


# generation-time switches of the current case (value classes): integer-valued coordinates, UTM-sized offsets
_G = {"ints": False, "off": (0.0, 0.0)}


def _coord(r):
    if _G["ints"]:
        return float(r.randint(-100, 100))
    return r.randint(-1600, 1600) / 16.0 if r.random() < 0.5 else r.uniform(-100, 100)


def _pt(r):
    return [_G["off"][0] + _coord(r), _G["off"][1] + _coord(r)]


def gen_orientation(r, a=0.0):
    """An orientation in [-2pi, 2pi]; often such that th + a crosses +-2pi or lands on it."""
    tau = TAU()
    k = r.random()
    if k < 0.25:
        th = r.choice([tau, -tau, tau - float(a), -tau - float(a), tau - float(a) + 1e-3, -tau - float(a) - 1e-3,
                       tau - 0.01, -tau + 0.01, PI, -PI, 3 * PI / 2])
    elif k < 0.35:
        th = r.choice([0.0, 0, 1, -2, PI / 2])
    else:
        th = r.uniform(-tau, tau)
    if isinstance(th, float):
        th = max(-tau, min(tau, th))
    return th


def gen_angle_interval(r, a=0.0):
    tau = TAU()
    length = r.choice([0.0, 0.1, 1.0, PI, 4.0, 6.0, tau - 1e-6, r.uniform(0, tau - 1e-6)])
    start = r.choice([-tau, -PI, 0.0, PI - 0.05, tau - length, r.uniform(-tau, tau - length), tau - length - float(a)])
    start = max(-tau, min(tau - length, start))
    end = start + length
    if end > tau or end - start >= tau:
        end = min(tau, start + min(length, tau - 1e-6))
    return [start, end]


def gen_shape(r, depth=0, center=None, kinds=("rect", "circ", "poly", "group"), a=0.0):
    k = r.choice(kinds if depth == 0 else [x for x in kinds if x != "group"] or ["rect"])
    c = center if center is not None else _pt(r)
    if k == "rect" and center is None and r.random() < 0.06:      # constructor defaults: centre and orientation omitted
        return {"k": "rect", "l": r.uniform(0.5, 8), "w": r.uniform(0.5, 4), "c": [0.0, 0.0], "th": 0.0, "dflt": True}
    if k == "circ" and center is None and r.random() < 0.06:
        return {"k": "circ", "r": r.uniform(0.2, 5), "c": [0.0, 0.0], "dflt": True}
    if k == "rect":
        return {"k": "rect", "l": r.choice([4.5, 2.0, r.randint(1, 160) / 16.0, r.uniform(0.1, 12)]),
                "w": r.choice([1.8, 1.0, r.randint(1, 96) / 16.0, r.uniform(0.1, 5)]), "c": c, "th": gen_orientation(r, a)}
    if k == "circ":
        return {"k": "circ", "r": r.choice([0.5, 1.0, 2.5, r.uniform(0.1, 8)]), "c": c}
    if k == "poly":
        n = r.randint(3, 7)
        angs = sorted(r.uniform(0, 2 * PI) for _ in range(n))
        # spread the directions so that the polygon is never degenerate
        angs = [2 * PI * i / n + 0.8 * (x - 2 * PI * i / n) / n for i, x in enumerate(angs)]
        vs = [[c[0] + rad * math.cos(x), c[1] + rad * math.sin(x)] for x in angs for rad in [r.uniform(1.0, 8.0)]]
        if r.random() < 0.5:
            vs.reverse()       # already clockwise (the stored order)
        if r.random() < 0.3:
            vs.append(list(vs[0]))   # already closed
        elif r.random() < 0.15:
            i = r.randrange(len(vs))
            vs.insert(i, list(vs[i]))      # a repeated vertex
        return {"k": "poly", "v": vs}
    return {"k": "group", "s": [gen_shape(r, depth + 1, None, kinds, a) for _ in range(r.choice([0, 1, 1, 2, 3]))]}


def polygon_centroid(vs):
    """area centroid of a simple polygon (shoelace)."""
    a2 = cx = cy = 0.0
    for (x0, y0), (x1, y1) in zip(vs, vs[1:] + vs[:1]):
        w = x0 * y1 - x1 * y0
        a2 += w
        cx += (x0 + x1) * w
        cy += (y0 + y1) * w
    return cx / (3 * a2), cy / (3 * a2)


def body_asymmetry(spec):
    """distance between the bounding-box centre and the centroid of a polygon body shape (0 for the other kinds)."""
    if spec.get("k") != "poly":
        return 0.0
    xs, ys = [v[0] for v in spec["v"]], [v[1] for v in spec["v"]]
    cx, cy = polygon_centroid([list(v) for v in spec["v"]][:-1] if spec["v"][0] == spec["v"][-1] else [list(v) for v in spec["v"]])
    return math.hypot((min(xs) + max(xs)) / 2 - cx, (min(ys) + max(ys)) / 2 - cy)


def gen_body_shape(r, allow_group=False):
    """Obstacle shape in the body frame, centred at the origin."""
    k = r.choice(["rect", "rect", "circ", "poly", "apoly"])
    if k == "rect":
        return {"k": "rect", "l": r.choice([4.5, r.uniform(0.5, 12)]), "w": r.choice([1.8, r.uniform(0.5, 3)]), "c": [0.0, 0.0],
                "th": r.choice([0.0, 0.0, 0.0, r.uniform(-1.5, 1.5)])}      # a body rectangle may be turned in the body frame
    if k == "circ":
        return {"k": "circ", "r": r.uniform(0.2, 3), "c": [0.0, 0.0]}
    if k == "apoly":
        # an arbitrary (in general asymmetric) polygon, e.g. a triangle, shifted so that its CENTROID is the local origin
        # (the convention of obstacle shapes); its bounding-box centre is then somewhere else
        n = r.choice([3, 3, 4, 5, 6])
        angs = [2 * PI * i / n + r.uniform(-0.3, 0.3) * 2 * PI / n for i in range(n)]
        vs = [[rad * math.cos(x), rad * math.sin(x)] for x in angs for rad in [r.uniform(0.6, 4.0)]]
        cx, cy = polygon_centroid(vs)
        vs = [[x - cx, y - cy] for x, y in vs]
        if r.random() < 0.5:
            vs.reverse()
        return {"k": "poly", "v": vs}
    p, q = [r.uniform(0.5, 4), r.uniform(0.2, 2)], [r.uniform(-3, -0.5), r.uniform(0.5, 2)]
    return {"k": "poly", "v": [p, q, [-p[0], -p[1]], [-q[0], -q[1]]]}     # centrally symmetric: centroid at the origin


STATE_CLASSES = ["InitialState", "KSState", "PMState", "CustomState", "ExtendedPMState", "MBState", "STState", "KSTState",
                 "STDState", "LateralState", "LongitudinalState", "InputState"]
NO_POS = {"LateralState", "LongitudinalState", "InputState", "PMInputState", "LKSInputState"}
NO_ORI = {"PMState", "LongitudinalState", "InputState", "PMInputState", "LKSInputState"}


def gen_state(r, cls=None, t=0, a=0.0, uncertain=None, region_kinds=("rect", "circ", "poly")):
    cls = cls or r.choice(STATE_CLASSES)
    st = {"cls": cls, "t": t}
    unc = r.random() < 0.25 if uncertain is None else uncertain
    if cls not in NO_POS:
        if unc and cls != "PMState" and r.random() < 0.7:
            st["pos"] = gen_shape(r, depth=1, kinds=region_kinds, a=a)
        else:
            st["pos"] = _pt(r)
    if cls == "PMState":
        st["vx"], st["vy"] = r.choice([[3.0, 4.0], [-1.0, 0.01], [0.0, 2.0], [r.uniform(-20, 20), r.uniform(-20, 20)],
                                       [r.uniform(0.5, 20), 0.0]])
    elif cls not in NO_ORI:
        if unc and r.random() < 0.7:
            st["ori"] = gen_angle_interval(r, a)
        else:
            st["ori"] = gen_orientation(r, a)
        st["v"] = r.choice([0.0, 5.0, r.uniform(0, 30)])
    return st


def gen_state_list(r, a, n=None):
    """States of one class with the same attributes at consecutive time steps (what Trajectory requires)."""
    cls = r.choice(["KSState", "KSState", "PMState", "PMState", "CustomState", "ExtendedPMState", "InitialState", "MBState", "STState"])
    n = n or r.randint(1, 5)
    t0 = r.randint(1, 5)
    return [gen_state(r, cls, t0 + i, a, uncertain=False) for i in range(n)], t0


def gen_lanelet(r, lid):
    n = r.randint(2, 6)
    x, y = _pt(r)
    h = r.uniform(-PI, PI)
    w = r.choice([3.0, 3.5, r.uniform(2, 5)])
    left, center, right = [], [], []
    for _ in range(n):
        nx, ny = -math.sin(h), math.cos(h)
        center.append([x, y])
        left.append([x + nx * w / 2, y + ny * w / 2])
        right.append([x - nx * w / 2, y - ny * w / 2])
        step = r.uniform(2, 15)
        x, y = x + step * math.cos(h), y + step * math.sin(h)
        h += r.uniform(-0.3, 0.3)
    k = r.random()
    if k < 0.3:          # a center line of its own (surveyed reference line), not the mean of the boundaries
        center = [[x + r.uniform(-0.4, 0.4), y + r.uniform(-0.4, 0.4)] for x, y in center]
    if r.random() < 0.15 and n >= 3:      # a repeated vertex (zero-length segment)
        i = r.randrange(1, n)
        left[i], center[i], right[i] = list(left[i - 1]), list(center[i - 1]), list(right[i - 1])
    if _G["ints"]:
        left, center, right = [[[float(round(v)) for v in q] for q in pl] for pl in (left, center, right)]
    la = {"id": lid, "l": left, "c": center, "r": right, "own_center": k < 0.3}
    if r.random() < 0.5:
        la["stop"] = [list(right[-1]), list(left[-1])] if r.random() < 0.6 else [_pt(r), _pt(r)]
    return la


def gen_obstacle(r, oid, a):
    k = r.choice(["static", "dynamic-traj", "dynamic-traj", "dynamic-set", "dynamic-none", "phantom", "env"])
    if k == "static":
        unc = r.random() < 0.4
        return {"k": "static", "id": oid, "shape": gen_body_shape(r), "st": gen_state(r, "InitialState", 0, a, uncertain=unc)}
    if k == "dynamic-traj":
        sts, t0 = gen_state_list(r, a)
        init = gen_state(r, "InitialState", t0 - 1, a, uncertain=r.random() < 0.2)
        o = {"k": "dynamic", "id": oid, "shape": gen_body_shape(r), "st": init, "traj": sts}
        k2 = r.random()
        if k2 < 0.3:     # past states (DynamicObstacle.history), world frame, passed to the constructor
            o["hist"] = [gen_state(r, "InitialState", -3 + i, a, uncertain=False) for i in range(r.randint(1, 3))]
        elif k2 < 0.5:   # the same through the API: the obstacle starts earlier and update_initial_state() is called n times
            o["updates"] = [gen_state(r, "InitialState", t0 - 1 - n + i, a, uncertain=False) for n in [r.randint(1, 3)] for i in range(n)]
        return o
    if k == "dynamic-set":
        occ = [{"t": i + 1 if r.random() < 0.7 else [i + 1, i + 1], "sh": gen_shape(r, a=a)} for i in range(r.choice([0, 1, 2, 3, 4]))]
        return {"k": "dynamic", "id": oid, "shape": gen_body_shape(r), "st": gen_state(r, "InitialState", 0, a, uncertain=r.random() < 0.3),
                "occ": occ}
    if k == "dynamic-none":
        return {"k": "dynamic", "id": oid, "shape": gen_body_shape(r), "st": gen_state(r, "InitialState", 0, a, uncertain=False)}
    if k == "phantom":
        occ = None if r.random() < 0.15 else [{"t": i, "sh": gen_shape(r, a=a)} for i in range(r.randint(1, 3))]
        return {"k": "phantom", "id": oid, "occ": occ}
    return {"k": "env", "id": oid, "sh": gen_shape(r, kinds=("rect", "circ", "poly"), a=a)}


def gen_goal_state(r, a):
    st = {"cls": "CustomState", "t": sorted([r.randint(0, 20), r.randint(20, 40)])}
    if r.random() < 0.8:
        st["pos"] = gen_shape(r, a=a)
    if r.random() < 0.7:
        st["ori"] = gen_angle_interval(r, a)
    if r.random() < 0.5:
        st["vi"] = sorted([r.uniform(0, 10), r.uniform(10, 30)])
    return st


def gen_problem(r, pid, a):
    init = gen_state(r, "InitialState", 0, a, uncertain=False)
    init["full"] = True
    return {"id": pid, "init": init, "goal": [gen_goal_state(r, a) for _ in range(r.randint(1, 3))]}


def gen_problem_twins(r, problems, a, p=0.5, same_init=False):
    """Further planning problems whose goal region EQUALS that of an earlier problem `goal_of` (cooperative problems: several
    vehicles, one goal): `goal_share` 'equal' = a second GoalRegion object built from the same values (GoalRegion hashes and
    compares by VALUE: equal, but distinct objects), 'same' = the very same GoalRegion object held by both problems.
    Every problem of the set has to be moved exactly once, whatever is equal to or shared with whatever."""
    out = []
    if not problems or r.random() >= p:
        return out
    for _ in range(r.choice([1, 1, 2, 3])):
        have = problems + out
        j = r.randrange(len(have))
        tw = gen_problem(r, 500 + len(have), a)
        tw.update(goal=copy.deepcopy(have[j]["goal"]), goal_of=j, goal_share=r.choice(["equal", "equal", "same"]))
        if r.random() < 0.3 or same_init:
            tw["init"] = copy.deepcopy(have[j]["init"])          # the same start as well (equal initial states, distinct objects)
        out.append(tw)
    return out


def drop_problem(problems, i):
    """`problems` without entry i, the `goal_of` references kept meaningful (used by shrink)."""
    gone, out, heir = problems[i], [], None     # heir: the first problem that referred to a dropped original becomes the original
    for k, q in enumerate(problems):
        if k == i:
            continue
        q = dict(q)
        if q.get("goal_of") == i:
            same = q.get("goal_share") == "same"
            if "goal_of" in gone:
                q.update(goal_of=gone["goal_of"], goal_share="same" if same and gone.get("goal_share") == "same" else "equal")
            elif heir is None:
                heir = (k, same)
                q.pop("goal_of"), q.pop("goal_share", None)
            else:
                q.update(goal_of=heir[0], goal_share="same" if same and heir[1] else "equal")
        if q.get("goal_of", -1) > i:
            q["goal_of"] -= 1
        out.append(q)
    return out


LOOSE_KINDS = ["area", "areaborder", "matrix", "network",
               "points", "shape", "state", "trajectory", "occupancy", "setpred", "trajpred", "stopline", "lanelet", "sign", "light",
               "obstacle", "goal", "problem"]


def gen_light_shape(r):
    """TrafficLight.shape: optional Rectangle (housing; default centre (0, 0), body frame)."""
    if r.random() < 0.6:
        return None
    return {"k": "rect", "l": r.choice([0.3, 0.5]), "w": r.choice([0.9, 1.2]), "c": [0.0, 0.0], "th": 0.0}


def gen_loose(r, kind, a):
    if kind in ("points", "matrix", "areaborder"):
        return {"kind": kind, "v": [_pt(r) for _ in range(r.randint(1 if kind != "areaborder" else 2, 5))]}
    if kind == "area":
        return {"kind": kind, "v": r.choice([None, []]) if r.random() < 0.2 else
                [[_pt(r) for _ in range(r.randint(2, 4))] for _ in range(r.randint(1, 3))]}
    if kind == "network":
        return {"kind": kind, "v": [gen_lanelet(r, 950 + i) for i in range(r.randint(1, 3))], "ctor": r.choice(["from_list", "from_network", "add"])}
    if kind == "shape":
        return {"kind": kind, "v": gen_shape(r, a=a)}
    if kind == "state":
        st = gen_state(r, None, r.randint(0, 9), a)
        if st["cls"] == "CustomState" and r.random() < 0.4:
            st.pop(r.choice(["ori", "pos"]), None)
        k = r.random()
        if k < 0.10 and "pos" in st:
            st["pos_other"] = True           # position given as a tuple: the TypeError branch
            st["pos"] = _pt(r)
        elif k < 0.20 and "ori" in st:
            st["ori_other"] = True           # orientation given as a string: the TypeError branch
        return {"kind": kind, "v": st}
    if kind in ("trajectory", "trajpred"):
        sts, t0 = gen_state_list(r, a)
        return {"kind": kind, "v": sts, "shape": gen_body_shape(r)}
    if kind == "occupancy":
        return {"kind": kind, "v": {"t": r.randint(0, 5), "sh": gen_shape(r, a=a)}}
    if kind == "setpred":
        return {"kind": kind, "v": [{"t": i + 1, "sh": gen_shape(r, a=a)} for i in range(r.choice([0, 1, 2, 3, 4]))]}
    if kind == "stopline":
        return {"kind": kind, "v": [_pt(r), _pt(r)]}
    if kind == "lanelet":
        return {"kind": kind, "v": gen_lanelet(r, 900)}
    if kind == "sign":
        return {"kind": kind, "v": _pt(r)}
    if kind == "light":
        return {"kind": kind, "v": {"pos": _pt(r), "shape": gen_light_shape(r)}}
    if kind == "obstacle":
        return {"kind": kind, "v": gen_obstacle(r, 901, a)}
    if kind == "goal":
        return {"kind": kind, "v": [gen_goal_state(r, a) for _ in range(r.choice([0, 1, 2, 3]))]}
    if kind == "problem":
        return {"kind": kind, "v": gen_problem(r, 902, a)}
    raise ValueError(kind)


A_TYPES = ["float", "float", "float", "np.float64", "np.int64"]      # (np.float32 angles: float32 arithmetic is the caller's choice)


def gen_dims(r, a, valid):
    """The history / value-class dimensions of one case (see DIMENSIONS['histories'])."""
    d = {"ints": r.random() < 0.12, "utm": r.random() < 0.12, "alias": r.random() < 0.15, "mutate": r.random() < 0.2,
         "warm": r.random() < 0.35, "fail_first": valid and r.random() < 0.12, "a_type": r.choice(A_TYPES),
         "t_type": r.choice(["f64", "f64", "f64", "f32"]), "list_add": r.random() < 0.3}
    if d["ints"]:
        d["utm"] = False
    if valid and r.random() < 0.3:
        d["step2"] = {"a": gen_angle_valid(r), "t": gen_translation(r)}
    return d


def gen_angle_valid(r):
    a = gen_angle(r)
    while not (-TAU() <= a <= TAU()):
        a = gen_angle(r)
    return a


def gen_case(ctx):
    import numpy as np
    r = ctx.rng
    a = gen_angle(r)
    t = gen_translation(r)
    valid = -TAU() <= a <= TAU()
    dims = gen_dims(r, a, valid)
    if dims["a_type"] == "np.float32":
        a = float(np.float32(a)) if abs(float(np.float32(a))) <= TAU() or not valid else a
    if dims["a_type"] == "np.int64" and not isinstance(a, int):
        dims["a_type"] = "np.float64"
    if dims["t_type"] == "f32" and not t.get("int"):
        t = {"v": [float(np.float32(x)) for x in t["v"]], "int": False}
    _G["ints"], _G["off"] = dims["ints"], ((r.choice([4.5e5, 6.9e5]), r.choice([5.3e6, 5.9e6])) if dims["utm"] else (0.0, 0.0))
    try:
        return _gen_case_body(r, a, t, valid, dims)
    finally:
        _G["ints"], _G["off"] = False, (0.0, 0.0)


def _gen_case_body(r, a, t, valid, dims):
    mode = r.choice(["whole", "whole", "network", "parts"]) if valid else "whole"
    nl = r.choice([0, 1, 1, 2, 3, 4])
    lanelets = [gen_lanelet(r, 1 + i) for i in range(nl)]
    signs = [{"id": 100 + i, "pos": _pt(r), "lanelet": r.randint(1, nl)} for i in range(r.choice([0, 1, 2]))] if nl else []
    lights = [{"id": 200 + i, "pos": _pt(r), "lanelet": r.randint(1, nl), "shape": gen_light_shape(r)}
              for i in range(r.choice([0, 1, 2]))] if nl else []
    if dims["alias"] and nl:
        # equal values that the builder turns into ONE shared array object: a sign, a light and a stop-line end on the same point
        q = list(lanelets[0]["r"][-1])
        signs.append({"id": 150, "pos": list(q), "lanelet": 1})
        lights.append({"id": 250, "pos": list(q), "lanelet": 1, "shape": None})
        lanelets[0]["stop"] = [list(q), list(lanelets[0]["l"][-1])]
    obstacles = [gen_obstacle(r, 300 + i, a) for i in range(r.choice([0, 1, 2, 3, 5]))]
    areas = [{"id": 700, "borders": r.choice([None, [], None]) if r.random() < 0.2 else
              [[_pt(r) for _ in range(r.randint(2, 4))] for _ in range(r.randint(1, 2))]}] if r.random() < 0.25 else []
    problems = [gen_problem(r, 500 + i, a) for i in range(r.choice([0, 1, 1, 2]))]
    loose = [gen_loose(r, k, a) for k in r.sample(LOOSE_KINDS, r.choice([1, 2, 3]))]
    if dims["alias"]:
        # the same Shape object in two occupancies / two goal states
        for o in obstacles:
            if o.get("occ") and len(o["occ"]) >= 2:
                o["occ"][1]["sh"] = copy.deepcopy(o["occ"][0]["sh"])
        for pr in problems:
            if len(pr["goal"]) >= 2 and "pos" in pr["goal"][0]:
                pr["goal"][1]["pos"] = copy.deepcopy(pr["goal"][0]["pos"])
    problems += gen_problem_twins(r, problems, a)        # (after the alias edits: a twin's goal values stay EQUAL to its original's)
    return {"a": a, "t": t, "mode": mode, "dims": dims,
            "scenario": {"lanelets": lanelets, "signs": signs, "lights": lights, "obstacles": obstacles, "areas": areas},
            "problems": problems, "loose": loose}


def gen_probe_case(ctx):
    """Every coordinate is one of -t, -t+e1, -t+e2 (t dyadic, so the sums are exact): each moved coordinate is then exactly one of
    0, +-cos a, +-sin a and is compared to 4 eps (|t| = 0: exactly)."""
    r = ctx.rng
    a = gen_angle(r)
    while not (-TAU() <= a <= TAU()):
        a = gen_angle(r)
    t = [0.0, 0.0] if r.random() < 0.5 else [r.randint(-64, 64) / 16.0, r.randint(-64, 64) / 16.0]
    P = [[-t[0], -t[1]], [-t[0] + 1.0, -t[1]], [-t[0], -t[1] + 1.0]]
    p = lambda: list(r.choice(P))  # noqa
    tri = {"k": "poly", "v": [P[0], P[2], P[1]]}      # clockwise
    shape = lambda: r.choice([{"k": "rect", "l": 2.0, "w": 1.0, "c": p(), "th": 0.25}, {"k": "circ", "r": 1.0, "c": p()}, tri,  # noqa
                              {"k": "group", "s": [{"k": "circ", "r": 1.0, "c": q} for q in P]}])
    region = lambda: r.choice([{"k": "rect", "l": 2.0, "w": 1.0, "c": p(), "th": 0.25}, {"k": "circ", "r": 1.0, "c": p()}, tri])  # noqa
    ks = lambda i: {"cls": "KSState", "t": 1 + i, "pos": list(P[i]), "ori": 0.5, "v": 1.0}  # noqa
    lanelet = lambda lid: {"id": lid, "l": [P[0], P[1]], "c": [P[1], P[2]], "r": [P[2], P[0]], "stop": [P[1], P[2]]}  # noqa
    init = lambda: {"cls": "InitialState", "t": 0, "pos": p(), "ori": 0.5, "v": 1.0, "full": True}  # noqa
    obstacles = [
        {"k": "static", "id": 300, "shape": gen_body_shape(r), "st": init()},
        {"k": "dynamic", "id": 301, "shape": gen_body_shape(r), "st": init(), "traj": [ks(0), ks(1), ks(2)]},
        {"k": "dynamic", "id": 302, "shape": gen_body_shape(r), "st": dict(init(), pos=region()), "occ": [{"t": 1, "sh": shape()}, {"t": 2, "sh": tri}]},
        {"k": "phantom", "id": 303, "occ": [{"t": 0, "sh": shape()}]},
        {"k": "env", "id": 304, "sh": r.choice([tri, {"k": "circ", "r": 1.0, "c": p()}])},
    ]
    goal = [{"cls": "CustomState", "t": [0, 9], "pos": shape()}, {"cls": "CustomState", "t": [0, 9], "pos": tri}]
    loose = [{"kind": "points", "v": [list(q) for q in P]}, {"kind": "shape", "v": shape()}, {"kind": "stopline", "v": [P[1], P[2]]},
             {"kind": "state", "v": {"cls": "PMState", "t": 0, "pos": p(), "vx": 1.0, "vy": 0.0}},
             {"kind": "trajectory", "v": [ks(0), ks(1), ks(2)], "shape": gen_body_shape(r)}, {"kind": "lanelet", "v": lanelet(900)},
             {"kind": "sign", "v": p()}, {"kind": "light", "v": p()}, {"kind": "occupancy", "v": {"t": 0, "sh": shape()}},
             {"kind": "setpred", "v": [{"t": 1, "sh": shape()}]}]
    return {"a": a, "t": {"v": t, "int": False}, "mode": r.choice(["whole", "network", "parts"]), "probe": True,
            "scenario": {"lanelets": [lanelet(1)], "signs": [{"id": 100 + i, "pos": list(P[i]), "lanelet": 1} for i in range(3)],
                         "lights": [{"id": 200 + i, "pos": list(P[i]), "lanelet": 1} for i in range(3)], "obstacles": obstacles},
            "problems": (lambda ps: ps + gen_problem_twins(r, ps, a, p=0.4, same_init=True))([{"id": 500, "init": init(), "goal": goal}]),
            "loose": r.sample(loose, 4)}


# ------------------------------------------------------------------------------------------------ build real objects

# build-time switches of the current case (histories): int-typed arrays, shared objects, construct-then-set, list form of add
_B = {"ints": False, "alias": False, "mutate": False, "list_add": False, "cache": {}}
DECOY = [123.0, -77.0]


def _arr(p):
    import numpy as np
    key = None
    if _B["alias"] and p and not isinstance(p[0], list):
        key = ("arr", tuple(p))
        if key in _B["cache"]:
            return _B["cache"][key]
    flat = p if not p or not isinstance(p[0], list) else [v for q in p for v in q]
    a = np.array(p, dtype=int) if _B["ints"] and flat and all(float(v).is_integer() for v in flat) else np.array(p, dtype=float)
    if key:
        _B["cache"][key] = a
    return a


def build_shape(spec):
    from commonroad.geometry.shape import Circle, Polygon, Rectangle, ShapeGroup
    key = ("shape", json.dumps(spec, sort_keys=True))
    if _B["alias"] and key in _B["cache"]:
        return _B["cache"][key]
    k = spec["k"]
    if k == "rect" and spec.get("dflt"):
        sh = Rectangle(spec["l"], spec["w"])
    elif k == "circ" and spec.get("dflt"):
        sh = Circle(spec["r"])
    elif k == "rect" and _B["mutate"]:
        sh = Rectangle(1.0, 1.0, _arr(DECOY), 0.5)          # constructed with other values, then set attribute by attribute
        sh.length, sh.width, sh.center, sh.orientation = spec["l"], spec["w"], _arr(spec["c"]), spec["th"]
    elif k == "rect":
        sh = Rectangle(spec["l"], spec["w"], _arr(spec["c"]), spec["th"])
    elif k == "circ" and _B["mutate"]:
        sh = Circle(1.0, _arr(DECOY))
        sh.radius, sh.center = spec["r"], _arr(spec["c"])
    elif k == "circ":
        sh = Circle(spec["r"], _arr(spec["c"]))
    elif k == "poly":
        sh = Polygon(_arr(spec["v"]))
    else:
        sh = ShapeGroup([build_shape(s) for s in spec["s"]])
    if _B["alias"]:
        _B["cache"][key] = sh
    return sh


def build_state(st):
    import commonroad.scenario.state as S
    from commonroad.common.util import AngleInterval, Interval
    cls = getattr(S, st["cls"])
    t = st["t"]
    kw = {"time_step": Interval(t[0], t[1]) if isinstance(t, list) else t}
    if "pos" in st:
        kw["position"] = build_shape(st["pos"]) if isinstance(st["pos"], dict) else _arr(st["pos"])
        if st.get("pos_other"):
            kw["position"] = tuple(st["pos"])
    if "ori" in st:
        kw["orientation"] = AngleInterval(st["ori"][0], st["ori"][1]) if isinstance(st["ori"], list) else st["ori"]
        if st.get("ori_other"):
            kw["orientation"] = "north"
    if st["cls"] == "PMState":
        kw["velocity"], kw["velocity_y"] = st["vx"], st["vy"]
    elif "v" in st and st["cls"] not in ("InputState", "LateralState"):
        kw["velocity"] = st["v"]
    if "vi" in st:
        kw["velocity"] = Interval(st["vi"][0], st["vi"][1])
    if st.get("full"):
        kw.update(yaw_rate=0.0, slip_angle=0.0)
    if st["cls"] == "KSState":
        kw["steering_angle"] = 0.0
    if st["cls"] == "KSTState":
        kw["hitch_angle"] = 0.25          # a RELATIVE angle (truck - trailer): must stay as it is
    if st["cls"] in ("STState", "MBState", "STDState"):
        kw["yaw_rate"] = 0.125
    if _B["mutate"] and "position" in kw and st["cls"] != "CustomState":
        pos = kw.pop("position")
        obj = cls(position=_arr(DECOY), **kw)           # assigned after construction
        obj.position = pos
        return obj
    return cls(**kw)


def build_lanelet(la):
    from commonroad.scenario.lanelet import Lanelet, LineMarking, StopLine
    sl = None
    if la.get("stop") and _B["mutate"]:
        sl = StopLine(_arr(DECOY), _arr(DECOY), LineMarking.SOLID)
        sl.start, sl.end = _arr(la["stop"][0]), _arr(la["stop"][1])
    elif la.get("stop"):
        sl = StopLine(_arr(la["stop"][0]), _arr(la["stop"][1]), LineMarking.SOLID)
    if _B["mutate"] and sl is not None:
        lanelet = Lanelet(_arr(la["l"]), _arr(la["c"]), _arr(la["r"]), la["id"])
        lanelet.stop_line = sl
        return lanelet
    return Lanelet(_arr(la["l"]), _arr(la["c"]), _arr(la["r"]), la["id"], stop_line=sl)


def build_sign(s):
    from commonroad.scenario.traffic_sign import TrafficSign, TrafficSignElement, TrafficSignIDGermany
    if _B["mutate"]:
        ts = TrafficSign(s["id"], [TrafficSignElement(TrafficSignIDGermany.MAX_SPEED, ["30"])], {s.get("lanelet", 1)}, _arr(DECOY))
        ts.position = _arr(s["pos"])
        return ts
    return TrafficSign(s["id"], [TrafficSignElement(TrafficSignIDGermany.MAX_SPEED, ["30"])], {s.get("lanelet", 1)}, _arr(s["pos"]))


def build_light(s):
    from commonroad.scenario.traffic_light import TrafficLight
    if _B["mutate"]:
        tl = TrafficLight(s["id"], _arr(DECOY))
        tl.position = _arr(s["pos"])
        tl.shape = build_shape(s["shape"]) if s.get("shape") else None
        return tl
    return TrafficLight(s["id"], _arr(s["pos"]), shape=build_shape(s["shape"]) if s.get("shape") else None)


def build_occs(occ):
    from commonroad.common.util import Interval
    from commonroad.prediction.prediction import Occupancy
    out = []
    for o in occ:
        ts = Interval(o["t"][0], o["t"][1]) if isinstance(o["t"], list) else o["t"]
        if _B["mutate"]:
            from commonroad.geometry.shape import Circle
            oc = Occupancy(ts, Circle(1.0, _arr(DECOY)))
            oc.shape = build_shape(o["sh"])
        else:
            oc = Occupancy(ts, build_shape(o["sh"]))
        out.append(oc)
    return out


def build_trajectory(sts):
    from commonroad.scenario.trajectory import Trajectory
    return Trajectory(sts[0]["t"], [build_state(s) for s in sts])


def build_trajpred(sts, body):
    from commonroad.geometry.shape import Circle
    from commonroad.prediction.prediction import TrajectoryPrediction
    if _B["mutate"]:
        tp = TrajectoryPrediction(build_trajectory(sts), Circle(1.0))
        tp.occupancy_set                                  # fills the cache that the two setters must invalidate
        tp.shape = build_shape(body)
        tp.trajectory = build_trajectory(sts)
        return tp
    return TrajectoryPrediction(build_trajectory(sts), build_shape(body))


def build_setpred(t0, occ):
    from commonroad.prediction.prediction import SetBasedPrediction
    if _B["mutate"]:
        sp = SetBasedPrediction(t0, [])
        sp.occupancy_set = build_occs(occ)
        return sp
    return SetBasedPrediction(t0, build_occs(occ))


def build_obstacle(o):
    from commonroad.prediction.prediction import SetBasedPrediction, TrajectoryPrediction
    from commonroad.scenario.obstacle import (DynamicObstacle, EnvironmentObstacle, ObstacleType, PhantomObstacle, StaticObstacle)
    k = o["k"]
    if k == "static":
        return StaticObstacle(o["id"], ObstacleType.PARKED_VEHICLE, build_shape(o["shape"]), build_state(o["st"]))
    if k == "dynamic":
        pred = None
        if "traj" in o:
            pred = build_trajpred(o["traj"], o["shape"])
        elif "occ" in o:
            pred = build_setpred(1, o["occ"])
        if o.get("updates"):
            # the history arises through the API: start at the oldest state, update_initial_state() up to the current one,
            # then give the prediction back (update_initial_state drops it)
            sts = [build_state(h) for h in o["updates"]] + [build_state(o["st"])]
            ob = DynamicObstacle(o["id"], ObstacleType.CAR, build_shape(o["shape"]), sts[0], pred)
            for st in sts[1:]:
                ob.update_initial_state(st)
            ob.prediction = pred
            return ob
        if _B["mutate"]:
            ob = DynamicObstacle(o["id"], ObstacleType.CAR, build_shape(o["shape"]),
                                 build_state({"cls": "InitialState", "t": o["st"]["t"], "pos": DECOY, "ori": 0.0, "v": 0.0}), None,
                                 history=[build_state(h) for h in o.get("hist", [])])
            ob.occupancy_at_time(o["st"]["t"])
            ob.initial_state = build_state(o["st"])         # setters after construction and after a first query
            ob.prediction = pred
            return ob
        return DynamicObstacle(o["id"], ObstacleType.CAR, build_shape(o["shape"]), build_state(o["st"]), pred,
                               history=[build_state(h) for h in o.get("hist", [])])
    if k == "phantom":
        from commonroad.prediction.prediction import SetBasedPrediction as SBP
        return PhantomObstacle(o["id"], None if o["occ"] is None else build_setpred(0, o["occ"]))
    return EnvironmentObstacle(o["id"], ObstacleType.BUILDING, build_shape(o["sh"]))


def build_goal(goal):
    from commonroad.planning.goal import GoalRegion
    if _B["mutate"]:
        g = GoalRegion([build_state(s) for s in goal[:1]])
        g.state_list = [build_state(s) for s in goal]
        return g
    return GoalRegion([build_state(s) for s in goal])


def build_problem(p, goal=None):
    """`goal`: the GoalRegion OBJECT of another problem that this one holds as well (goal_share 'same')."""
    from commonroad.planning.planning_problem import PlanningProblem
    if _B["mutate"]:
        pp = PlanningProblem(p["id"], build_state(dict(p["init"], pos=DECOY)), build_goal(p["goal"][:1]))
        pp.initial_state = build_state(p["init"])
        pp.goal = goal if goal is not None else build_goal(p["goal"])
        return pp
    return PlanningProblem(p["id"], build_state(p["init"]), goal if goal is not None else build_goal(p["goal"]))


def build_problems(specs):
    out = []
    for p in specs:
        out.append(build_problem(p, out[p["goal_of"]].goal if p.get("goal_share") == "same" else None))
    return out


def build_world(case):
    from commonroad.planning.planning_problem import PlanningProblemSet
    from commonroad.scenario.scenario import Scenario
    sc = Scenario(0.1)
    s = case["scenario"]
    if _B["list_add"]:
        sc.add_objects([build_lanelet(la) for la in s["lanelets"]])        # list form of add_objects
    else:
        for la in s["lanelets"]:
            sc.add_objects(build_lanelet(la))
    for x in s["signs"]:
        sc.add_objects(build_sign(x), {x["lanelet"]})
    for x in s["lights"]:
        sc.add_objects(build_light(x), {x["lanelet"]})
    if _B["list_add"]:
        sc.add_objects([build_obstacle(o) for o in s["obstacles"]])
    else:
        for o in s["obstacles"]:
            sc.add_objects(build_obstacle(o))
    for ar in s.get("areas", []):
        sc.lanelet_network.add_area(build_area(ar["id"], ar["borders"]), set())
    return sc, PlanningProblemSet(build_problems(case["problems"]))


def build_area(aid, borders):
    from commonroad.scenario.area import Area, AreaBorder
    if borders is None:
        return Area(aid)                                  # border omitted (default None)
    bs = []
    for i, b in enumerate(borders):
        if _B["mutate"]:
            ab = AreaBorder(aid + 1 + i, _arr([DECOY, DECOY]))
            ab.border_vertices = _arr(b)
        else:
            ab = AreaBorder(aid + 1 + i, _arr(b))
        bs.append(ab)
    return Area(aid, bs)


def build_loose(lo):
    from commonroad.common.common_lanelet import LineMarking, StopLine
    from commonroad.prediction.prediction import SetBasedPrediction, TrajectoryPrediction
    k, v = lo["kind"], lo["v"]
    if k in ("points", "matrix"):
        return _arr(v)
    if k == "areaborder":
        from commonroad.scenario.area import AreaBorder
        return AreaBorder(961, _arr(v))
    if k == "area":
        return build_area(960, v)
    if k == "network":
        from commonroad.scenario.lanelet import LaneletNetwork
        ls = [build_lanelet(la) for la in v]
        if lo.get("ctor") == "from_list":
            return LaneletNetwork.create_from_lanelet_list(ls)
        net = LaneletNetwork()
        for la in ls:
            net.add_lanelet(la)
        return LaneletNetwork.create_from_lanelet_network(net) if lo.get("ctor") == "from_network" else net
    if k == "shape":
        return build_shape(v)
    if k == "state":
        return build_state(v)
    if k == "trajectory":
        return build_trajectory(v)
    if k == "trajpred":
        return build_trajpred(v, lo["shape"])
    if k == "occupancy":
        return build_occs([v])[0]
    if k == "setpred":
        return build_setpred(1, v)
    if k == "stopline":
        return StopLine(_arr(v[0]), _arr(v[1]), LineMarking.SOLID)
    if k == "lanelet":
        return build_lanelet(v)
    if k == "sign":
        return build_sign({"id": 990, "pos": v})
    if k == "light":
        return build_light({"id": 991, "pos": v, "shape": None} if isinstance(v, list) else {"id": 991, "pos": v["pos"], "shape": v.get("shape")})
    if k == "obstacle":
        return build_obstacle(v)
    if k == "goal":
        return build_goal(v)
    if k == "problem":
        return build_problem(v)
    raise ValueError(k)


# ------------------------------------------------------------------------------------------------ snapshots (public accessors)

def _p(a):
    return [float(a[0]), float(a[1])]


def _num(x):
    """numpy scalars -> python numbers of the same value (JSON-able)."""
    import numpy as np
    if isinstance(x, (bool, np.bool_)):
        return bool(x)
    if isinstance(x, (int, np.integer)):
        return int(x)
    return float(x)


def _ps(arr):
    return [[float(x), float(y)] for x, y in arr]


# ---- attribute table: EVERY attribute of the classes below that holds spatial content (numpy arrays, shapes, states, angle
# intervals, shapely geometries, other commonroad objects, or containers of those), with one decision each:
#   moved   world frame, moved by translate_rotate          -> field of the Lean record, in `obs`, checked by correspondence + oracle
#   part    container of components that are walked themselves
#   body    body frame (dimensions only / relative to the object) -> field of the Lean record, must stay unchanged (checked)
#   cache   derived from moved attributes (re-created by translate_rotate or recomputed lazily) -> checked as derived geometry
#   none    not spatial (ids, time, velocity intervals, meta data)
# The reflection pass (`reflect_world`) walks every object reachable from the scenario, the planning-problem set and the loose
# objects of a case; an attribute with spatial content that the table does not list stops the run (exit 2): the record of the
# Lean model is complete w.r.t. the Python classes as long as this pass is silent.
ATTR_TABLE = {
    "Rectangle": {"_center": "moved", "_vertices": "cache", "_Rectangle__shapely_polygon": "cache"},
    "Circle": {"_center": "moved", "_shapely_circle": "cache"},
    "Polygon": {"_vertices": "moved", "_min": "cache", "_max": "cache", "_shapely_polygon": "cache"},
    "ShapeGroup": {"_shapes": "part"},
    "State": {"position": "moved", "orientation": "moved"},            # every State subclass; PMState: velocity, velocity_y (floats)
    "Trajectory": {"_state_list": "part"},
    "Occupancy": {"_shape": "moved"},
    "SetBasedPrediction": {"_occupancy_set": "part"},
    "TrajectoryPrediction": {"_trajectory": "part", "_shape": "body", "occupancy_set": "cache"},
    "Lanelet": {"_left_vertices": "moved", "_center_vertices": "moved", "_right_vertices": "moved", "_stop_line": "part",
                "_polygon": "moved", "_distance": "cache", "_inner_distance": "cache"},
    "StopLine": {"_start": "moved", "_end": "moved"},
    "TrafficSign": {"_position": "moved", "_traffic_sign_elements": "none"},
    "TrafficLight": {"_position": "moved", "_shape": "body", "_traffic_light_cycle": "none"},
    "Area": {"_border": "part"},
    "AreaBorder": {"_border_vertices": "moved"},
    "LaneletNetwork": {"_lanelets": "part", "_traffic_signs": "part", "_traffic_lights": "part", "_areas": "part",
                       "_intersections": "none", "_information": "none", "_buffered_polygons": "cache", "_strtee": "cache"},
    "StaticObstacle": {"_initial_state": "part", "_obstacle_shape": "body", "_initial_occupancy_shape": "cache",
                       "_initial_signal_state": "none", "_signal_series": "none"},
    "DynamicObstacle": {"_initial_state": "part", "_prediction": "part", "_obstacle_shape": "body",
                        "_initial_occupancy_shape": "cache", "history": "part", "signal_history": "none",
                        "_initial_signal_state": "none", "_signal_series": "none",
                        "_initial_meta_information_state": "none", "_meta_information_series": "none"},
    "PhantomObstacle": {"_prediction": "part"},
    "EnvironmentObstacle": {"_obstacle_shape": "moved"},
    "Scenario": {"_lanelet_network": "part", "_static_obstacles": "part", "_dynamic_obstacles": "part",
                 "_phantom_obstacle": "part", "_environment_obstacle": "part", "scenario_id": "none", "location": "none",
                 "_environment": "none"},
    "GoalRegion": {"_state_list": "part"},
    "PlanningProblem": {"_initial_state": "part", "_goal_region": "part"},
    "PlanningProblemSet": {"_planning_problem_dict": "part"},
}
NON_SPATIAL_CLASSES = {"Interval", "ScenarioID", "MapInformation", "Time", "TrafficSignElement", "SignalState", "Location",
                       "Environment", "GeoTransformation", "TrafficLightCycle", "TrafficLightCycleElement", "Tag",
                       "MetaInformationState", "Intersection", "IncomingGroup", "OutgoingGroup", "CrossingGroup"}


def _spatial_kind(v, depth=0):
    """None, or a description of the spatial content of an attribute value."""
    import enum
    import numpy as np
    if isinstance(v, np.ndarray):
        return "ndarray"
    mod = type(v).__module__ or ""
    if mod.startswith("shapely"):
        return "shapely"
    if mod.startswith("commonroad") and not isinstance(v, (type, enum.Enum)):
        return None if type(v).__name__ in NON_SPATIAL_CLASSES else type(v).__name__
    if depth < 3 and isinstance(v, (list, tuple, set, frozenset, dict)):
        for x in (list(v.values()) if isinstance(v, dict) else list(v))[:8]:
            k = _spatial_kind(x, depth + 1)
            if k:
                return f"[{k}]"
    return None


def reflect_world(roots):
    """Walk every commonroad object reachable from `roots`; every attribute with spatial content must be in ATTR_TABLE."""
    from commonroad.scenario.state import State
    seen = set()
    stack = list(roots)
    while stack:
        o = stack.pop()
        if id(o) in seen:
            continue
        seen.add(id(o))
        if isinstance(o, (list, tuple, set, frozenset)):
            stack.extend(o)
            continue
        if isinstance(o, dict):
            stack.extend(o.values())
            continue
        if not (type(o).__module__ or "").startswith("commonroad"):
            continue
        try:
            attrs = vars(o)
        except TypeError:
            continue
        name = "State" if isinstance(o, State) else type(o).__name__
        table = ATTR_TABLE.get(name)
        for k, v in attrs.items():
            kind = _spatial_kind(v)
            if kind is None:
                continue
            if table is None:
                if name in NON_SPATIAL_CLASSES:
                    continue
                raise InfraError(f"C05 reflection: class {name} (attribute {k}: {kind}) is not in the attribute table")
            if k not in table:
                raise InfraError(f"C05 reflection: {name}.{k} holds {kind}; the attribute table has no decision for it")
            if table[k] != "none":
                stack.append(v)


def reflect(obj):
    """kept for the snapshot functions: the complete walk is `reflect_world` (run_case)."""
    return None


def snap_shape(sh):
    from commonroad.geometry.shape import Circle, Polygon, Rectangle, ShapeGroup
    reflect(sh)
    if isinstance(sh, Rectangle):
        return {"k": "rect", "l": _num(sh.length), "w": _num(sh.width), "c": _p(sh.center), "th": _num(sh.orientation)}
    if isinstance(sh, Circle):
        return {"k": "circ", "r": _num(sh.radius), "c": _p(sh.center)}
    if isinstance(sh, Polygon):
        return {"k": "poly", "v": _ps(sh.vertices)}
    if isinstance(sh, ShapeGroup):
        return {"k": "group", "s": [snap_shape(s) for s in sh.shapes]}
    raise InfraError(f"snapshot: unknown shape class {type(sh).__name__}")


def snap_state(st):
    reflect(st)
    import numpy as np
    from commonroad.common.util import AngleInterval
    from commonroad.geometry.shape import Shape
    from commonroad.scenario.state import PMState
    out = {"pos": None, "ori": None, "vel": None}
    pos = getattr(st, "position", None)
    if pos is not None:
        out["pos"] = {"sh": snap_shape(pos)} if isinstance(pos, Shape) else \
            {"pt": _p(pos)} if isinstance(pos, np.ndarray) else {"other": True}
    if isinstance(st, PMState):
        if isinstance(st.velocity, (int, float, np.number)) and isinstance(st.velocity_y, (int, float, np.number)):
            out["vel"] = [float(st.velocity), float(st.velocity_y)]
    else:
        ori = getattr(st, "orientation", None)
        if isinstance(ori, AngleInterval):
            out["ori"] = {"iv": [_num(ori.start), _num(ori.end)]}
        elif isinstance(ori, (int, float, np.number)) and not isinstance(ori, bool):
            out["ori"] = {"x": _num(ori)}
        elif ori is not None:
            out["ori"] = {"other": True}
    return out


def snap_lanelet(la):
    reflect(la)
    sl = la.stop_line
    if sl is not None:
        reflect(sl)
    return {"l": _ps(la.left_vertices), "c": _ps(la.center_vertices), "r": _ps(la.right_vertices),
            "stop": None if sl is None else [_p(sl.start), _p(sl.end)], "poly": _ps(la.polygon.vertices)}


def snap_obstacle(o):
    from commonroad.prediction.prediction import SetBasedPrediction, TrajectoryPrediction
    from commonroad.scenario.obstacle import DynamicObstacle, EnvironmentObstacle, PhantomObstacle, StaticObstacle
    reflect(o)
    if getattr(o, "prediction", None) is not None:
        reflect(o.prediction)
        for c in (o.prediction.occupancy_set if isinstance(o.prediction, SetBasedPrediction) else []):
            reflect(c)
    if isinstance(o, StaticObstacle):
        return {"k": "static", "body": snap_shape(o.obstacle_shape), "st": snap_state(o.initial_state)}
    if isinstance(o, DynamicObstacle):
        p = o.prediction
        return {"k": "dynamic", "body": snap_shape(o.obstacle_shape), "st": snap_state(o.initial_state),
                "traj": [snap_state(s) for s in p.trajectory.state_list] if isinstance(p, TrajectoryPrediction) else None,
                "pbody": snap_shape(p.shape) if isinstance(p, TrajectoryPrediction) else None,
                "occ": [snap_shape(c.shape) for c in p.occupancy_set] if isinstance(p, SetBasedPrediction) else None,
                "hist": [snap_state(h) for h in o.history]}
    if isinstance(o, PhantomObstacle):
        return {"k": "phantom", "occ": None if o.prediction is None else [snap_shape(c.shape) for c in o.prediction.occupancy_set]}
    if isinstance(o, EnvironmentObstacle):
        return {"k": "env", "sh": snap_shape(o.obstacle_shape)}
    raise InfraError(f"snapshot: unknown obstacle class {type(o).__name__}")


def snap_scenario(sc):
    net = sc.lanelet_network
    obs = sorted(sc.obstacles, key=lambda o: o.obstacle_id)
    return {"lanelets": [snap_lanelet(la) for la in sorted(net.lanelets, key=lambda x: x.lanelet_id)],
            "signs": [_p(s.position) for s in sorted(net.traffic_signs, key=lambda x: (reflect(x), x.traffic_sign_id)[1])],
            "lights": [snap_light(s) for s in sorted(net.traffic_lights, key=lambda x: x.traffic_light_id)],
            "obstacles": [snap_obstacle(o) for o in obs], "areas": snap_areas(sc)}


def snap_light(tl):
    return {"p": _p(tl.position), "lsh": None if tl.shape is None else snap_shape(tl.shape)}


def snap_areas(sc):
    """Area borders of the lanelet network (world frame; moved by LaneletNetwork.translate_rotate since 00d3698)."""
    return [[_ps(b.border_vertices) for b in (ar.border or [])] for ar in sorted(sc.lanelet_network.areas, key=lambda x: x.area_id)]


def snap_problem(pp):
    reflect(pp)
    return {"init": snap_state(pp.initial_state), "goal": [snap_state(s) for s in pp.goal.state_list]}


def snap_problems(pps):
    return [snap_problem(pps.planning_problem_dict[k]) for k in sorted(pps.planning_problem_dict)]


def snap_problem_set(pps):
    """The set as the OBJECTS it is made of (CR.Rigid.ProblemSet): one `goals` entry per GoalRegion object (by identity, in the
    order of first occurrence), every problem with its initial state and the index of the goal-region object it holds."""
    goals, objs, probs = [], [], []
    for k in sorted(pps.planning_problem_dict):
        pp = pps.planning_problem_dict[k]
        idx = next((i for i, g in enumerate(objs) if g is pp.goal), None)
        if idx is None:
            idx = len(objs)
            objs.append(pp.goal)
            goals.append([snap_state(s) for s in pp.goal.state_list])
        probs.append({"init": snap_state(pp.initial_state), "goal": idx})
    return {"goals": goals, "problems": probs}


def snap_loose(kind, obj):
    if kind in ("points", "matrix"):
        return _ps(obj)
    if kind == "areaborder":
        return _ps(obj.border_vertices)
    if kind == "area":
        return [_ps(b.border_vertices) for b in (obj.border or [])]
    if kind == "network":
        return {"lanelets": [snap_lanelet(la) for la in sorted(obj.lanelets, key=lambda x: x.lanelet_id)], "signs": [], "lights": [],
                "obstacles": [], "areas": []}
    if kind == "shape":
        return snap_shape(obj)
    if kind == "state":
        return snap_state(obj)
    if kind == "trajectory":
        return [snap_state(s) for s in obj.state_list]
    if kind == "trajpred":
        return {"pbody": snap_shape(obj.shape), "traj": [snap_state(s) for s in obj.trajectory.state_list]}
    if kind == "occupancy":
        return snap_shape(obj.shape)
    if kind == "setpred":
        return [snap_shape(c.shape) for c in obj.occupancy_set]
    if kind == "stopline":
        return [_p(obj.start), _p(obj.end)]
    if kind == "lanelet":
        return snap_lanelet(obj)
    if kind == "sign":
        return _p(obj.position)
    if kind == "light":
        return snap_light(obj)
    if kind == "obstacle":
        return snap_obstacle(obj)
    if kind == "goal":
        return [snap_state(s) for s in obj.state_list]
    if kind == "problem":
        return snap_problem(obj)
    raise ValueError(kind)


# derived geometry read through further public accessors (compared by the oracle only, relative 1e-9)

def derived_shape(sh, out, path):
    from commonroad.geometry.shape import Circle, Polygon, Rectangle, ShapeGroup
    if isinstance(sh, Rectangle):
        out["pts"].append((path + "/vertices", _ps(sh.vertices)))
        out["area"].append((path + "/area", sh.shapely_object.area))
    elif isinstance(sh, Polygon):
        out["pts"].append((path + "/center", [_p(sh.center)]))
        out["area"].append((path + "/area", sh.shapely_object.area))
    elif isinstance(sh, Circle) and not _B["mutate"]:       # (Circle keeps its construction-time shapely disc when center is set)
        out["pts"].append((path + "/shapely-centroid", [_p(sh.shapely_object.centroid.coords[0])]))
    elif isinstance(sh, ShapeGroup):
        for i, s in enumerate(sh.shapes):
            derived_shape(s, out, f"{path}/{i}")


def derived_state(st, out, path):
    from commonroad.geometry.shape import Shape
    from commonroad.scenario.state import PMState
    pos = getattr(st, "position", None)
    if isinstance(pos, Shape):
        derived_shape(pos, out, path + "/position")
    if isinstance(st, PMState) and st.orientation is not None and math.hypot(st.velocity, st.velocity_y) > 1e-6:
        out["ang"].append((path + "/pm-orientation", st.orientation))


def derived_lanelet(la, out, path):
    import numpy as np
    out["len"].append((path + "/distance", float(la.distance[-1])))
    out["len"].append((path + "/inner_distance", float(la.inner_distance[-1])))
    c = la.center_vertices
    out["len"].append((path + "/center-length", float(np.sum(np.linalg.norm(np.diff(c, axis=0), axis=1)))))
    out["area"].append((path + "/polygon-area", la.polygon.shapely_object.area))


def derived_obstacle(o, out, path, fresh):
    """`fresh` is a deep copy whose caches are cold (see ASSUMPTIONS): occupancies are read from it."""
    from commonroad.prediction.prediction import TrajectoryPrediction
    from commonroad.scenario.obstacle import DynamicObstacle, EnvironmentObstacle, PhantomObstacle, StaticObstacle
    if isinstance(o, (StaticObstacle, DynamicObstacle)):
        derived_state(o.initial_state, out, path + "/initial_state")
        occ = fresh.occupancy_at_time(o.initial_state.time_step)
        if occ is not None and not (o.initial_state.is_uncertain_position or o.initial_state.is_uncertain_orientation):
            derived_occ(occ.shape, out, f"{path}/occupancy@{o.initial_state.time_step}")
        elif occ is not None:
            out["dimset"].append((f"{path}/enclosing-occupancy", [occ.shape.length, occ.shape.width]))
            out["pts"].append((f"{path}/enclosing-occupancy/center", [_p(occ.shape.center)]))
    if isinstance(o, DynamicObstacle) and isinstance(o.prediction, TrajectoryPrediction):
        for s in o.prediction.trajectory.state_list:
            derived_state(s, out, f"{path}/traj@{s.time_step}")
            occ = fresh.occupancy_at_time(s.time_step)
            if occ is not None:
                derived_occ(occ.shape, out, f"{path}/occupancy@{s.time_step}")
    if isinstance(o, EnvironmentObstacle):
        derived_shape(o.obstacle_shape, out, path + "/shape")
        derived_occ(o.occupancy_at_time(0).shape, out, path + "/occupancy@0")
    if isinstance(o, PhantomObstacle) and o.prediction is not None:
        for c in o.prediction.occupancy_set:
            derived_shape(c.shape, out, f"{path}/occ@{c.time_step}")


def derived_occ(sh, out, path):
    from commonroad.geometry.shape import Circle, Polygon, Rectangle, ShapeGroup
    if isinstance(sh, Rectangle):
        out["pts"].append((path, _ps(sh.vertices)))
    elif isinstance(sh, Polygon):
        out["pts"].append((path, _ps(sh.vertices)))
    elif isinstance(sh, Circle):
        out["pts"].append((path, [_p(sh.center)]))
    elif isinstance(sh, ShapeGroup):
        for i, s in enumerate(sh.shapes):
            derived_occ(s, out, f"{path}/{i}")


def lanelet_lookup(net):
    """Relative configuration through the public spatial query: for the midpoint of the first center-line segment of every
    lanelet, the ids find_lanelet_by_position reports (only where the point is not within 1e-6 of any lanelet boundary)."""
    import numpy as np
    import shapely.geometry as sg
    out = []
    las = sorted(net.lanelets, key=lambda x: x.lanelet_id)
    for la in las:
        c = np.asarray(la.center_vertices, dtype=float)
        p = (c[0] + c[1]) / 2
        pt = sg.Point(p[0], p[1])
        try:
            if min(x.polygon.shapely_object.exterior.distance(pt) for x in las) < 1e-6:
                continue
            out.append((f"lanelet{la.lanelet_id}", sorted(net.find_lanelet_by_position([p])[0])))
        except Exception as e:  # noqa  invalid polygons etc.: the lookup itself is not this property's subject
            continue
    return out


def warm_world(sc, pps, loose_objs):
    """Read-only queries BEFORE the motion: every lazily computed / cached attribute is materialised (see DIMENSIONS)."""
    import numpy as np
    from commonroad.geometry.shape import Rectangle, Shape
    from commonroad.prediction.prediction import TrajectoryPrediction
    from commonroad.scenario.lanelet import Lanelet, LaneletNetwork
    from commonroad.scenario.obstacle import DynamicObstacle, StaticObstacle

    def warm(o):
        if isinstance(o, Lanelet):
            o.distance, o.inner_distance, o.polygon.shapely_object, o.polygon.center
        elif isinstance(o, LaneletNetwork):
            for la in o.lanelets:
                warm(la)
                o.find_lanelet_by_position([np.asarray(la.center_vertices[0], dtype=float)])
            o.lanelet_polygons if hasattr(o, "lanelet_polygons") else None
        elif isinstance(o, Rectangle):
            o.vertices, o.shapely_object
        elif isinstance(o, Shape):
            getattr(o, "shapely_object", None)
        elif isinstance(o, TrajectoryPrediction):
            o.occupancy_set
        elif isinstance(o, (StaticObstacle, DynamicObstacle)):
            o.occupancy_at_time(o.initial_state.time_step)
            if isinstance(o, DynamicObstacle) and isinstance(o.prediction, TrajectoryPrediction):
                o.prediction.occupancy_set
                for s in o.prediction.trajectory.state_list:
                    o.occupancy_at_time(s.time_step)
    warm(sc.lanelet_network)
    for o in sc.obstacles:
        warm(o)
    for o in loose_objs:
        warm(o)


def world_states(sc, pps, loose, loose_objs):
    """(label, state) of every state object of the world, in a fixed order."""
    from commonroad.prediction.prediction import TrajectoryPrediction
    from commonroad.scenario.obstacle import DynamicObstacle, StaticObstacle
    out = []

    def obst(o, path):
        if isinstance(o, (StaticObstacle, DynamicObstacle)):
            out.append((path + "/initial_state", o.initial_state))
        if isinstance(o, DynamicObstacle):
            out.extend((f"{path}/history[{i}]", h) for i, h in enumerate(o.history))
            if isinstance(o.prediction, TrajectoryPrediction):
                out.extend((f"{path}/traj[{i}]", h) for i, h in enumerate(o.prediction.trajectory.state_list))
    for o in sorted(sc.obstacles, key=lambda x: x.obstacle_id):
        obst(o, f"obstacle{o.obstacle_id}")

    def prob(pp, path):
        out.append((path + "/initial_state", pp.initial_state))
        out.extend((f"{path}/goal[{i}]", h) for i, h in enumerate(pp.goal.state_list))
    for k in sorted(pps.planning_problem_dict):
        prob(pps.planning_problem_dict[k], f"problem{k}")
    for i, (lo, o) in enumerate(zip(loose, loose_objs)):
        if o is None:
            continue
        path, kind = f"loose{i}:{lo['kind']}", lo["kind"]
        if kind == "state":
            out.append((path, o))
        elif kind == "trajectory":
            out.extend((f"{path}[{j}]", h) for j, h in enumerate(o.state_list))
        elif kind == "trajpred":
            out.extend((f"{path}[{j}]", h) for j, h in enumerate(o.trajectory.state_list))
        elif kind == "obstacle":
            obst(o, path)
        elif kind == "goal":
            out.extend((f"{path}[{j}]", h) for j, h in enumerate(o.state_list))
        elif kind == "problem":
            prob(o, path)
    return out


def state_scalars(sc, pps, loose, loose_objs):
    """Everything a state stores besides position / orientation (and the velocity vector of a PMState): time step, velocity,
    acceleration, yaw rate, slip angle, steering angle, HITCH ANGLE (a relative angle), ... and the state's class."""
    from commonroad.scenario.state import PMState
    out = []
    for label, st in world_states(sc, pps, loose, loose_objs):
        skip = {"position", "orientation"} | ({"velocity", "velocity_y"} if isinstance(st, PMState) else set())
        out.append((label, type(st).__name__, sorted((k, repr(v)) for k, v in vars(st).items() if k not in skip)))
    return out


def derived_world(sc, pps, loose_objs, case):
    out = {"pts": [], "ang": [], "len": [], "area": [], "dimset": []}
    net = sc.lanelet_network
    for la in sorted(net.lanelets, key=lambda x: x.lanelet_id):
        derived_lanelet(la, out, f"lanelet{la.lanelet_id}")
    for o in sorted(sc.obstacles, key=lambda x: x.obstacle_id):
        derived_obstacle(o, out, f"obstacle{o.obstacle_id}", o if _B["warm"] else copy.deepcopy(o))
    # (part by part the lanelets are moved behind the network's back: its spatial index cannot follow, index maintenance is C11)
    out["loc"] = lanelet_lookup(net) if case.get("mode") != "parts" else None
    for k in sorted(pps.planning_problem_dict):
        pp = pps.planning_problem_dict[k]
        derived_state(pp.initial_state, out, f"problem{k}/initial_state")
        for i, s in enumerate(pp.goal.state_list):
            derived_state(s, out, f"problem{k}/goal{i}")
    for i, (lo, obj) in enumerate(zip(case["loose"], loose_objs)):
        kind, path = lo["kind"], f"loose{i}:{lo['kind']}"
        if obj is None:
            continue
        if kind == "shape":
            derived_shape(obj, out, path)
        elif kind == "state":
            derived_state(obj, out, path)
        elif kind == "lanelet":
            derived_lanelet(obj, out, path)
        elif kind == "obstacle":
            derived_obstacle(obj, out, path, obj if _B["warm"] else copy.deepcopy(obj))
        elif kind == "occupancy":
            derived_shape(obj.shape, out, path)
        elif kind == "trajpred":
            fresh = obj if _B["warm"] else copy.deepcopy(obj)
            for s in obj.trajectory.state_list:
                occ = fresh.occupancy_at_time_step(s.time_step)
                if occ is not None:
                    derived_occ(occ.shape, out, f"{path}/occupancy@{s.time_step}")
        elif kind in ("trajectory",):
            for s in obj.state_list:
                derived_state(s, out, f"{path}@{s.time_step}")
    return out


# ------------------------------------------------------------------------------------------------ applying the motion

def apply_world(sc, pps, t, a, mode):
    """Returns None or ('<call site>', exception)."""
    def run(site, obj, *args):
        try:
            return obj.translate_rotate(*args), None
        except Exception as e:  # noqa
            return None, (site, e)

    if mode == "whole":
        _, err = run("Scenario.translate_rotate", sc, t, a)
        if err:
            return err
        _, err = run("PlanningProblemSet.translate_rotate", pps, t, a)
        return err
    if mode == "network":
        _, err = run("LaneletNetwork.translate_rotate", sc.lanelet_network, t, a)
        if err:
            return err
        for o in sc.obstacles:
            _, err = run(f"{type(o).__name__}.translate_rotate", o, t, a)
            if err:
                return err
        seen = []          # a caller who moves the problems one by one moves a goal-region object that two of them hold once
        for pp in pps.planning_problem_dict.values():
            if any(pp.goal is g for g in seen):
                st, err = run(f"{type(pp.initial_state).__name__}.translate_rotate", pp.initial_state, t, a)
                if err:
                    return err
                pp.initial_state = st
                continue
            seen.append(pp.goal)
            _, err = run("PlanningProblem.translate_rotate", pp, t, a)
            if err:
                return err
        return None
    net = sc.lanelet_network
    for la in net.lanelets:
        _, err = run("Lanelet.translate_rotate", la, t, a)
        if err:
            return err
    for s in net.traffic_signs:
        _, err = run("TrafficSign.translate_rotate", s, t, a)
        if err:
            return err
    for s in net.traffic_lights:
        _, err = run("TrafficLight.translate_rotate", s, t, a)
        if err:
            return err
    for ar in net.areas:
        for b in ar.border or []:
            _, err = run("AreaBorder.translate_rotate", b, t, a)
            if err:
                return err
    from commonroad.scenario.obstacle import DynamicObstacle, PhantomObstacle, StaticObstacle
    for o in sc.obstacles:
        if isinstance(o, (StaticObstacle, DynamicObstacle)):
            # part by part: the prediction, then the initial state through its own translate_rotate
            if isinstance(o, DynamicObstacle) and o.prediction is not None:
                _, err = run(f"{type(o.prediction).__name__}.translate_rotate", o.prediction, t, a)
                if err:
                    return err
            st, err = run(f"{type(o.initial_state).__name__}.translate_rotate", o.initial_state, t, a)
            if err:
                return err
            o.initial_state = st
            if isinstance(o, DynamicObstacle):
                hist = []
                for h in o.history:
                    st, err = run(f"{type(h).__name__}.translate_rotate", h, t, a)
                    if err:
                        return err
                    hist.append(st)
                o.history = hist
        elif isinstance(o, PhantomObstacle) and o.prediction is not None:
            for c in o.prediction.occupancy_set:
                _, err = run("Occupancy.translate_rotate", c, t, a)
                if err:
                    return err
        else:
            _, err = run(f"{type(o).__name__}.translate_rotate", o, t, a)
            if err:
                return err
    seen = []
    for pp in pps.planning_problem_dict.values():
        st, err = run(f"{type(pp.initial_state).__name__}.translate_rotate", pp.initial_state, t, a)
        if err:
            return err
        pp.initial_state = st
        if any(pp.goal is g for g in seen):
            continue
        seen.append(pp.goal)
        _, err = run("GoalRegion.translate_rotate", pp.goal, t, a)
        if err:
            return err
    return None


def apply_loose(kind, obj, t, a):
    """Returns (moved object, None) or (None, (site, exception))."""
    try:
        if kind == "points":
            from commonroad.geometry.transform import translate_rotate
            return translate_rotate(obj, t, a), None
        if kind == "matrix":
            # the other public entry point of transform.py: the homogeneous matrix applied by hand (as Lanelet / StopLine do)
            import numpy as np
            from commonroad.geometry.transform import from_homogeneous_coordinates, to_homogeneous_coordinates, translation_rotation_matrix
            m = translation_rotation_matrix(t, a)
            return from_homogeneous_coordinates(m.dot(to_homogeneous_coordinates(np.asarray(obj, dtype=float)).transpose()).transpose()), None
        if kind in ("shape", "state"):
            return obj.translate_rotate(t, a), None
        obj.translate_rotate(t, a)
        return obj, None
    except Exception as e:  # noqa
        site = "transform.translate_rotate" if kind == "points" else "transform.translation_rotation_matrix" if kind == "matrix" \
            else f"{type(obj).__name__}.translate_rotate"
        return None, (site, e)


# ------------------------------------------------------------------------------------------------ comparing trees

ANGLE_KEYS = {"th", "x"}


def to_rat(tree):
    """floats -> 'n/d' strings (wire format); structure kept."""
    if isinstance(tree, dict):
        return {k: to_rat(v) for k, v in tree.items()}
    if isinstance(tree, list):
        return [to_rat(v) for v in tree]
    if isinstance(tree, bool) or tree is None or isinstance(tree, str):
        return tree
    return rat(tree)


class Cmp:
    """Snap the implementation tree to the model tree: a number of the implementation that equals the model's number up to the
    rounding allowance is replaced by the model's number (so equal trees = agreement), anything else is kept."""

    def __init__(self, scale, tau, k=64):
        self.coord_tol = k * EPS * scale
        self.ang_tol = 1e-13
        self.tau = tau

    def num(self, impl, model, tol):
        try:
            m = unrat(model)
        except Exception:  # noqa
            return rat(impl)
        return model if abs(frac(impl) - m) <= tol else rat(impl)

    def angle(self, impl, model):
        try:
            m = unrat(model)
        except Exception:  # noqa
            return rat(impl)
        d = frac(impl) - m
        tau = frac(self.tau)
        inside = -tau <= frac(impl) <= tau
        for k in (-1, 0, 1):
            if abs(d - k * tau) <= self.ang_tol and inside:
                return model
        return rat(impl)

    def tree(self, impl, model, key=None):
        if isinstance(impl, dict) and isinstance(model, dict) and set(impl) == set(model):
            if key == "ori" and "iv" in impl and "iv" in model:
                return {"iv": self.interval(impl["iv"], model["iv"])}
            dims = ("l", "w", "r") if impl.get("k") in ("rect", "circ") else ()
            return {k: (self.num(impl[k], model[k], 0) if k in dims and isinstance(model[k], str) else self.tree(impl[k], model[k], k))
                    for k in impl}
        if isinstance(impl, list) and isinstance(model, list) and len(impl) == len(model):
            return [self.tree(x, y, None) for x, y in zip(impl, model)]
        if isinstance(impl, (int, float)) and not isinstance(impl, bool) and isinstance(model, str):
            if key in ANGLE_KEYS:
                return self.angle(impl, model)
            return self.num(impl, model, self.coord_tol)
        return to_rat(impl)

    def interval(self, impl, model):
        try:
            mlo, mhi = unrat(model[0]), unrat(model[1])
        except Exception:  # noqa
            return to_rat(impl)
        tau = frac(self.tau)
        dlo, dhi = frac(impl[0]) - mlo, frac(impl[1]) - mhi
        ok = -tau <= frac(impl[0]) <= frac(impl[1]) <= tau
        for k in (-1, 0, 1):
            if ok and abs(dlo - k * tau) <= self.ang_tol and abs(dhi - k * tau) <= self.ang_tol:
                return list(model)
        return to_rat(impl)


def case_scale(case, trees):
    m = [1.0, abs(float(case["t"]["v"][0])) + abs(float(case["t"]["v"][1]))]

    def walk(x):
        if isinstance(x, dict):
            for v in x.values():
                walk(v)
        elif isinstance(x, list):
            for v in x:
                walk(v)
        elif isinstance(x, (int, float)) and not isinstance(x, bool):
            m.append(abs(float(x)))
    walk(trees)
    return m[1] + 2 * max(m[2:] + [1.0]) + 1.0


# ------------------------------------------------------------------------------------------------ oracle (independent of the model)

def leaves(tree, path, out, key=None):
    """Flatten a snapshot into labelled leaves: ('pt', path, [x, y]) ('ang', path, th) ('iv', path, [lo, hi]) ('dim', path, v)
    ('vel', path, [vx, vy])."""
    if isinstance(tree, dict):
        if "iv" in tree and key == "ori":
            out.append(("iv", path, tree["iv"]))
            return
        for k, v in tree.items():
            if k == "k":
                continue
            if k in ANGLE_KEYS:
                out.append(("ang", f"{path}/{k}", v))
            elif k in ("l", "w", "r") and tree.get("k") in ("rect", "circ"):
                out.append(("dim", f"{path}/{k}", v))
            elif k == "vel":
                if v is not None:
                    out.append(("vel", f"{path}/vel", v))
            else:
                leaves(v, f"{path}/{k}", out, k)
    elif isinstance(tree, list):
        if len(tree) == 2 and all(isinstance(x, (int, float)) and not isinstance(x, bool) for x in tree):
            out.append(("pt", path, tree))
        else:
            for i, v in enumerate(tree):
                leaves(v, f"{path}[{i}]", out, key)
    return out


def rigid(c, s, t, p):
    x, y = frac(p[0]) + t[0], frac(p[1]) + t[1]
    return (c * x - s * y, s * x + c * y)


def ang_close(got, want, tau, tol):
    d = frac(got) - want
    k = round(d / tau)
    return abs(d - k * tau) <= tol


LEFT_KEYS = {"body", "pbody", "lsh"}      # snapshot keys of the attributes with decision 'body' (must stay unchanged)


def strip(tree):
    """the snapshot without the body-frame attributes (ATTR_TABLE: body), which translate_rotate must not move."""
    if isinstance(tree, dict):
        return {k: strip(v) for k, v in tree.items() if k not in LEFT_KEYS}
    if isinstance(tree, list):
        return [strip(v) for v in tree]
    return tree


def collect(tree, keys, path, out):
    """(path, subtree) of every occurrence of one of `keys`."""
    if isinstance(tree, dict):
        for k, v in tree.items():
            if k in keys:
                out.append((f"{path}/{k}", v))
            else:
                collect(v, keys, f"{path}/{k}", out)
    elif isinstance(tree, list):
        for i, v in enumerate(tree):
            collect(v, keys, f"{path}[{i}]", out)
    return out


def replace_at(tree, keys, new_values):
    """copy of `tree` with the occurrences of `keys` (in `collect` order) replaced by `new_values`."""
    it = iter(new_values)

    def go(t):
        if isinstance(t, dict):
            return {k: (next(it) if k in keys else go(v)) for k, v in t.items()}
        if isinstance(t, list):
            return [go(v) for v in t]
        return t
    return go(tree)


class Oracle:
    def __init__(self, ctx, case, sub):
        self.ctx, self.case, self.sub = ctx, case, sub
        self.a = case["a"]
        self.t = (frac(case["t"]["v"][0]), frac(case["t"]["v"][1]))
        self.c, self.s = frac(math.cos(self.a)), frac(math.sin(self.a))
        self.tau = frac(TAU())
        self.tn = abs(self.t[0]) + abs(self.t[1])
        self.k = 4 if case.get("probe") else 64       # probe cases: every sum p + t is exact, (cos, sin) are read back to 4 eps

    def fail(self, site, obs, what):
        self.ctx.fail(f"C05/{site}/{obs}", what, self.sub(site))

    def point(self, site, path, before, after):
        want = rigid(self.c, self.s, self.t, before)
        tol = self.k * frac(EPS) * (1 + self.tn + abs(frac(before[0])) + abs(frac(before[1])))
        if abs(frac(after[0]) - want[0]) > tol or abs(frac(after[1]) - want[1]) > tol:
            self.fail(site, "point-not-R(a)(p+t)",
                      f"{path}: p={before} t={self.case['t']['v']} a={self.a!r}: got {after}, R(a)(p+t) = "
                      f"[{float(want[0])!r}, {float(want[1])!r}]")
            return False
        return True

    def stored(self, site, before, after):
        """every stored point -> R(a)(p+t); every orientation -> th + a as an angle, within [-2pi, 2pi]; dimensions unchanged."""
        lb, la = [], []
        leaves(before, "", lb)
        leaves(after, "", la)
        if [(k, p) for k, p, _ in lb] != [(k, p) for k, p, _ in la]:
            self.fail(site, "structure-changed", f"components before {[(k, p) for k, p, _ in lb][:6]}... after {[(k, p) for k, p, _ in la][:6]}...")
            return
        for (kind, path, b), (_, _, x) in zip(lb, la):
            if kind == "pt":
                if not self.point(site, path, b, x):
                    return
            elif kind == "ang":
                if not (-self.tau <= frac(x) <= self.tau):
                    self.fail(site, "orientation-outside-[-2pi,2pi]", f"{path}: {b!r} + {self.a!r} -> {x!r}")
                    return
                if not ang_close(x, frac(b) + frac(self.a), self.tau, Fraction(1, 10 ** 13)):
                    self.fail(site, "orientation-not-th+a", f"{path}: th={b!r} a={self.a!r}: got {x!r}")
                    return
                if abs(float(b) + float(self.a)) > float(self.tau):
                    self.ctx.tag("wrap/crossed")
            elif kind == "iv":
                lo_ok = ang_close(x[0], frac(b[0]) + frac(self.a), self.tau, Fraction(1, 10 ** 13))
                same = abs((frac(x[1]) - frac(x[0])) - (frac(b[1]) - frac(b[0]))) <= Fraction(1, 10 ** 13)
                if not (lo_ok and same and -self.tau <= frac(x[0]) <= frac(x[1]) <= self.tau):
                    self.fail(site, "orientation-interval-not-shifted", f"{path}: [{b[0]!r}, {b[1]!r}] + {self.a!r} -> [{x[0]!r}, {x[1]!r}]")
                    return
            elif kind == "dim":
                if b != x:
                    self.fail(site, "dimension-changed", f"{path}: {b!r} -> {x!r}")
                    return
            elif kind == "vel":
                want = (self.c * frac(b[0]) - self.s * frac(b[1]), self.s * frac(b[0]) + self.c * frac(b[1]))
                tol = 64 * frac(EPS) * (1 + abs(frac(b[0])) + abs(frac(b[1])))
                if abs(frac(x[0]) - want[0]) > tol or abs(frac(x[1]) - want[1]) > tol:
                    self.fail(site, "pm-velocity-not-rotated", f"{path}: v={b} a={self.a!r}: got {x}")
                    return

    def is_moved(self, before, after):
        """True iff the snapshot subtree `after` is the rigid image of `before` (points, angles; quiet)."""
        lb, la = [], []
        leaves(before, "", lb)
        leaves(after, "", la)
        if [(k, p) for k, p, _ in lb] != [(k, p) for k, p, _ in la]:
            return False
        for (kind, _, b), (_, _, x) in zip(lb, la):
            if kind == "pt":
                want = rigid(self.c, self.s, self.t, b)
                tol = 64 * frac(EPS) * (1 + self.tn + abs(frac(b[0])) + abs(frac(b[1])))
                if abs(frac(x[0]) - want[0]) > tol or abs(frac(x[1]) - want[1]) > tol:
                    return False
            elif kind == "ang":
                if not ang_close(x, frac(b) + frac(self.a), self.tau, Fraction(1, 10 ** 13)):
                    return False
        return True

    def goal_twins(self, site, specs, before, after):
        """Problems whose goal region equals (by value) or IS that of another problem of the set: each of them shows the rigid
        image of the goal it showed before.  On top of the generic point check this has failure keys of its own, so that 'one of
        several equal goal regions left in place' and 'a goal region that two problems hold not moved exactly once' are named."""
        linked = {}
        for k, p in enumerate(specs):
            if "goal_of" in p:
                for i in (k, p["goal_of"]):
                    linked[i] = linked.get(i, False) or p.get("goal_share") == "same"
        for k in sorted(linked):
            b, x = strip(before[k]["goal"]), strip(after[k]["goal"])
            if self.is_moved(b, x):
                continue
            obs = "shared-goal-region-not-moved-exactly-once" if linked[k] else \
                "equal-goal-region-not-moved" if x == b else "equal-goal-region-not-the-rigid-image"
            links = "; ".join(f"{q['id']} holds " + ("the same goal-region object as " if q.get("goal_share") == "same" else
                                                       "a goal region equal to that of ") + str(specs[q["goal_of"]]["id"])
                              for q in specs if "goal_of" in q)
            self.fail(site, obs, f"problem {specs[k]['id']} ({links}): goal {json.dumps(b)[:160]} -> {json.dumps(x)[:160]} "
                                 f"(t={self.case['t']['v']}, a={self.a!r})")
            return

    def areas_and_history(self, before, after):
        """Area borders and obstacle histories (left in place by trees before 00d3698 / 6df6dd6) are world-frame fields like any
        other; on top of the generic point check they get a failure key of their own, so that a regression is named."""
        for (path, b), (_, x) in zip(collect(before, {"hist", "areas"}, "", []), collect(after, {"hist", "areas"}, "", [])):
            if not any(k in ("pt", "ang") for k, _, _ in leaves(b, "", [])) or self.is_moved(b, x):
                continue
            what = "history" if path.endswith("/hist") else "area-border"
            site = "DynamicObstacle.translate_rotate" if what == "history" else "LaneletNetwork.translate_rotate"
            self.fail(site, what + ("-not-moved" if x == b else "-changed-but-not-rigidly"),
                      f"{path}: {json.dumps(b)[:140]} -> {json.dumps(x)[:140]} (t={self.case['t']['v']}, a={self.a!r})")

    def scalars(self, site, before, after):
        """a state keeps its class and everything it stores besides position / orientation (/ PM velocity vector)."""
        if [(l, c) for l, c, _ in before] != [(l, c) for l, c, _ in after]:
            self.fail(site, "state-class-or-structure-changed", f"{[(l, c) for l, c, _ in before][:4]} vs {[(l, c) for l, c, _ in after][:4]}")
            return
        for (label, _, b), (_, _, x) in zip(before, after):
            if b != x:
                diff = [(p, q) for p, q in zip(b, x) if p != q][:3] or [(b[:3], x[:3])]
                self.fail(site, "state-scalar-changed", f"{label}: {diff}")
                return

    def bodies(self, site, before, after):
        """body-frame shapes (obstacle_shape, TrajectoryPrediction.shape, TrafficLight.shape) must stay exactly as they are."""
        for (path, b), (_, x) in zip(collect(before, {"body", "pbody", "lsh"}, "", []), collect(after, {"body", "pbody", "lsh"}, "", [])):
            if b != x:
                self.fail(site, "body-frame-shape-changed", f"{path}: {json.dumps(b)[:120]} -> {json.dumps(x)[:120]}")
                return

    def consequences(self, site, before, after, S):
        """pairwise distances preserved (relative 1e-9)."""
        lb, la = [], []
        leaves(before, "", lb)
        leaves(after, "", la)
        pb = [b for k, _, b in lb if k == "pt"]
        pa = [b for k, _, b in la if k == "pt"]
        if len(pb) != len(pa) or len(pb) < 2:
            return
        r = self.ctx.rng
        n = len(pb)
        pairs = [(i, j) for i in range(n) for j in range(i + 1, n)] if n <= 12 else [(r.randrange(n), r.randrange(n)) for _ in range(60)]
        for i, j in pairs:
            d0 = math.dist(pb[i], pb[j])
            d1 = math.dist(pa[i], pa[j])
            if abs(d0 - d1) > 1e-9 * max(1.0, S):
                self.fail(site, "pairwise-distance-changed", f"|p{i} p{j}| = {d0!r} before, {d1!r} after (a={self.a!r})")
                return

    def derived(self, site, before, after, S):
        tol = 1e-9 * max(1.0, S)
        for key in ("pts", "ang", "len", "area", "dimset"):
            if [p for p, _ in before[key]] != [p for p, _ in after[key]]:
                self.fail(site, "derived-structure-changed", f"{key}: {[p for p, _ in before[key]][:5]} vs {[p for p, _ in after[key]][:5]}")
                return
        for (path, b), (_, x) in zip(before["pts"], after["pts"]):
            if len(b) != len(x):
                self.fail(site, "derived-points-changed", f"{path}: {len(b)} points before, {len(x)} after")
                return
            for p, q in zip(b, x):
                w = rigid(self.c, self.s, self.t, p)
                if abs(float(w[0]) - q[0]) > tol or abs(float(w[1]) - q[1]) > tol:
                    self.fail(site, "derived-point-not-moved-rigidly", f"{path}: {p} -> {q}, rigid image [{float(w[0])!r}, {float(w[1])!r}]")
                    return
        for (path, b), (_, x) in zip(before["ang"], after["ang"]):
            if not ang_close(x, frac(b) + frac(self.a), self.tau, Fraction(1, 10 ** 9)):
                self.fail(site, "derived-orientation-not-th+a", f"{path}: {b!r} + {self.a!r} -> {x!r}")
                return
        for (path, b), (_, x) in zip(before["len"], after["len"]):
            if abs(b - x) > 1e-9 * max(1.0, abs(b), S):
                self.fail(site, "length-changed", f"{path}: {b!r} -> {x!r}")
                return
        for (path, b), (_, x) in zip(before["area"], after["area"]):
            if abs(b - x) > 1e-9 * max(1.0, abs(b), S):
                self.fail(site, "area-changed", f"{path}: {b!r} -> {x!r}")
                return
        if before.get("loc") is not None and after.get("loc") is not None:
            a_ = dict(after["loc"])
            for path, ids in before["loc"]:
                if path in a_ and a_[path] != ids:
                    self.fail(site, "lanelet-lookup-changed", f"find_lanelet_by_position at the (moved) center point of {path}: "
                                                              f"{ids} before, {a_[path]} after")
                    return
        for (path, b), (_, x) in zip(before["dimset"], after["dimset"]):
            if any(abs(p - q) > 1e-6 * max(1.0, abs(p)) for p, q in zip(b, x)):
                self.fail(site, "enclosing-occupancy-dimensions-changed", f"{path}: {b} -> {x}")
                return

    def restored(self, site, original, back, S):
        """undoing the motion restores the original (1e-9 relative to the scale; angles mod 2pi)."""
        lb, la = [], []
        leaves(original, "", lb)
        leaves(back, "", la)
        if [(k, p) for k, p, _ in lb] != [(k, p) for k, p, _ in la]:
            self.fail(site, "inverse-structure-changed", "component structure differs after undoing the motion")
            return
        tol = 1e-9 * max(1.0, S)
        for (kind, path, b), (_, _, x) in zip(lb, la):
            bad = False
            if kind in ("pt", "vel"):
                bad = abs(b[0] - x[0]) > tol or abs(b[1] - x[1]) > tol
            elif kind == "ang":
                bad = not ang_close(x, frac(b), self.tau, Fraction(1, 10 ** 9))
            elif kind == "iv":
                bad = not ang_close(x[0], frac(b[0]), self.tau, Fraction(1, 10 ** 9)) or abs((x[1] - x[0]) - (b[1] - b[0])) > 1e-9
            elif kind == "dim":
                bad = b != x
            if bad:
                self.fail(site, "inverse-does-not-restore", f"{path}: original {b}, after motion and inverse motion {x} (a={self.a!r})")
                return


# ------------------------------------------------------------------------------------------------ one case

def tag_case(ctx, case):
    a, t = case["a"], case["t"]
    tau = TAU()
    aa = abs(a)
    if aa > tau:
        ctx.tag("angle/out-of-range")
    elif a == 0:
        ctx.tag("angle/zero")
    elif aa < 1e-4:
        ctx.tag("angle/tiny", "angle/small<=0.05")
    elif aa <= 0.05:
        ctx.tag("angle/small<=0.05")
    if 0.0499 <= aa <= 0.0501:
        ctx.tag("angle/0.05-edge")
    if aa > 0 and abs(aa / (PI / 2) - round(aa / (PI / 2))) < 1e-12:
        ctx.tag("angle/quarter-turn")
    if abs(aa - tau) < 1e-6:
        ctx.tag("angle/full-turn")
    if 0.06 < aa < tau - 0.01:
        ctx.tag("angle/generic")
    tv = t["v"]
    if tv[0] == 0 and tv[1] == 0:
        ctx.tag("t/zero")
    elif all(float(x) * 16 == int(float(x) * 16) for x in tv):
        ctx.tag("t/dyadic")
    else:
        ctx.tag("t/float")
    ctx.tag("mode/" + case["mode"])
    if case.get("probe"):
        ctx.tag("probe")
    s = case["scenario"]
    if any(la.get("stop") for la in s["lanelets"]):
        ctx.tag("lanelet/stop-line")
    if any(la.get("own_center") for la in s["lanelets"]):
        ctx.tag("lanelet/own-center-line")
    if any(o.get("updates") for o in s["obstacles"]):
        ctx.tag("obst/update_initial_state")
    if any(ar.get("borders") in (None, []) for ar in s.get("areas", [])):
        ctx.tag("area/no-border")
    if s["signs"]:
        ctx.tag("sign")
    if s["lights"]:
        ctx.tag("light")
    if any(x.get("shape") for x in s["lights"]):
        ctx.tag("light/shape")
    if s.get("areas"):
        ctx.tag("area")
    if any(o.get("hist") for o in s["obstacles"]):
        ctx.tag("history")
    if case["problems"]:
        ctx.tag("problem")
    for sh, tag in (("equal", "problem/equal-goal-regions"), ("same", "problem/shared-goal-region")):
        if any(p.get("goal_share") == sh for p in case["problems"]):
            ctx.tag(tag)

    def tag_state(st):
        ctx.tag("state/" + st["cls"])
        if isinstance(st.get("pos"), dict):
            ctx.tag("state/uncertain-pos")
        if isinstance(st.get("ori"), list):
            ctx.tag("state/uncertain-ori")

    def tag_obst(o):
        k = o["k"]
        if k == "dynamic":
            k = "dynamic-traj" if "traj" in o else "dynamic-set" if "occ" in o else "dynamic-none"
        ctx.tag("obst/" + k)
        if "shape" in o and body_asymmetry(o["shape"]) > 0.05 and case["a"] != 0:
            ctx.tag("body/asymmetric-polygon")
        if "st" in o:
            tag_state(o["st"])
        for st in o.get("traj", []):
            tag_state(st)

    for o in s["obstacles"]:
        tag_obst(o)
    for p in case["problems"]:
        for st in p["goal"]:
            tag_state(st)
    for lo in case["loose"]:
        ctx.tag("loose/" + lo["kind"])
        if lo["kind"] == "state":
            tag_state(lo["v"])
        elif lo["kind"] in ("trajectory", "trajpred"):
            for st in lo["v"]:
                tag_state(st)
        elif lo["kind"] == "obstacle":
            tag_obst(lo["v"])


def sub_case(case, site):
    """The part of the case a failure at `site` needs for its replay (whole case: kept small by the generator)."""
    return case


def place_ties(ctx, case, sc, S, tau, when):
    """Correspondence for the occupancy of polygon-shaped obstacles (Polygon.rotate_translate_local via
    occupancy_shape_from_state): occupancy_at_time(initial time step) vs CR.Rigid.placePolygon on the body polygon's ring, its
    centroid, the state's position and (cos, sin) of its orientation."""
    import numpy as np
    from commonroad.geometry.shape import Polygon
    from commonroad.scenario.obstacle import DynamicObstacle, StaticObstacle
    for o in sorted(sc.obstacles, key=lambda x: x.obstacle_id):
        if not isinstance(o, (StaticObstacle, DynamicObstacle)) or not isinstance(o.obstacle_shape, Polygon):
            continue
        st = o.initial_state
        if st.is_uncertain_position or st.is_uncertain_orientation or not isinstance(st.orientation, (int, float, np.number)):
            continue
        occ = o.occupancy_at_time(st.time_step)
        if occ is None or not isinstance(occ.shape, Polygon):
            continue
        th = float(st.orientation)
        args = {"ct": rat(math.cos(th)), "st": rat(math.sin(th)), "o": to_rat(_p(o.obstacle_shape.center)),
                "pos": to_rat(_p(st.position)), "ring": to_rat(_ps(o.obstacle_shape.shapely_object.exterior.coords))}
        model = ctx.driver.ask("C05", "place", args)
        impl = _ps(occ.shape.vertices)
        imp = {"ok": Cmp(S, tau, 256).tree(impl, model.get("ok"))} if "ok" in model else {"ok": to_rat(impl)}
        ctx.tag("tie/place")
        ctx.compare({"a": case["a"], "t": case["t"], "when": when, "obstacle": o.obstacle_id, "place": args}, imp, model,
                    "occupancy_at_time of a polygon-shaped obstacle vs CR.Rigid.placePolygon")


MODEL_KIND = {"network": "scenario", "matrix": "points"}      # loose kinds answered by another kind's model function


def _call_angle(a, a_type):
    import numpy as np
    if a_type == "np.float64":
        return np.float64(a)
    if a_type == "np.float32":
        return np.float32(a) if float(np.float32(a)) == float(a) else a
    if a_type == "np.int64" and isinstance(a, int):
        return np.int64(a)
    return a


def _call_translation(tinfo, t_type):
    import numpy as np
    if tinfo.get("int"):
        return np.array(tinfo["v"], dtype=int)
    if t_type == "f32" and all(float(np.float32(x)) == float(x) for x in tinfo["v"]):
        return np.array(tinfo["v"], dtype=np.float32)
    return np.array(tinfo["v"], dtype=float)


def run_case(ctx, case):
    ctx.case(case)
    tag_case(ctx, case)
    dims = case.get("dims", {})
    _B.update(ints=bool(dims.get("ints")), alias=bool(dims.get("alias")), mutate=bool(dims.get("mutate")),
              list_add=bool(dims.get("list_add")), warm=bool(dims.get("warm")), cache={})
    try:
        _run_case(ctx, case, dims)
    finally:
        _B.update(ints=False, alias=False, mutate=False, list_add=False, warm=False, cache={})


def _run_case(ctx, case, dims):
    try:
        sc, pps = build_world(case)
        loose_objs = [build_loose(lo) for lo in case["loose"]]
    except Exception as e:  # noqa  the generator only emits constructible objects
        raise InfraError(f"C05 generator produced an object the library cannot construct: {type(e).__name__}: {e}; case {json.dumps(case)[:600]}")
    for k in ("ints", "utm", "alias", "mutate", "warm", "fail_first", "list_add"):
        if dims.get(k):
            ctx.tag("dim/" + k)
    ctx.tag("dim/a_type/" + dims.get("a_type", "float"), "dim/t_type/" + dims.get("t_type", "f64"))
    if dims.get("warm"):
        warm_world(sc, pps, loose_objs)          # read-only queries before the observation
    tau = TAU()
    if dims.get("fail_first") and -tau <= case["a"] <= tau:
        # a call that FAILS (angle outside [-2pi, 2pi]: AssertionError) precedes the motion; whatever it leaves is the baseline
        t0 = _call_translation(case["t"], "f64")
        apply_world(sc, pps, t0, 7.0, case["mode"])
        for lo, o in zip(case["loose"], loose_objs):
            apply_loose(lo["kind"], o, t0, 7.0)
    steps = [(case["a"], case["t"], dims.get("a_type"), dims.get("t_type"))]
    if dims.get("step2"):
        steps.append((dims["step2"]["a"], dims["step2"]["t"], None, None))
        ctx.tag("dim/step2")
    loose = list(case["loose"])
    for si, (a, tinfo, a_type, t_type) in enumerate(steps):
        step_case = dict(case, a=a, t=tinfo, loose=loose)
        moved = _one_step(ctx, case, step_case, sc, pps, loose_objs, _call_angle(a, a_type), _call_translation(tinfo, t_type),
                          last=(si == len(steps) - 1), step=si)
        if moved is None:
            return
        keep = [i for i, m in enumerate(moved) if m is not None]
        loose, loose_objs = [loose[i] for i in keep], [moved[i] for i in keep]


def _one_step(ctx, full_case, case, sc, pps, loose_objs, a_call, t, last, step):
    """One motion (a, t) applied to the world as it is now: correspondence + oracle.  Returns the moved loose objects, or None
    when the world could not be moved (nothing further to observe)."""
    import numpy as np
    a = case["a"]
    tv = case["t"]["v"]
    tau = TAU()
    valid = -tau <= a <= tau
    orc = Oracle(ctx, case, lambda site: sub_case(full_case, site))

    # ---- before
    reflect_world([sc, pps, loose_objs])
    pset = snap_problem_set(pps)          # which problems hold ONE goal-region object is part of what the model is given
    pset = {"goals": to_rat(pset["goals"]), "problems": [{"init": to_rat(q["init"]), "goal": q["goal"]} for q in pset["problems"]]}
    before = {"scenario": snap_scenario(sc), "problems": snap_problems(pps),
              "loose": [snap_loose(lo["kind"], o) for lo, o in zip(case["loose"], loose_objs)]}
    inadm = [lo["kind"] == "state" and bool(lo["v"].get("pos_other") or lo["v"].get("ori_other")) for lo in case["loose"]]
    dbefore = derived_world(sc, pps, [None if x else o for x, o in zip(inadm, loose_objs)], case) if valid else None
    sbefore = state_scalars(sc, pps, case["loose"], [None if x else o for x, o in zip(inadm, loose_objs)])
    S = case_scale(case, before)
    place_ties(ctx, case, sc, S, tau, "before")

    # ---- the motion
    werr = apply_world(sc, pps, t, a_call, case["mode"])
    moved_loose, lerrs = [], []
    for lo, o in zip(case["loose"], loose_objs):
        m, err = apply_loose(lo["kind"], o, t, a_call)
        moved_loose.append(m)
        lerrs.append(err)

    # ---- the model on the same stored values
    objs = [{"kind": "scenario", "v": to_rat(before["scenario"])}, {"kind": "problemset", "v": pset}]
    objs += [{"kind": MODEL_KIND.get(lo["kind"], lo["kind"]), "v": to_rat(b)} for lo, b in zip(case["loose"], before["loose"])]
    margs = {"c": rat(math.cos(a)), "s": rat(math.sin(a)), "a": rat(a), "t": [rat(tv[0]), rat(tv[1])], "tau": rat(tau), "objs": objs}
    model = ctx.driver.ask("C05", "move", margs)

    # ---- after
    cmp_ = Cmp(S, tau, 4 if case.get("probe") else 64)
    after = {"scenario": None, "problems": None, "loose": [None] * len(loose_objs)}
    if werr is None:
        after["scenario"], after["problems"] = snap_scenario(sc), snap_problems(pps)
        impl_w = [{"ok": after["scenario"]}, {"ok": after["problems"]}]
    else:
        # which of the two calls of the mode 'whole' raised decides which answer is the error
        cls = err_class(werr[1])
        if werr[0].startswith("PlanningProblem") or werr[0].startswith("GoalRegion"):
            after["scenario"] = snap_scenario(sc)
            impl_w = [{"ok": after["scenario"]}, {"err": cls}]
        else:
            impl_w = [{"err": cls}, None]
    names = ["Scenario.translate_rotate vs CR.Rigid.Scenario.move", "PlanningProblemSet.translate_rotate vs CR.Rigid.ProblemSet.move (as objects; = moveProblems of the values)"]
    for i in range(2):
        if impl_w[i] is None:
            continue
        imp = {"ok": cmp_.tree(impl_w[i]["ok"], model[i].get("ok"))} if "ok" in impl_w[i] and "ok" in model[i] else \
            ({"ok": to_rat(impl_w[i]["ok"])} if "ok" in impl_w[i] else impl_w[i])
        ctx.compare({"a": a, "t": case["t"], "mode": case["mode"], "step": step, "obj": objs[i]}, imp, model[i], names[i])
    for i, (lo, m, err) in enumerate(zip(case["loose"], moved_loose, lerrs)):
        mo = model[2 + i]
        if err is None:
            after["loose"][i] = snap_loose(lo["kind"], m)
            imp = {"ok": cmp_.tree(after["loose"][i], mo.get("ok"))} if "ok" in mo else {"ok": to_rat(after["loose"][i])}
        else:
            imp = {"err": err_class(err[1])}
        ctx.compare({"a": a, "t": case["t"], "step": step, "obj": objs[2 + i]}, imp, mo, f"{lo['kind']}.translate_rotate vs CR.Rigid model")

    # ---- oracle
    if not valid:
        return None     # the property quantifies over angles in [-2pi, 2pi]; outside only the correspondence speaks
    if werr is not None:
        site, e = werr
        orc.fail(site, f"raises-{type(e).__name__}", f"{site}(t={tv}, a={a!r}) raised {type(e).__name__}: {str(e)[:160]}")
    for lo, err, bad in zip(case["loose"], lerrs, inadm):
        if err is not None and bad:
            ctx.tag("state/other")       # inadmissible state (tuple position / string orientation): outside the property
            continue
        if err is not None:
            site, e = err
            orc.fail(site, f"raises-{type(e).__name__}", f"{site}(t={tv}, a={a!r}) on a loose {lo['kind']} raised {type(e).__name__}: {str(e)[:160]}")
    if after["scenario"] is not None:
        site = "Scenario.translate_rotate" if case["mode"] == "whole" else f"scenario[{case['mode']}]"
        orc.stored(site, strip(before["scenario"]), strip(after["scenario"]))
        orc.consequences(site, strip(before["scenario"]), strip(after["scenario"]), S)
        orc.bodies(site, before["scenario"], after["scenario"])
        orc.areas_and_history(before["scenario"], after["scenario"])
    if after["problems"] is not None:
        orc.goal_twins("PlanningProblemSet.translate_rotate" if case["mode"] == "whole" else f"problems[{case['mode']}]",
                       case["problems"], before["problems"], after["problems"])
        orc.stored("PlanningProblemSet.translate_rotate" if case["mode"] == "whole" else f"problems[{case['mode']}]",
                   before["problems"], after["problems"])
    for lo, b, x, bad in zip(case["loose"], before["loose"], after["loose"], inadm):
        if x is not None and not bad:
            orc.stored(f"{lo['kind']}.translate_rotate", strip(b), strip(x))
            orc.consequences(f"{lo['kind']}.translate_rotate", strip(b), strip(x), S)
            orc.bodies(f"{lo['kind']}.translate_rotate", b, x)
            orc.areas_and_history(b, x)
    if werr is None:
        place_ties(ctx, case, sc, S, tau, "after")
    all_ok = werr is None and all(e is None or bad for e, bad in zip(lerrs, inadm))
    if all_ok:
        dafter = derived_world(sc, pps, moved_loose, case)
        orc.derived("derived-geometry", dbefore, dafter, S)
        orc.scalars("state-attributes", sbefore, state_scalars(sc, pps, case["loose"], moved_loose))
    if all_ok and last:
        # undo: rotate back by -a about the origin, then translate back by -t
        z = np.array([0.0, 0.0])
        back_err = apply_world(sc, pps, z, -a, case["mode"]) or apply_world(sc, pps, -np.array(tv, dtype=float), 0.0, case["mode"])
        if back_err is not None:
            site, e = back_err
            orc.fail(site, f"inverse-raises-{type(e).__name__}", f"undoing the motion raised {type(e).__name__}: {str(e)[:160]}")
        else:
            orc.restored("inverse", strip({"scenario": before["scenario"], "problems": before["problems"]}),
                         strip({"scenario": snap_scenario(sc), "problems": snap_problems(pps)}), S)
        for lo, b, m in zip(case["loose"], before["loose"], moved_loose):
            if m is None:
                continue
            m1, e1 = apply_loose(lo["kind"], m, z, -a)
            m2, e2 = apply_loose(lo["kind"], m1, -np.array(tv, dtype=float), 0.0) if e1 is None else (None, e1)
            if e2 is not None:
                orc.fail(e2[0], f"inverse-raises-{type(e2[1]).__name__}", f"undoing the motion of a loose {lo['kind']} raised {e2[1]!r}"[:300])
            else:
                orc.restored(f"inverse[{lo['kind']}]", strip(b), strip(snap_loose(lo["kind"], m2)), S)
        reflect_world([sc, pps, moved_loose])
    return moved_loose if werr is None else None


def run(ctx):
    import c05_dims
    c05_dims.check_dimensions()       # the dimension table must match the real signatures (exit 2 otherwise)
    for p in sorted(glob.glob(os.path.join(CORPUS_DIR, "C05", "*.json"))):
        run_case(ctx, json.load(open(p)))
    n = ctx.n(400)
    for i in range(n):
        run_case(ctx, gen_probe_case(ctx) if i % 5 == 4 else gen_case(ctx))


search = run


def replay(ctx, case):
    run_case(ctx, case)


def _still_fails(case, key):
    from common import Ctx
    ctx = Ctx("C05", "quick", 0)
    try:
        run_case(ctx, case)
        return any(f.key == key for f in ctx.failures)
    except Exception:  # noqa
        return False
    finally:
        ctx.close()


def shrink(case, key):
    """Greedy: drop obstacles, problems, loose objects, areas, signs, lights, lanelets one at a time while the same finding
    key is still reported on the real code."""
    case = copy.deepcopy(case)
    if not _still_fails(case, key):
        return case
    budget = [80]

    def try_drop(get, put):
        i = 0
        while i < len(get()) and budget[0] > 0:
            items = get()
            cand = items[:i] + items[i + 1:]
            put(cand)
            budget[0] -= 1
            if _still_fails(case, key):
                continue
            put(items)
            i += 1

    sc = case["scenario"]
    try_drop(lambda: case["loose"], lambda v: case.__setitem__("loose", v))
    i = 0
    while i < len(case["problems"]) and budget[0] > 0:         # (a dropped problem may be the original of a twin: references re-pointed)
        items = case["problems"]
        case["problems"] = drop_problem(items, i)
        budget[0] -= 1
        if not _still_fails(case, key):
            case["problems"] = items
            i += 1
    try_drop(lambda: sc["obstacles"], lambda v: sc.__setitem__("obstacles", v))
    try_drop(lambda: sc.get("areas", []), lambda v: sc.__setitem__("areas", v))
    try_drop(lambda: sc["signs"], lambda v: sc.__setitem__("signs", v))
    try_drop(lambda: sc["lights"], lambda v: sc.__setitem__("lights", v))
    used = {x["lanelet"] for x in sc["signs"] + sc["lights"]}
    i = 0
    while i < len(sc["lanelets"]) and budget[0] > 0:
        if sc["lanelets"][i]["id"] in used:
            i += 1
            continue
        items = sc["lanelets"]
        sc["lanelets"] = items[:i] + items[i + 1:]
        budget[0] -= 1
        if not _still_fails(case, key):
            sc["lanelets"] = items
            i += 1
    linked = {k for k, p in enumerate(case["problems"]) if "goal_of" in p} | {p["goal_of"] for p in case["problems"] if "goal_of" in p}
    for k, p in enumerate(case["problems"]):
        try_drop(lambda: p["goal"], lambda v: p.__setitem__("goal", v)) if len(p["goal"]) > 1 and k not in linked else None
    return case
